"""C09 — Tally and Counter report the textbook statistics.

Tie: operation sequences (register / notify / initialize, valid and rejected
observations) are run on the real Counter, EventBasedCounter, Tally and
EventBasedTally (without, with one and with all subscribers) of /repo and on
the Gallina model Stats.Tally (binary64 instance) inside coqc; how every call
ended and every public getter after (a sample of) the calls must agree bit for
bit.  Second tie: the method bodies of Counter and Tally are translated from the
source text of the tree under test on every run (translator/py2gallina_stats.py)
and coq/Stats/GenAgree.v must prove the generated definitions equal to the
hand-written model; when that breaks, the oracle below searches (also an extra
batch of cases) for a concrete failing input, and only if there is none the run
reports `translated-model-differs ... no-failing-input-found`.
A model-independent oracle (fractions.Fraction evaluation of the
textbook definitions, tolerance scaled by the data's condition number; exact
agreement on value / NaN / raise; "never raises" and "rejected observations
change nothing" checked directly on the implementation) classifies
disagreements and searches for and shrinks a failing input.
"""
from __future__ import annotations

import json
import math
import random
import sys
from pathlib import Path

sys.path.insert(0, str(Path(__file__).resolve().parent))
import common as C
import c09lib as L

PID = "C09"
# built in coq/ (independent of the source text); Gen_Stats / GenAgree / Props are compiled per tree (c09lib.StatsTree)
TARGETS = ["Stats/TallyProofs.vo", "Stats/GenericTotal.vo"]

GETTERS = [
    ("mean", "mean", lambda t: t.mean()),
    ("var_b", "variance", lambda t: t.variance()),
    ("var_u", "variance", lambda t: t.variance(False)),
    ("sd_b", "stdev", lambda t: t.stdev()),
    ("sd_u", "stdev", lambda t: t.stdev(False)),
    ("skew_b", "skewness", lambda t: t.skewness()),
    ("skew_u", "skewness", lambda t: t.skewness(False)),
    ("kurt_b", "kurtosis", lambda t: t.kurtosis()),
    ("kurt_u", "kurtosis", lambda t: t.kurtosis(False)),
    ("ek_b", "excess_kurtosis", lambda t: t.excess_kurtosis()),
    ("ek_u", "excess_kurtosis", lambda t: t.excess_kurtosis(False)),
]
GNAME = {k: g for k, g, _ in GETTERS}
SNAP_ORDER = ["n", "min", "max", "sum"] + [k for k, _, _ in GETTERS] + ["ci"]

# order in which EventBasedTally._fire_events publishes, and the getter each payload must equal
TALLY_EVENTS = [("OBSERVATION_ADDED_EVENT", None), ("N_EVENT", "n"), ("MIN_EVENT", "min"), ("MAX_EVENT", "max"),
                ("SUM_EVENT", "sum"), ("MEAN_EVENT", "mean"), ("POPULATION_STDEV_EVENT", "sd_b"),
                ("POPULATION_VARIANCE_EVENT", "var_b"), ("POPULATION_SKEWNESS_EVENT", "skew_b"),
                ("POPULATION_KURTOSIS_EVENT", "kurt_b"), ("POPULATION_EXCESS_K_EVENT", "ek_b"),
                ("SAMPLE_STDEV_EVENT", "sd_u"), ("SAMPLE_VARIANCE_EVENT", "var_u"),
                ("SAMPLE_SKEWNESS_EVENT", "skew_u"), ("SAMPLE_KURTOSIS_EVENT", "kurt_u"),
                ("SAMPLE_EXCESS_K_EVENT", "ek_u")]
COUNTER_EVENTS = [("OBSERVATION_ADDED_EVENT", None), ("N_EVENT", "n"), ("COUNT_EVENT", "count")]

ALPHAS_VALID = [0.05, 0.1, 0.5, 0.95, 1.0, 0.01, 0.0, 1e-17, 0.3]
ALPHAS_BAD = [1.5, -0.1, float("nan"), 1, 0, "x", None]


# ------------------------------------------------------------------ generation
def gen_values(rng: random.Random, fam: str, n: int):
    if fam == "small_int":
        as_int = rng.random() < 0.5
        return [(rng.randint(-5, 9) if as_int or rng.random() < 0.3 else float(rng.randint(-5, 9))) for _ in range(n)]
    if fam == "dyadic":
        return [rng.randint(-64, 64) / 8.0 for _ in range(n)]
    if fam == "unit":
        return [rng.random() for _ in range(n)]
    if fam == "mixed":
        return [rng.choice([-1, 1]) * rng.random() * 10.0 ** rng.randint(-12, 12) for _ in range(n)]
    if fam == "offset":
        base = rng.choice([1e6, 1e9, 1e12, float(2 ** 40), -3e8, 1e4])
        spread = rng.choice([1e-3, 1.0, 100.0])
        return [base + spread * (rng.random() - 0.5) for _ in range(n)]
    if fam == "equal":
        v = rng.choice([0.0, 1.0, 0.1, -2.5, 1e9 + 0.1, 7, rng.random() * 10.0 ** rng.randint(-8, 8)])
        return [v for _ in range(n)]
    if fam == "two_level":
        v = rng.choice([0.1, 3.0, -1e3, 1e8])
        w = v + rng.choice([1.0, -0.5, 1e-6, 1e3])
        return [w if rng.random() < 0.15 else v for _ in range(n)]
    if fam == "ulp_spread":
        v = rng.choice([1.0, 0.1, 1e10, 3.3e-7])
        return [v + k * math.ulp(v) for k in (rng.randint(0, 3) for _ in range(n))]
    if fam == "tiny":            # variance underflows: divisors become 0.0 / subnormal
        sc = 10.0 ** rng.randint(-170, -100)
        return [rng.randint(1, 9) * sc for _ in range(n)]
    if fam == "extreme":         # variance ** 1.5 beyond the float range
        sc = 10.0 ** rng.randint(80, 150)
        return [rng.choice([-1, 1]) * rng.random() * sc for _ in range(n)]
    raise ValueError(fam)


FAMS = ["small_int", "small_int", "dyadic", "unit", "mixed", "offset", "equal", "equal", "two_level",
        "ulp_spread", "tiny", "extreme"]
QUANTITIES = [("Duration", "s"), ("Duration", "min"), ("Duration", "h"), ("Length", "km"), ("SI", "m"), ("Speed", "km/h")]
BAD_OBS = [float("nan"), "3.0", None, L.HUGE_INT, -L.HUGE_INT, [1.0], float("inf"), float("-inf"), True]


def add_init_listener(rng: random.Random, case, seeds):
    """An event-based statistic gets, in half of the cases, a listener of INITIALIZED_EVENT that reads the statistic
    inside notify and (mode 'register') registers a seed observation; such a case contains an initialize() after
    some observations."""
    if case["cls"] in ("Tally", "Counter") or rng.random() < 0.5:
        return case
    ops = case["ops"]
    case["init_listener"] = rng.choice(["read", "register", "register"])
    if len(ops) >= 2 and not any(o["op"] == "init" for o in ops[1:]):
        ops.insert(rng.randint(1, len(ops) - (1 if len(ops) > 2 else 0)), {"op": "init"})
    if case["init_listener"] == "register":
        for o in ops:
            if o["op"] == "init" and rng.random() < 0.85:
                o["seed"] = L.enc(rng.choice(seeds))
    return case


def gen_tally_case(rng: random.Random, idx: int, long_n: int = 0):
    variant = [("Tally", "none"), ("EventBasedTally", "none"), ("EventBasedTally", "all"),
               ("EventBasedTally", "one")][idx % 4]
    fam = FAMS[rng.randrange(len(FAMS))]
    n = long_n if long_n else rng.choice([0, 1, 2, 3, 4, 5, 8, 13, 21, 34])
    vals = gen_values(rng, fam, n) if n else []
    if rng.random() < 0.15 and n:
        fam2 = FAMS[rng.randrange(len(FAMS))]
        vals = vals[: n // 2] + gen_values(rng, fam2, n - n // 2)
        fam = fam + "+" + fam2
    ops = []
    p_init = 0.0 if long_n else rng.choice([0.0, 0.0, 0.05, 0.15])
    p_bad = 0.002 if long_n else rng.choice([0.0, 0.05, 0.2])
    p_qty = 0.0 if long_n else rng.choice([0.0, 0.0, 0.0, 0.1, 0.4])
    p_foreign = 0.002 if long_n else rng.choice([0.0, 0.05, 0.15, 0.3])
    for v in vals:
        if rng.random() < p_init:
            ops.append({"op": "init"})
        if rng.random() < p_bad:
            b = BAD_OBS[rng.randrange(len(BAD_OBS))]
            if isinstance(b, list):
                b = None
            ops.append({"op": "reg" if variant[0] == "Tally" or rng.random() < 0.5 else "notify", "v": L.enc(b)})
        if variant[0] != "Tally" and rng.random() < p_foreign:
            # a valid payload under an event type that merely has the NAME "DATA_EVENT" (defined in another class)
            ops.append({"op": "foreign", "v": L.enc(v if rng.random() < 0.7 else float(rng.randint(-9, 9)))})
        how = "reg" if variant[0] == "Tally" or rng.random() < 0.7 else "notify"
        if rng.random() < p_qty and not isinstance(v, bool):
            # a Quantity is a float subclass: it counts with its si-value (register takes float(value), as notify does)
            qc, qu = QUANTITIES[rng.randrange(len(QUANTITIES))]
            ops.append({"op": how, "v": L.qenc(qc, float(v), qu)})
        else:
            ops.append({"op": how, "v": L.enc(v)})
    if not long_n and rng.random() < 0.3:
        ops.append({"op": "init"})
        if rng.random() < 0.5:
            for v in gen_values(rng, "small_int", rng.randint(1, 4)):
                ops.append({"op": "reg", "v": L.enc(v)})
    if not ops:
        ops.append({"op": "init"})
    alphas = [rng.choice(ALPHAS_VALID), rng.choice(ALPHAS_VALID)]
    if rng.random() < 0.3:
        alphas.append(ALPHAS_BAD[rng.randrange(len(ALPHAS_BAD))])
    every = 1 if len(ops) <= 12 or (not long_n and rng.random() < 0.3) else max(2, len(ops) // 6)
    case = {"kind": "tally", "cls": variant[0], "subs": variant[1], "family": fam, "ops": ops,
            "alphas": [L.enc(a) for a in alphas], "snap_every": every}
    seeds = [v for v in vals if not isinstance(v, bool)][:3] + [5.0, 2, -1.5]
    return case if long_n else add_init_listener(rng, case, seeds)


def gen_counter_case(rng: random.Random, idx: int):
    variant = [("Counter", "none"), ("EventBasedCounter", "none"), ("EventBasedCounter", "all")][idx % 3]
    n = rng.choice([0, 1, 2, 5, 10, 30])
    ops = []
    for _ in range(n):
        r = rng.random()
        if r < 0.08:
            ops.append({"op": "init"})
        elif r < 0.2:
            b = rng.choice([1.0, 2.5, "1", None, float("nan"), "quantity"])
            ops.append({"op": "reg", "v": L.qenc("Duration", 1.0, "s") if b == "quantity" else L.enc(b)})
        else:
            v = rng.choice([1, 1, -1, 0, True, rng.randint(-50, 50), rng.randint(-10 ** 30, 10 ** 30)])
            if variant[0] != "Counter" and rng.random() < 0.15:
                ops.append({"op": "foreign", "v": L.enc(rng.choice([1, 5, -2]))})     # same-named foreign event type
            ops.append({"op": "reg" if variant[0] == "Counter" or rng.random() < 0.7 else "notify", "v": L.enc(v)})
    if not ops:
        ops.append({"op": "init"})
    return add_init_listener(rng, {"kind": "counter", "cls": variant[0], "subs": variant[1], "ops": ops}, [3, 1, -2, 0])


# ------------------------------------------------------------------ implementation side
class _Collector:
    pass


def _make_collector():
    from pydsol.core.pubsub import EventListener

    class Collector(EventListener):
        def __init__(self):
            self.events = []

        def notify(self, event):
            self.events.append((event.event_type.name, event.content))
    return Collector()


_make_init_listener = L.make_init_listener


def snap_tally(t, alphas):
    d = {"n": t.n(), "min": L.call(t.min), "max": L.call(t.max), "sum": L.call(t.sum)}
    for k, _, f in GETTERS:
        d[k] = L.call(f, t)
    ci = []
    for a in alphas:
        try:
            lo, hi = t.confidence_interval(a)
            ci.append(("p", float(lo), float(hi)))
        except Exception as exc:  # noqa
            ci.append(("r", type(exc).__name__))
    d["ci"] = ci
    return d


def snap_key(d):
    out = []
    for k in SNAP_ORDER:
        v = d[k]
        if k == "n":
            out.append(v)
        elif k == "ci":
            out.append([(c[0],) + tuple(L.fbits(x) if isinstance(x, float) else x for x in c[1:]) for c in v])
        else:
            out.append((v[0], L.fbits(v[1]) if v[0] == "v" else v[1]))
    return out


def run_tally_case(case):
    """Run on the real class. Returns a list of step records."""
    from pydsol.core import statistics as S
    from pydsol.core.interfaces import StatEvents
    from pydsol.core.pubsub import Event
    t = getattr(S, case["cls"])("tally under test")
    col = None
    if case["subs"] != "none":
        col = _make_collector()
        names = [n for n, _ in TALLY_EVENTS] + ["INITIALIZED_EVENT"] if case["subs"] == "all" else ["N_EVENT"]
        for nme in names:
            t.add_listener(getattr(StatEvents, nme), col)
    alphas = [L.dec(a) for a in case["alphas"]]
    lis = None
    if case.get("init_listener") and case["cls"] != "Tally":      # subscribed AFTER the collector: it is notified last
        lis = _make_init_listener(case["init_listener"], lambda s: snap_tally(s, alphas[:1]), lambda s, v: s.register(v))
        t.add_listener(StatEvents.INITIALIZED_EVENT, lis)
    every = case["snap_every"]
    nops = len(case["ops"])
    steps = []
    for i, op in enumerate(case["ops"]):
        rec = {"kind": "ok", "snap": None, "pre": None, "post": None, "pub": None}
        if col is not None:
            col.events.clear()
        if op["op"] == "init":
            if lis is not None:
                lis.seen, lis.errors, lis.seed = [], [], (L.dec_impl(op["seed"]) if "seed" in op else None)
            try:
                t.initialize()
            except Exception as exc:  # noqa
                rec["kind"] = type(exc).__name__
            if lis is not None:
                rec["init_seen"], rec["init_errors"] = list(lis.seen), list(lis.errors)
        else:
            v = L.dec_impl(op["v"])
            rec["pre"] = snap_key(snap_tally(t, alphas[:1]))
            try:
                if op["op"] == "notify":
                    t.notify(Event(StatEvents.DATA_EVENT, v))
                elif op["op"] == "foreign":
                    t.notify(Event(L.foreign_event_type("DATA_EVENT"), v))
                else:
                    t.register(v)
            except Exception as exc:  # noqa
                rec["kind"] = type(exc).__name__
        if col is not None:
            rec["pub"] = list(col.events)
        full = (i % every == every - 1) or i >= nops - 2 or (op["op"] == "init" and lis is not None)
        sn = snap_tally(t, alphas if full else alphas[:1])
        rec["post"] = snap_key(sn) if not full else snap_key({**sn, "ci": sn["ci"][:1]})
        if full:
            rec["snap"] = sn
        rec["self"] = t
        steps.append(rec)
    return steps


def run_counter_case(case):
    from pydsol.core import statistics as S
    from pydsol.core.interfaces import StatEvents
    from pydsol.core.pubsub import Event
    c = getattr(S, case["cls"])("counter under test")
    col = None
    if case["subs"] == "all":
        col = _make_collector()
        for nme in [n for n, _ in COUNTER_EVENTS] + ["INITIALIZED_EVENT"]:
            c.add_listener(getattr(StatEvents, nme), col)
    lis = None
    if case.get("init_listener") and case["cls"] != "Counter":
        lis = _make_init_listener(case["init_listener"], lambda s: (s.count(), s.n()), lambda s, v: s.register(v))
        c.add_listener(StatEvents.INITIALIZED_EVENT, lis)
    steps = []
    for op in case["ops"]:
        rec = {"kind": "ok", "pub": None}
        if col is not None:
            col.events.clear()
        if op["op"] == "init" and lis is not None:
            lis.seen, lis.errors, lis.seed = [], [], (L.dec_impl(op["seed"]) if "seed" in op else None)
        try:
            if op["op"] == "init":
                c.initialize()
            elif op["op"] == "notify":
                c.notify(Event(StatEvents.DATA_EVENT, L.dec_impl(op["v"])))
            elif op["op"] == "foreign":
                c.notify(Event(L.foreign_event_type("DATA_EVENT"), L.dec_impl(op["v"])))
            else:
                c.register(L.dec_impl(op["v"]))
        except Exception as exc:  # noqa
            rec["kind"] = type(exc).__name__
        if col is not None:
            rec["pub"] = list(col.events)
        if op["op"] == "init" and lis is not None:
            rec["init_seen"], rec["init_errors"] = list(lis.seen), list(lis.errors)
        rec["snap"] = (c.count(), c.n())
        rec["self"] = c
        steps.append(rec)
    return steps


# ------------------------------------------------------------------ oracle (independent of the Coq model)
def expected_kind_tally(op):
    if op["op"] == "init":
        return "ok", None
    if op["op"] == "foreign":          # notify() accepts StatEvents.DATA_EVENT only, whatever another type is called
        return "ValueError", None
    v = L.dec(op["v"])
    if not L.is_number(v):
        return "TypeError", None
    if isinstance(v, int) and abs(int(v)) >= 10 ** 309:
        return "OverflowError", None
    if isinstance(v, float) and v != v:
        return "ValueError", None
    return "ok", v


def tally_expectations(eff, alphas):
    """Textbook definitions on the effective observations.
    Returns dict getter -> ('nan',) | ('val', lo, hi) | ('any',)  and a flag `regular`."""
    from statistics import NormalDist
    exp = {}
    n = len(eff)
    if n == 0:
        for k, _, _ in GETTERS:
            exp[k] = ("nan",)
        exp["min"] = exp["max"] = ("nan",)
        exp["sum"] = ("val", 0.0, 0.0)
        exp["ci"] = [("nan",) if _valid_alpha(a) else ("raise",) for a in alphas]
        return exp, True
    n, s, mean, m2, m3, m4, X, D = L.power_sums(eff)
    Xf, Df = float(X), float(D)
    regular = Xf <= 1e60 and (D == 0 or (Df >= 1e-60 and Df * 1e6 >= Xf))
    kappa = 1.0 if D == 0 else max(1.0, Xf / Df)
    nf = max(1.0, n / 100.0)
    absx = float(sum(abs(L.fr(x)) for x in eff))
    exp["min"] = ("val", float(min(eff)), float(min(eff)))
    exp["max"] = ("val", float(max(eff)), float(max(eff)))
    tS = 1e-12 * absx * nf + 1e-300
    exp["sum"] = ("val", float(s) - tS, float(s) + tS)
    tM = 1e-12 * Xf * nf + 1e-300
    iv_mean = (float(mean) - tM, float(mean) + tM)
    exp["mean"] = ("val",) + iv_mean
    if not regular:
        for k in ("var_b", "sd_b"):
            exp[k] = ("any",)
        for k in ("var_u", "sd_u"):
            exp[k] = ("any",) if n >= 2 else ("nan",)
        exp["skew_b"] = ("any",) if n >= 2 else ("nan",)
        exp["skew_u"] = ("any",) if n >= 3 else ("nan",)
        exp["kurt_b"] = exp["ek_b"] = ("any",) if n >= 3 else ("nan",)
        exp["kurt_u"] = exp["ek_u"] = ("any",) if n >= 4 else ("nan",)
        exp["ci"] = [(("any",) if n >= 2 else ("nan",)) if _valid_alpha(a) else ("raise",) for a in alphas]
        return exp, False
    rel = 1e-9 * kappa * nf
    t2 = rel * n * Df ** 2
    t3 = rel * n * Df ** 3
    t4 = rel * n * Df ** 4
    i2 = (max(0.0, float(m2) - t2), float(m2) + t2)
    i3 = (float(m3) - t3, float(m3) + t3)
    i4 = (float(m4) - t4, float(m4) + t4)
    defined = D != 0

    def put(k, ok, f, *ivs):
        if not ok:
            exp[k] = ("nan",)
            return
        iv = L.corners(f, *ivs)
        exp[k] = ("val",) + iv if iv else ("any",)
    put("var_b", True, lambda a: a / n, i2)
    put("var_u", n >= 2, lambda a: a / (n - 1), i2)
    put("sd_b", True, lambda a: math.sqrt(a / n), i2)
    put("sd_u", n >= 2, lambda a: math.sqrt(a / (n - 1)), i2)
    posvar = i2[0] > 0
    if defined and not posvar:          # tolerance box touches zero variance: value not constrained
        for k, need in (("skew_b", 2), ("skew_u", 3), ("kurt_b", 3), ("kurt_u", 4), ("ek_b", 3), ("ek_u", 4)):
            exp[k] = ("any",) if n >= need else ("nan",)
    else:
        put("skew_b", n >= 2 and defined, lambda c, a: (c / n) / (a / n) ** 1.5, i3, i2)
        put("skew_u", n >= 3 and defined,
            lambda c, a: (c / n) / (a / n) ** 1.5 * math.sqrt(n * (n - 1)) / (n - 2), i3, i2)
        put("kurt_b", n >= 3 and defined, lambda c, a: (c / n) / (a / n) ** 2, i4, i2)
        put("kurt_u", n >= 4 and defined, lambda c, a: c / (n - 1) / (a / (n - 1)) ** 2, i4, i2)
        put("ek_b", n >= 3 and defined, lambda c, a: (c / n) / (a / n) ** 2 - 3.0, i4, i2)
        put("ek_u", n >= 4 and defined,
            lambda c, a: (n - 1) / ((n - 2) * (n - 3)) * ((n + 1) * ((c / n) / (a / n) ** 2 - 3.0) + 6.0), i4, i2)
    cis = []
    mn, mx = float(min(eff)), float(max(eff))
    for a in alphas:
        if not _valid_alpha(a):
            cis.append(("raise",))
        elif n < 2:
            cis.append(("nan",))
        else:
            level = 1.0 - a / 2.0
            if level >= 1.0:
                cis.append(("pair", (mn, mn), (mx, mx)))
                continue
            z = NormalDist(0.0, 1.0).inv_cdf(level)
            lo = L.corners(lambda m, v: max(mn, m - z * math.sqrt(v / (n - 1) / n)), iv_mean, i2)
            hi = L.corners(lambda m, v: min(mx, m + z * math.sqrt(v / (n - 1) / n)), iv_mean, i2)
            cis.append(("pair", lo, hi))
    exp["ci"] = cis
    return exp, True


def _valid_alpha(a):
    return isinstance(a, float) and 0 <= a <= 1


def check_snapshot(sn, eff, alphas, polluted):
    """First violated clause of one getter snapshot, or None. Also returns whether the
    snapshot was checked in the regular regime with all statistics defined."""
    # never raises (valid alpha): checked whatever the data
    for k, g, _ in GETTERS:
        if sn[k][0] == "r":
            return (f"tally-{g}-raises-{sn[k][1]}", f"{g}({'biased' if k.endswith('_b') or k == 'mean' else 'unbiased'}) raised "
                    f"{sn[k][1]} after {len(eff)} registered observations"), False
        if sn[k][0] == "bad":
            return (f"tally-{g}-not-a-float", f"{g} returned {sn[k][1]}"), False
    for a, c in zip(alphas, sn["ci"]):
        if _valid_alpha(a) and c[0] == "r":
            return (f"tally-confidence_interval-raises-{c[1]}",
                    f"confidence_interval({a!r}) raised {c[1]} after {len(eff)} registered observations "
                    "(alpha between 0 and 1 inclusive is documented as valid)"), False
        if not _valid_alpha(a) and c[0] != "r":
            return ("tally-confidence_interval-accepts-invalid-alpha", f"confidence_interval({a!r}) returned {c}"), False
    if polluted:
        return None, False
    if sn["n"] != len(eff) or isinstance(sn["n"], bool) or not isinstance(sn["n"], int):
        return ("tally-n-wrong", f"n() = {sn['n']!r}, {len(eff)} observations registered since the last initialize"), False
    exp, regular = tally_expectations(eff, alphas)
    for k in ["min", "max", "sum"] + [k for k, _, _ in GETTERS]:
        e = exp[k]
        x = sn[k][1]
        g = GNAME.get(k, k)
        if e[0] == "nan" and x == x:
            return (f"tally-{g}-not-nan-when-undefined", f"{k} = {x!r} but the statistic is undefined for these "
                    f"{len(eff)} observations (documented: NaN)"), False
        if e[0] == "val":
            if x != x:
                return (f"tally-{g}-nan-when-defined", f"{k} is NaN but the statistic is defined; exact value in [{e[1]!r}, {e[2]!r}]"), False
            if not (e[1] <= x <= e[2]):
                return (f"tally-{g}-value-off", f"{k} = {x!r}, exact rational evaluation of the definition gives [{e[1]!r}, {e[2]!r}]"), False
    for a, c, e in zip(alphas, sn["ci"], exp["ci"]):
        if e[0] == "nan" and not (c[1] != c[1] and c[2] != c[2]):
            return ("tally-confidence_interval-not-nan-when-undefined", f"confidence_interval({a!r}) = {c[1:]!r} with fewer than two observations"), False
        if e[0] == "pair":
            for side, x, iv in (("lower", c[1], e[1]), ("upper", c[2], e[2])):
                if x != x:
                    return ("tally-confidence_interval-nan-when-defined", f"confidence_interval({a!r}) {side} bound is NaN"), False
                if iv and not (iv[0] <= x <= iv[1]):
                    return ("tally-confidence_interval-value-off", f"confidence_interval({a!r}) {side} bound {x!r}, definition gives [{iv[0]!r}, {iv[1]!r}]"), False
    full = regular and len(eff) >= 4 and exp["kurt_u"][0] == "val"
    return None, full


def not_fresh(sn, alphas):
    """None when a getter snapshot is that of a tally with no observation: n 0, sum 0.0, everything else NaN"""
    if sn["n"] != 0 or isinstance(sn["n"], bool):
        return f"n() = {sn['n']!r}"
    if sn["sum"] != ("v", 0.0):
        return f"sum() = {sn['sum'][1]!r}"
    for k in ["min", "max"] + [k for k, _, _ in GETTERS]:
        if sn[k][0] != "v" or sn[k][1] == sn[k][1]:
            return f"{GNAME.get(k, k)}() = {sn[k][1]!r}"
    for a, c in zip(alphas, sn["ci"]):
        if _valid_alpha(a) and not (c[0] == "p" and c[1] != c[1] and c[2] != c[2]):
            return f"confidence_interval({a!r}) = {c[1:]!r}"
    return None


def check_init_listener(case, op, rec, who, fresh, i):
    """the INITIALIZED_EVENT listener of the case: notified exactly once, without error, and what it read inside
    notify is a freshly initialised statistic (nothing has been registered since THAT initialisation)"""
    if "init_seen" not in rec:
        return None
    if len(rec["init_seen"]) != 1:
        return (f"{who}-initialized-event-count-wrong", f"initialize() notified the INITIALIZED_EVENT listener {len(rec['init_seen'])} times", i)
    stale = fresh(rec["init_seen"][0])
    if stale:
        return (f"{who}-initialized-event-before-reset",
                f"{case['cls']}.initialize(): when INITIALIZED_EVENT was delivered the statistic still reported {stale}; "
                "at that moment no observation has been registered since the initialisation", i)
    if rec["init_errors"]:
        return (f"{who}-register-inside-initialized-notification-raises",
                f"registering {L.show(op['seed']) if 'seed' in op else ''} from the INITIALIZED_EVENT listener raised {rec['init_errors'][0]}", i)
    return None


def oracle_tally(case, steps):
    """Returns (violation or None, nontrivial: bool). violation = (signature, what, step)."""
    eff = []
    polluted = False
    alphas = [L.dec(a) for a in case["alphas"]]
    nontrivial = False
    for i, (op, rec) in enumerate(zip(case["ops"], steps)):
        ek, v = expected_kind_tally(op)
        if op["op"] == "notify" and ek == "ValueError" and False:
            pass
        if rec["kind"] != ek:
            if ek == "ok":
                who = "eventbased-tally" if case["cls"] != "Tally" else "tally"
                what = "initialize" if op["op"] == "init" else f"{op['op']}({L.show(op['v'])})"
                sub = {"none": "", "all": " with subscribers attached", "one": " with one subscriber attached"}[case["subs"]]
                qty = "quantity-" if op["op"] != "init" and "q" in op["v"] else ""
                return (f"{who}-register-{qty}raises-{rec['kind']}",
                        f"{case['cls']}.{what}{sub} raised {rec['kind']} on a valid observation "
                        f"(observation #{len(eff) + 1} since the last initialize)", i), False
            if op["op"] == "foreign":
                return ("eventbased-tally-foreign-event-type-not-rejected",
                        f"{case['cls']}.notify of an event whose type is a DIFFERENT EventType that is merely named 'DATA_EVENT' "
                        f"(defined in class Sensor, payload {L.show(op['v'])}) ended with {rec['kind']}, expected ValueError", i), False
            return ("tally-invalid-observation-not-rejected",
                    f"{case['cls']}.{op['op']}({L.show(op['v'])}) ended with {rec['kind']}, expected {ek}", i), False
        if op["op"] == "init":
            eff = []
            polluted = False
            bad = check_init_listener(case, op, rec, "eventbased-tally", lambda sn: not_fresh(sn, alphas[:1]), i)
            if bad:
                return bad, False
            seeded = "init_seen" in rec and case.get("init_listener") == "register" and "seed" in op
            if seeded:
                eff = [L.dec(op["seed"])]       # the listener's observation is the first one since this initialisation
            if rec["pub"] is not None and case["subs"] == "all":
                names = [e[0] for e in rec["pub"]]
                want = ["INITIALIZED_EVENT"] + ([n for n, _ in TALLY_EVENTS] if seeded else [])
                if names != want or rec["pub"][0][1] is not rec["self"]:
                    return ("eventbased-tally-initialize-publication-wrong", f"initialize published {names}, expected {want}", i), False
                if seeded and rec["snap"] is not None:
                    for (nme, key), (_, content) in zip(TALLY_EVENTS, rec["pub"][1:]):
                        wantv = float(eff[0]) if key is None else (rec["snap"][key] if key == "n" else rec["snap"][key][1])
                        same = (content == wantv) if key == "n" else (isinstance(content, (int, float)) and L.same_float(float(content), wantv))
                        if not same:
                            return ("eventbased-tally-published-payload-differs",
                                    f"{nme} (published for the observation registered inside the INITIALIZED_EVENT notification) carried "
                                    f"{content!r} but the getter returns {wantv!r} right after initialize()", i), False
        elif ek != "ok":
            if rec["pre"] != rec["post"]:
                return ("tally-rejected-observation-changes-state",
                        f"{op['op']}({L.show(op['v'])}) was rejected with {ek} but a getter changed: {rec['pre']} -> {rec['post']}", i), False
            if rec["pub"]:
                return ("eventbased-tally-publishes-on-rejected", f"rejected observation published {len(rec['pub'])} events", i), False
        else:
            if isinstance(v, float) and math.isinf(v):
                polluted = True
            if isinstance(v, int) and abs(int(v)) > 2 ** 53:
                polluted = True
            eff.append(v)
            if rec["pub"] is not None and case["subs"] == "all":
                sn = rec["snap"] or None
                names = [e[0] for e in rec["pub"]]
                if names != [n for n, _ in TALLY_EVENTS]:
                    return ("eventbased-tally-publication-order-wrong", f"register published {names}", i), False
        if rec["snap"] is not None:
            bad, full = check_snapshot(rec["snap"], eff, alphas, polluted)
            if bad:
                return (bad[0], bad[1], i), False
            nontrivial = nontrivial or full
            if rec["pub"] is not None and case["subs"] == "all" and ek == "ok" and op["op"] != "init":
                for (nme, key), (_, content) in zip(TALLY_EVENTS, rec["pub"]):
                    want = float(v) if key is None else (rec["snap"][key] if key == "n" else rec["snap"][key][1])
                    got = content if key == "n" else (float(content) if isinstance(content, (int, float)) else content)
                    same = (got == want) if key == "n" else (isinstance(got, float) and L.same_float(got, want))
                    if not same:
                        return ("eventbased-tally-published-payload-differs",
                                f"{nme} carried {content!r} but the getter returns {want!r} right after the call", i), False
    return None, nontrivial


def oracle_counter(case, steps):
    count, n = 0, 0
    nontrivial = False
    for i, (op, rec) in enumerate(zip(case["ops"], steps)):
        if op["op"] == "init":
            ek, count, n = "ok", 0, 0
            if rec["kind"] == "ok":
                bad = check_init_listener(case, op, rec, "eventbased-counter",
                                          lambda sn: None if sn == (0, 0) else f"count(), n() = {sn!r}", i)
                if bad:
                    return bad, False
                if "init_seen" in rec and case.get("init_listener") == "register" and "seed" in op:
                    count, n = int(L.dec(op["seed"])), 1
        elif op["op"] == "foreign":        # a different EventType that is merely named DATA_EVENT
            ek = "ValueError"
            if rec["kind"] != ek:
                return ("eventbased-counter-foreign-event-type-not-rejected",
                        f"{case['cls']}.notify of an event whose type is a DIFFERENT EventType that is merely named 'DATA_EVENT' "
                        f"(defined in class Sensor, payload {L.show(op['v'])}) ended with {rec['kind']}, expected ValueError", i), False
        else:
            v = L.dec(op["v"])
            ek = "ok" if isinstance(v, int) else "TypeError"
            if ek == "ok":
                count += int(v)
                n += 1
        if rec["kind"] != ek:
            return (("counter-register-raises-" + rec["kind"]) if ek == "ok" else "counter-invalid-increment-not-rejected",
                    f"{case['cls']}.{op['op']}({L.dec(op['v']) if 'v' in op else ''!r}) ended with {rec['kind']}, expected {ek}", i), False
        if rec["snap"] != (count, n) or isinstance(rec["snap"][0], float):
            return ("counter-count-or-n-wrong", f"count(), n() = {rec['snap']!r}, increments since the last initialize "
                    f"sum to {count} in {n} observations", i), False
        if rec["pub"] is not None and ek == "ok" and op["op"] != "init":
            want = [("OBSERVATION_ADDED_EVENT", L.dec(op["v"])), ("N_EVENT", n), ("COUNT_EVENT", count)]
            if [(a, int(b)) for a, b in rec["pub"]] != [(a, int(b)) for a, b in want]:
                return ("eventbased-counter-publication-wrong", f"published {rec['pub']!r}, expected {want!r}", i), False
        if rec["pub"] and ek != "ok":
            return ("eventbased-counter-publishes-on-rejected", f"rejected increment published {rec['pub']!r}", i), False
        nontrivial = nontrivial or (n >= 3 and op["op"] != "init")
    return None, nontrivial


# ------------------------------------------------------------------ Coq emission
def c_snap(sn, alphas):
    parts = [C.cz(sn["n"])]
    for k in ("min", "max", "sum"):
        if sn[k][0] != "v":
            return None
        parts.append(C.cfloat(sn[k][1]))
    for k, _, _ in GETTERS:
        g = L.cgres(sn[k])
        if g is None:
            return None
        parts.append(g)
    cis = []
    for a, c in zip(alphas, sn["ci"]):
        al = f"(@ANum NumF {C.cfloat(a)})" if isinstance(a, float) else "(@ANotFloat NumF)"
        if c[0] == "p":
            cis.append(f"({al}, GPair {C.cfloat(c[1])} {C.cfloat(c[2])})")
        elif c[1] in L.EXN:
            cis.append(f"({al}, GRaise2 {c[1]})")
        else:
            return None
    parts.append(C.clist(cis))
    return "(mkTS " + " ".join(parts) + ")"


def c_tally_case(case, steps):
    alphas = [L.dec(a) for a in case["alphas"]]
    items = []
    for op, rec in zip(case["ops"], steps):
        if op["op"] == "init":
            cop = "(@TInit NumF)"
        elif op["op"] == "foreign":
            # notify's own event-type test is not part of the model: a notification it refuses enters as a refused
            # observation of the same kind (ValueError); if the implementation accepted it, the step disagrees
            cop = "(@TReg NumF ONaN)"
        else:
            v = L.dec(op["v"])
            if op["op"] == "notify" and not L.is_number(v):
                cop = "(@TReg NumF ONotNumber)"
            else:
                cop = f"(@TReg NumF {L.carg(v)})"
        ek = L.cekind(rec["kind"])
        if ek is None:
            return None
        if rec["snap"] is None:
            sn = "None"
        else:
            s = c_snap(rec["snap"], alphas)
            if s is None:
                return None
            sn = f"(Some {s})"
        if op["op"] == "init" and rec.get("init_seen"):
            # initialize() with the INITIALIZED_EVENT listener: the model resets (compared with what the listener read
            # inside notify), then -- in mode 'register' -- registers the listener's seed observation
            s0 = c_snap(rec["init_seen"][0], alphas[:1])
            if s0 is None or len(rec["init_seen"]) != 1 or rec["init_errors"]:
                return None
            if case.get("init_listener") == "register" and "seed" in op:
                items.append(f"({cop}, {ek}, (Some {s0}))")
                items.append(f"((@TReg NumF {L.carg(L.dec(op['seed']))}), EOk, {sn})")
                continue
            items.append(f"({cop}, {ek}, (Some {s0}))")
            cop = "(@TReg NumF ONaN)"      # a no-op step carrying the snapshot taken after initialize() returned
            ek = "(EExn ValueError)"
        items.append(f"({cop}, {ek}, {sn})")
    return C.clist(items)


def c_counter_case(case, steps):
    items = []
    for op, rec in zip(case["ops"], steps):
        if op["op"] == "foreign":
            if rec["kind"] == "ValueError":
                continue              # refused by notify's event-type test, nothing happened: no model step
            return None
        if op["op"] == "init":
            cop = "CInit"
        else:
            v = L.dec(op["v"])
            cop = f"(CReg (CInt {C.cz(int(v))}))" if isinstance(v, int) else "(CReg CNotInt)"
        ek = L.cekind(rec["kind"])
        if ek is None:
            return None
        if op["op"] == "init" and rec.get("init_seen"):
            if len(rec["init_seen"]) != 1 or rec["init_errors"]:
                return None
            c0, n0 = rec["init_seen"][0]
            items.append(f"({cop}, {ek}, Some ({C.cz(c0)}, {C.cz(n0)}))")
            if case.get("init_listener") == "register" and "seed" in op:
                items.append(f"((CReg (CInt {C.cz(int(L.dec(op['seed'])))})), EOk, Some ({C.cz(rec['snap'][0])}, {C.cz(rec['snap'][1])}))")
            continue
        items.append(f"({cop}, {ek}, Some ({C.cz(rec['snap'][0])}, {C.cz(rec['snap'][1])}))")
    return C.clist(items)


HEADER = ["From Coq Require Import ZArith List PrimFloat.", "From PV Require Import Stats.Num Stats.Tally.",
          "Import ListNotations."]


def icdf_table(cases):
    from statistics import NormalDist
    tab = {}
    for case in cases:
        for a in case.get("alphas", []):
            a = L.dec(a)
            if isinstance(a, float) and 0 <= a <= 1:
                level = 1.0 - a / 2.0
                if 0.0 < level < 1.0:
                    tab[level.hex()] = (level, NormalDist(0.0, 1.0).inv_cdf(level))
    return "Definition tab : list (float * float) := " + C.clist(
        f"({C.cfloat(k)}, {C.cfloat(v)})" for k, v in tab.values()) + "."


def emit_tally(path: Path, tabdef: str, lits):
    lines = HEADER + [tabdef, "Definition cases : list (list tcase_step) := [", ";\n".join(lits), "].",
                      "Eval vm_compute in (mismatches_from 0 (tcase_ok tab) cases)."]
    path.write_text("\n".join(lines) + "\n")


def emit_counter(path: Path, lits):
    lines = HEADER + ["Definition cases : list (list ccase_step) := [", ";\n".join(lits), "].",
                      "Eval vm_compute in (mismatches_from 0 ccase_ok cases)."]
    path.write_text("\n".join(lines) + "\n")


# ------------------------------------------------------------------ driver pieces
def run_case(case):
    return run_tally_case(case) if case["kind"] == "tally" else run_counter_case(case)


def oracle(case, steps):
    return oracle_tally(case, steps) if case["kind"] == "tally" else oracle_counter(case, steps)


def strip(case):
    return {k: v for k, v in case.items()}


def shrink_case(case, sig):
    def failing(ops):
        c = dict(case)
        c["ops"] = ops
        if c["kind"] == "tally":
            c["snap_every"] = 1
        try:
            b, _ = oracle(c, run_case(c))
        except Exception:  # noqa
            return False
        return bool(b) and b[0] == sig
    c = dict(case)
    if c["kind"] == "tally":
        c["snap_every"] = 1
    if not failing(c["ops"]):
        return case
    c["ops"] = L.shrink_list(c["ops"], failing)
    return c


def describe_ops(case):
    out = []
    for op in case["ops"]:
        if op["op"] == "foreign":
            out.append(f"notify(Event(<EventType named 'DATA_EVENT' defined in class Sensor>, {L.show(op['v'])}))")
            continue
        if op["op"] == "init" and case.get("init_listener"):
            out.append("initialize()  [INITIALIZED_EVENT listener reads the statistic inside notify"
                       + (f" and registers {L.show(op['seed'])}]" if case["init_listener"] == "register" and "seed" in op else "]"))
            continue
        out.append("initialize()" if op["op"] == "init" else f"{op['op']}({L.show(op['v'])})")
    return out


def main(tier: str) -> int:
    L.quiet_import()
    run = C.Run(PID, tier)
    try:
        tree = L.StatsTree().prepare()
    except Exception as exc:  # noqa
        run.violation("translated-model-not-buildable", f"the model could not be regenerated from the source: {type(exc).__name__}: {exc}",
                      {"unchecked": "coq/Stats/GenAgree.v"}, found_input=False)
        return run.finish()
    proofs_ok = L.check_proofs(run, tree, TARGETS, extra_tb=[
        "statistics.NormalDist.inv_cdf is external: a section variable in the theorems (contract: defined on (0,1)), "
        "an oracle table recorded from the same run in the correspondence check",
        "math.sqrt over the rationals is an uninterpreted function the theorems quantify over (sqrt-containing getters are "
        "stated structurally); in the correspondence check it is the binary64 square root",
        "Coq primitive floats and CPython floats round + - * / sqrt identically (re-validated by every bit-exact correspondence run)",
        "exact-arithmetic theorems: the rounding error of the streaming recurrences is measured by the Fraction oracle, not bounded by a theorem",
        "int observations beyond 2^53 (where Tally keeps the exact int in min/max) are not generated",
    ])
    run.assumptions = ["math.sqrt respects equality and is positive on positive arguments (contract on the uninterpreted sqrt of the exact-arithmetic theorems)", "NormalDist.inv_cdf answers on the open unit interval (theorems) / is the table recorded from this run (tie)", "Coq primitive floats and CPython floats agree bit for bit on + - * / sqrt and comparisons", "observations are floats or ints of magnitude <= 2^53 (or rejected inputs)", "translated model: self.m() / super().m() resolve statically within the four base classes; float / and math.sqrt raise exactly on a zero divisor / negative argument; int -> float conversion of counters does not overflow (translator/py2gallina_stats.py)"]
    C.use_repo_sources()
    rng = random.Random(run.seed * 104729 + 9)
    quick = tier == "quick"
    n_tally = 1400 if quick else 16000
    n_counter = 300 if quick else 2000
    longs = [200, 500, 1000, 2000] if quick else [500, 1000, 2000, 3000, 5000] * 6
    cases = []
    corpus = C.VERIF / "corpus" / "C09.json"
    if corpus.exists():
        cases += json.loads(corpus.read_text())
    n_corpus = len(cases)
    for i in range(n_tally):
        cases.append(gen_tally_case(rng, i))
    for i, ln in enumerate(longs):
        cases.append(gen_tally_case(rng, i, long_n=ln))
    for i in range(n_counter):
        cases.append(gen_counter_case(rng, i))

    results = []
    found = {}            # signature -> (case, violation)
    nontrivial = set()
    ops_hist = {"register": 0, "notify": 0, "initialize": 0, "rejected": 0}
    kinds_hist = {}
    fam_hist = {}
    snaps = 0
    for case in cases:
        try:
            steps = run_case(case)
        except Exception as exc:  # noqa
            run.violation("harness-cannot-run-implementation",
                          f"running a case on the implementation failed: {type(exc).__name__}: {exc}",
                          {"case": strip(case)}, found_input=False)
            return run.finish()
        bad, nontriv = oracle(case, steps)
        if bad and bad[0] not in found and len(found) < 8:
            found[bad[0]] = (case, bad)
        if nontriv:
            nontrivial.add(json.dumps([case["cls"], case["subs"], case["ops"]], sort_keys=True))
        for op, rec in zip(case["ops"], steps):
            ops_hist["initialize" if op["op"] == "init" else ("notify" if op["op"] in ("notify", "foreign") else "register")] += 1
            if op["op"] == "foreign":
                ops_hist["notify_with_same_named_foreign_event_type"] = ops_hist.get("notify_with_same_named_foreign_event_type", 0) + 1
            if rec["kind"] != "ok":
                ops_hist["rejected"] += 1
                kinds_hist[rec["kind"]] = kinds_hist.get(rec["kind"], 0) + 1
            if case["kind"] == "tally" and rec["snap"] is not None:
                snaps += 1
        if case["kind"] == "tally":
            fam_hist[case.get("family", "corpus")] = fam_hist.get(case.get("family", "corpus"), 0) + 1
        for rec in steps:
            rec.pop("self", None)
        results.append(steps)

    run.cov["evaluations"] = len(cases)
    run.cov["distinct_nontrivial"] = len(nontrivial)
    run.cov["rule"] = (
        "random operation sequences on Tally / EventBasedTally (no, one, all subscribers; register and notify) and Counter / "
        "EventBasedCounter: observations from the families small ints, dyadic, uniform, mixed magnitude 1e-12..1e12, large offset + "
        "small spread, all equal, two-level, few-ulp spread, tiny (variance underflows), extreme (1e80..1e150), lengths 0..34 plus long "
        f"runs of {sorted(set(longs))} observations, interleaved with initialize and rejected inputs (NaN, str, None, huge int, notifications whose event type is a different EventType named DATA_EVENT; +-inf as "
        "accepted non-finite input). Getters compared after every call or after a sample of calls. non-trivial = distinct case in "
        "which at some compared point >= 4 observations with non-zero variance were registered since the last initialize, the data "
        "is in the regular regime (|x| <= 1e60, spread >= 1e-6 of the magnitude) and every statistic incl. the unbiased kurtosis was "
        "checked against the exact rational value; counters: >= 3 increments")
    run.cov["op_histogram"] = ops_hist
    run.cov["rejection_kinds"] = kinds_hist
    run.cov["family_histogram"] = fam_hist
    run.cov["getter_snapshots_compared"] = snaps
    for case, steps in list(zip(cases, results))[n_corpus:n_corpus + 400:199]:
        run.add_sample({"class": case["cls"], "subscribers": case["subs"], "calls": describe_ops(case)[:12],
                        "last_snapshot": {k: (v if k in ("n", "ci") else v[1]) for k, v in (steps[-1]["snap"] or {}).items()}
                        if case["kind"] == "tally" else steps[-1]["snap"]})

    # ---- the regenerated model no longer equals the proved one: look harder for a concrete failing input
    tie = tree.broken_for(PID)
    if tie and not found:
        rng2 = random.Random(run.seed * 7919 + 909)
        extra = [gen_tally_case(rng2, i) for i in range(n_tally)] + \
                [gen_tally_case(rng2, i, long_n=ln) for i, ln in enumerate(longs[:2])] + \
                [gen_counter_case(rng2, i) for i in range(n_counter)]
        tried = 0
        for case in extra:
            tried += 1
            try:
                steps = run_case(case)
            except Exception:  # noqa
                continue
            bad, _ = oracle(case, steps)
            if bad:
                found[bad[0]] = (case, bad)
                break
        run.cov["extra_cases_searched_after_broken_tie"] = tried
    if tie:
        run.cov["source_translation"]["tie"] = {"status": "broken", **{k: v for k, v in tie.items() if k != "failures"}}
    else:
        run.cov["source_translation"]["tie"] = {"status": "checked"}

    for sig, (case, bad) in found.items():
        small = shrink_case(case, sig)
        b, _ = oracle(small, run_case(small))
        what = (b or bad)[1]
        run.violation(sig, what, {"class": small["cls"], "subscribers": small["subs"], "calls": describe_ops(small),
                                  "case": strip(small),
                                  "how": "replay the calls on pydsol.core.statistics.<class>; with case.init_listener a listener of StatEvents.INITIALIZED_EVENT "
                                         "(added after the other subscribers) reads all getters of event.content inside notify and, in mode "
                                         "'register', calls event.content.register(seed of that initialize); 'notify' delivers the value as "
                                         "Event(StatEvents.DATA_EVENT, value); alphas of the case are passed to confidence_interval"})

    # ---- model vs implementation inside coqc
    d = C.scratch_dir(PID)
    tally_idx = [i for i, c in enumerate(cases) if c["kind"] == "tally"]
    counter_idx = [i for i, c in enumerate(cases) if c["kind"] == "counter"]
    tabdef = icdf_table(cases)
    files, owners = [], []
    unrep = []

    def shards(idx, size_budget):
        cur, cost = [], 0
        for i in idx:
            w = sum(3 if r["snap"] is None else 40 for r in results[i]) if cases[i]["kind"] == "tally" else len(results[i])
            if cur and cost + w > size_budget:
                yield cur
                cur, cost = [], 0
            cur.append(i)
            cost += w
        if cur:
            yield cur

    for k, grp in enumerate(shards(tally_idx, 40000)):
        lits, own = [], []
        for i in grp:
            lit = c_tally_case(cases[i], results[i])
            if lit is None:
                unrep.append(i)
            else:
                lits.append(lit)
                own.append(i)
        f = d / f"cases_c09_t{k}.v"
        emit_tally(f, tabdef, lits)
        files.append(f)
        owners.append(own)
    for k, grp in enumerate(shards(counter_idx, 20000)):
        lits, own = [], []
        for i in grp:
            lit = c_counter_case(cases[i], results[i])
            if lit is None:
                unrep.append(i)
            else:
                lits.append(lit)
                own.append(i)
        f = d / f"cases_c09_c{k}.v"
        emit_counter(f, lits)
        files.append(f)
        owners.append(own)
    outs = C.coqc_many(files)
    mism = list(unrep)
    for fi, (rc, out) in enumerate(outs):
        lst = C.parse_nat_list(out)
        if rc != 0 or lst is None:
            run.violation("correspondence-not-evaluable",
                          "coqc could not evaluate the C09 correspondence (Stats.Tally.tcase_ok / ccase_ok): " + out[-600:],
                          {"file": str(files[fi])}, found_input=False)
            return run.finish()
        mism += [owners[fi][j] for j in lst]
    run.cov["traces_validated_against_impl"] = len(cases) - len(mism)
    run.cov["model_impl_mismatches"] = len(mism)
    if mism and not found:
        i = mism[0]
        case = cases[i]
        diag = ""
        if case["kind"] == "tally" and i not in unrep:
            diag = L.coq_eval(PID, HEADER + [tabdef],
                              f"Definition c : list tcase_step := {c_tally_case(case, results[i])}.\n"
                              "Eval vm_compute in (tcase_diag (icdf_domain NumF (tab_lookup tab)) 0%nat (tinit NumF) c).")
        run.violation("model-impl-disagree",
                      "correspondence Stats.Tally.tcase_ok / ccase_ok (bit-exact binary64 model of register and all getters) no longer "
                      "matches the implementation, but the exact-arithmetic oracle found no violated clause",
                      {"class": case["cls"], "subscribers": case["subs"], "calls": describe_ops(case)[:60], "case": strip(case) if len(case["ops"]) < 200 else "long case (regenerate with the seed)",
                       "first_difference (step, getter index in Stats.Tally.tsnap_checks; 99 = how the call ended)": diag,
                       "relation": "Stats.Tally.tcase_ok"},
                      found_input=False)
    if tie and not found:
        L.report_broken_tie(run, tree, {"model_impl_mismatching_cases": len(mism)})
    if not proofs_ok and not run.violations:
        run.violation("proof-broken", "a C09 proof obligation no longer checks: " + getattr(run, "proof_log", "")[-800:],
                      {"theorems": run.cov.get("theorems")}, found_input=False)
    return run.finish()


if __name__ == "__main__":
    sys.exit(main(sys.argv[1] if len(sys.argv) > 1 else "quick"))
