"""Implementation-side numerical oracle for C15 (runs in a fresh interpreter on the
sources under VERIF_REPO).  Everything here looks only at what the real classes
return - it knows nothing of the Coq model.

stdin : {"mode": "num", "cases": [{"cls", "params"}...]}      deterministic clause checks
      | {"mode": "stats", "cases": [{"cls", "params", "seed", "n"}...]}   seeded sample vs declared density
stdout: JSON
"""
import json
import math
import signal
import sys

import pydsol.core.distributions as D
from pydsol.core.streams import MersenneTwister

INF = math.inf
CASE_TIMEOUT = 20.0


class CaseTimeout(BaseException):
    pass


def _alarm(signum, frame):
    raise CaseTimeout()


signal.signal(signal.SIGALRM, _alarm)


def decode_param(p):
    if p[0] == "f":
        return float.fromhex(p[1])
    return int(p[1])


def make(case, seed=1):
    return getattr(D, case["cls"])(MersenneTwister(seed), *[decode_param(p) for p in case["params"]])


# ------------------------------------------------------------------ quadrature
_TS = None


def _ts_nodes():
    """tanh-sinh nodes / weights on (-1, 1); 1 - |x| is returned separately so that
    endpoint singularities are sampled without cancellation."""
    global _TS
    if _TS is None:
        h = 1.0 / 32
        pts = []
        k = 0
        while True:
            t = k * h
            s = 0.5 * math.pi * math.sinh(t)
            if s > 700:
                break
            c = math.cosh(s)
            w = 0.5 * math.pi * math.cosh(t) / (c * c)
            one_minus = math.exp(-s) / c          # 1 - tanh(s)
            if w < 1e-300 or one_minus < 1e-300:
                break
            pts.append((one_minus, w * h))
            k += 1
        _TS = pts
    return _TS


def tanh_sinh(f, a, b):
    """integral of f over the finite interval [a, b]; f may be singular at the ends"""
    half = 0.5 * (b - a)
    total = 0.0
    for i, (om, w) in enumerate(_ts_nodes()):
        d = half * om                              # distance from the end point
        if i == 0:
            total += w * f(0.5 * (a + b))
            continue
        xl, xr = a + d, b - d
        if a < xl < b:
            total += w * f(xl)
        if a < xr < b:
            total += w * f(xr)
    return total * half


def integrate(f, a, b):
    """integral over [a, b], b may be inf, a may be -inf"""
    if a == -INF and b == INF:
        return integrate(f, -INF, 0.0) + integrate(f, 0.0, INF)
    if a == -INF:
        return integrate(lambda x: f(-x), -b, INF)
    if b == INF:
        # x = a + t / (1 - t), t in (0, 1); the nodes are given by their distance d from t = 0 resp. t = 1,
        # so that the far tail x ~ 1/d is reached without cancellation
        total = 0.0
        for i, (om, w) in enumerate(_ts_nodes()):
            d = 0.5 * om
            if i == 0:
                total += w * f(a + 1.0) * 4.0
                continue
            total += w * f(a + d / (1.0 - d)) / ((1.0 - d) * (1.0 - d))
            if d * d > 1e-300:
                total += w * f(a + (1.0 - d) / d) / (d * d)
        return total * 0.5
    return tanh_sinh(f, a, b)


_GL = None


def gauss_legendre(f, a, b):
    global _GL
    if _GL is None:
        # 10-point Gauss-Legendre
        xs = [0.1488743389816312, 0.4333953941292472, 0.6794095682990244, 0.8650633666889845, 0.9739065285171717]
        ws = [0.2955242247147529, 0.2692667193099963, 0.2190863625159820, 0.1494513491505806, 0.0666713443086881]
        _GL = list(zip(xs, ws))
    m, h = 0.5 * (a + b), 0.5 * (b - a)
    s = 0.0
    for x, w in _GL:
        s += w * (f(m + h * x) + f(m - h * x))
    return s * h


# ------------------------------------------------------------------ supports
def support(case, obj):
    c = case["cls"]
    ps = [decode_param(p) for p in case["params"]]
    if c == "DistBeta":
        return 0.0, 1.0
    if c in ("DistErlang", "DistExponential", "DistGamma", "DistLogNormal", "DistPearson5", "DistPearson6", "DistWeibull"):
        return 0.0, INF
    if c == "DistNormal":
        return -INF, INF
    if c == "DistNormalTrunc":
        return float(ps[2]), float(ps[3])
    if c == "DistTriangular":
        return float(ps[0]), float(ps[2])
    if c == "DistUniform":
        return float(ps[0]), float(ps[1])
    return None


def breakpoints(case):
    """interior points where the density is not smooth (the quadrature is split there)"""
    c = case["cls"]
    ps = [decode_param(p) for p in case["params"]]
    if c == "DistTriangular":
        return [float(ps[1])]
    if c in ("DistNormal", "DistNormalTrunc"):
        return [float(ps[0])]
    if c == "DistLogNormal":
        return [math.exp(float(ps[0]))]
    # a narrow peak far from 0: split at the mode so that the nodes gather there
    if c == "DistErlang" and ps[1] > 1:
        return [float(ps[0]) * (ps[1] - 1)]
    if c == "DistGamma" and float(ps[0]) > 1:
        return [float(ps[1]) * (float(ps[0]) - 1.0)]
    return []


DISCRETE = {"DistBernoulli", "DistBinomial", "DistDiscreteUniform", "DistGeometric", "DistNegBinomial", "DistPoisson"}
HAS_CDF = {"DistNormal", "DistLogNormal", "DistNormalTrunc"}


def pieces(lo, hi, brk):
    pts = [lo] + sorted(b for b in brk if lo < b < hi) + [hi]
    return list(zip(pts, pts[1:]))


def guarded(f, lo, hi, far=1e12):
    """the density for the quadrature: an arithmetic exception (or NaN) closer than 1e-20 (relative) to a finite end
    of the support, or further than [far] out in an infinite tail - where the tanh-sinh nodes go and intermediate
    powers over/underflow - counts as 0 there: the property does not quantify over such arguments.  The calls oracle
    of harness/c15.py reports exceptions at ordinary arguments."""
    scale = max(abs(lo) if math.isfinite(lo) else 0.0, abs(hi) if math.isfinite(hi) else 0.0, 1.0)

    def near(x):
        return ((math.isfinite(lo) and abs(x - lo) < 1e-20 * scale) or (math.isfinite(hi) and abs(x - hi) < 1e-20 * scale)
                or abs(x) > far)

    def g(x):
        try:
            v = f(x)
        except (OverflowError, ZeroDivisionError, ValueError):
            if near(x):
                return 0.0
            raise
        if v != v and near(x):
            return 0.0
        return v
    return g


def total_mass(obj, case):
    lo, hi = support(case, obj)
    f = guarded(obj.probability_density, lo, hi, case.get("far", 1e12))
    return sum(integrate(f, a, b) for a, b in pieces(lo, hi, breakpoints(case)))


def discrete_range(case):
    c = case["cls"]
    ps = [decode_param(p) for p in case["params"]]
    if c == "DistBernoulli":
        return 0, 1
    if c == "DistBinomial":
        return 0, ps[0]
    if c == "DistDiscreteUniform":
        return ps[0], ps[1]
    return 0, None


def num_case(case):
    """Deterministic clause evaluations.  Returns a list of [kind, detail] findings."""
    out = {"findings": [], "mass": None, "timeout": False}
    fnd = out["findings"]
    signal.setitimer(signal.ITIMER_REAL, CASE_TIMEOUT)
    try:
        try:
            obj = make(case)
        except Exception as exc:  # noqa
            fnd.append(["ctor-raises", f"{type(exc).__name__}: {exc}"])
            return out
        c = case["cls"]
        if c in DISCRETE:
            lo, hi = discrete_range(case)
            total, k, tail, capped = 0.0, lo, 0, False
            while True:
                try:
                    p = obj.probability(k)
                except Exception as exc:  # noqa
                    fnd.append(["probability-raises", f"probability({k}) raised {type(exc).__name__}: {exc}"])
                    break
                if not (p >= 0.0) or math.isinf(p):
                    fnd.append(["probability-negative", f"probability({k}) = {p!r}"])
                    break
                if p > 1.0 + 1e-12:
                    fnd.append(["probability-above-one", f"probability({k}) = {p!r}"])
                    break
                total += p
                k += 1
                if hi is not None:
                    if k > hi:
                        break
                else:
                    tail = tail + 1 if p < 1e-18 * max(total, 1e-300) else 0
                    if tail >= 50 and total > 0.5:
                        break
                    if k > 200000:
                        capped = True          # a very long support: no verdict on the sum
                        break
            out["mass"] = total
            if not fnd and not capped and abs(total - 1.0) > 1e-9:
                fnd.append(["probabilities-do-not-sum-to-one", f"sum of probability(k) = {total!r}"])
            for kk in ([lo - 1, lo - 7] + ([hi + 1, hi + 5] if hi is not None else [])):
                try:
                    p = obj.probability(kk)
                except Exception as exc:  # noqa
                    fnd.append(["probability-raises", f"probability({kk}) raised {type(exc).__name__}"])
                    continue
                if p != 0.0:
                    fnd.append(["probability-nonzero-outside-support", f"probability({kk}) = {p!r}"])
        elif c != "DistConstant":
            try:
                m = total_mass(obj, case)
            except CaseTimeout:
                raise
            except Exception as exc:  # noqa
                fnd.append(["density-raises", f"quadrature: {type(exc).__name__}: {exc}"])
                m = None
            out["mass"] = m
            tol = 1e-4
            if c == "DistBeta":
                b2 = float(decode_param(case["params"][1]))
                if b2 < 1.0:
                    tol += 3.0 * (2.0 ** -53) ** b2 / b2
            if m is not None and not abs(m - 1.0) <= tol:
                fnd.append(["density-does-not-integrate-to-one", f"quadrature of probability_density over the support = {m!r}"])
        if c in HAS_CDF:
            cdf_checks(obj, case, fnd)
    except CaseTimeout:
        out["timeout"] = True
    finally:
        signal.setitimer(signal.ITIMER_REAL, 0)
    return out


def cdf_checks(obj, case, fnd):
    c = case["cls"]
    ps = [float(decode_param(p)) for p in case["params"]]
    mu, sigma = ps[0], ps[1]
    if c == "DistLogNormal":
        grid = [math.exp(mu + sigma * z) for z in [-8 + 0.25 * i for i in range(65)]]
    elif c == "DistNormalTrunc":
        lo, hi = max(ps[2], mu - 8 * sigma), min(ps[3], mu + 8 * sigma)
        grid = [lo + (hi - lo) * i / 64 for i in range(65)]
    else:
        grid = [mu + sigma * z for z in [-8 + 0.25 * i for i in range(65)]]
    F = obj.cumulative_probability
    f = obj.probability_density
    G = obj.inverse_cumulative_probability
    vals = []
    for x in grid:
        try:
            vals.append(F(x))
        except Exception as exc:  # noqa
            fnd.append(["cdf-raises", f"cumulative_probability({x!r}) raised {type(exc).__name__}"])
            return
    for (x1, v1), (x2, v2) in zip(zip(grid, vals), zip(grid[1:], vals[1:])):
        if not (0.0 <= v1 <= 1.0):
            fnd.append(["cdf-outside-unit-interval", f"cumulative_probability({x1!r}) = {v1!r}"])
            return
        if v2 < v1 - 1e-15:
            fnd.append(["cdf-not-monotone", f"cumulative_probability({x1!r}) = {v1!r} > cumulative_probability({x2!r}) = {v2!r}"])
            return
    if vals[0] > 1e-6 or vals[-1] < 1 - 1e-6:
        fnd.append(["cdf-limits", f"cumulative_probability at the ends of the grid: {vals[0]!r}, {vals[-1]!r}"])
    # consistent with the density: increments of the cdf equal the integral of the density
    for x1, x2, v1, v2 in list(zip(grid, grid[1:], vals, vals[1:]))[8:-8:4]:
        try:
            inc = gauss_legendre(f, x1, x2)
        except Exception as exc:  # noqa
            fnd.append(["density-raises", f"probability_density raised {type(exc).__name__} in [{x1!r}, {x2!r}]"])
            return
        if abs((v2 - v1) - inc) > 1e-7 * max(inc, 1e-12) + 1e-12:
            fnd.append(["cdf-inconsistent-with-density", f"cdf({x2!r}) - cdf({x1!r}) = {v2 - v1!r} but the density integrates to {inc!r} there"])
            return
    # inverse: round trips and monotonicity, to the documented accuracy of erf_inv (4.5e-8 relative on x)
    # ... over the whole unit interval, the far tails included (probabilities within 1e-9 .. 1e-16 of 0 and 1).
    # erf_inv gives up beyond |2y - 1| > 1 - 1e-9 and returns +-inf there: an infinite result (0.0 / inf for the
    # log-normal) is accepted for y below 1e-9 or above 1 - 1e-9; a finite one must map back to y.
    ys = [1e-16, 1e-15, 1e-13, 1e-10, 6e-10, 1e-9, 3e-9, 1e-6, 1e-3, 0.01, 0.1, 0.125, 0.2, 0.3, 0.4, 0.5, 0.6, 0.7, 0.8, 0.875,
          0.9, 0.96875, 0.99, 0.999, 1 - 1e-6, 1 - 3e-9, 1 - 1e-9, 1 - 6e-10, 1 - 1e-10, 1 - 1e-13, 1 - 2.0 ** -53]
    # erf_inv: documented relative error 4.5e-8 on x; for a truncated normal the resulting error in the probability
    # is divided by the mass of the interval
    amp, plo, mass = 1.0, 0.0, 1.0
    if c == "DistNormalTrunc":
        plo = 0.5 + 0.5 * math.erf((ps[2] - mu) / (math.sqrt(2.0) * sigma))
        mass = 0.5 * (math.erf((ps[3] - mu) / (math.sqrt(2.0) * sigma)) - math.erf((ps[2] - mu) / (math.sqrt(2.0) * sigma)))
        amp = max(1.0, 1.0 / max(mass, 1e-6))
    abs_tol = 2e-7 * amp if c == "DistNormalTrunc" else 1e-12
    prev = None
    for y in ys:
        try:
            x = G(y)
        except Exception as exc:  # noqa
            fnd.append(["inverse-cdf-raises", f"inverse_cumulative_probability({y!r}) raised {type(exc).__name__}: {exc}"])
            return
        if x != x:
            fnd.append(["inverse-cdf-not-a-number", f"inverse_cumulative_probability({y!r}) = nan"])
            return
        gave_up = math.isinf(x) or (c == "DistLogNormal" and x == 0.0)
        a = plo + y * mass            # the probability erf_inv is asked for (of the normal that is not truncated)
        if gave_up and 1e-9 <= a <= 1 - 1e-9:
            fnd.append(["cdf-inverse-cdf-not-inverse", f"inverse_cumulative_probability({y!r}) = {x!r}"])
            return
        if not gave_up:
            try:
                y2 = F(x)
            except Exception as exc:  # noqa
                fnd.append(["cdf-raises", f"cumulative_probability({x!r}) raised {type(exc).__name__}"])
                return
            if abs(y2 - y) > 5e-6 * min(y, 1 - y) + abs_tol:
                fnd.append(["cdf-inverse-cdf-not-inverse",
                            f"cumulative_probability(inverse_cumulative_probability({y!r})) = {y2!r} (inverse = {x!r})"])
                return
        if prev is not None and x < prev[1] and not x >= prev[1] - 1e-7 * (1.0 + abs(prev[1])):
            fnd.append(["inverse-cdf-not-monotone", f"inverse_cumulative_probability({prev[0]!r}) = {prev[1]!r} > inverse_cumulative_probability({y!r}) = {x!r}"])
            return
        prev = (y, x)


# ------------------------------------------------------------------ seeded sample against the declared density
def stats_case(case):
    """distance between the empirical distribution of a seeded sample and the
    distribution the declared density / probability function defines"""
    out = {"distance": None, "detail": "", "timeout": False, "error": None}
    signal.setitimer(signal.ITIMER_REAL, CASE_TIMEOUT)
    try:
        obj = make(case, case.get("seed", 1))
        n = case.get("n", 20000)
        xs = []
        for _ in range(n):
            xs.append(obj.draw())
        c = case["cls"]
        if c in DISCRETE:
            # chi-square goodness of fit of the sample frequencies against the class's own probability(k) over the bulk
            # of the support (cells with an expected count >= 5, the two tails pooled), as a standard-normal score
            # (Wilson-Hilferty): a search statistic, never the verdict
            freq = {}
            for x in xs:
                freq[x] = freq.get(x, 0) + 1
            kmin, kmax = min(freq), max(freq)
            lo, hi = discrete_range(case)
            kk = list(range(max(lo, kmin - 50), (min(hi, kmax + 50) if hi is not None else kmax + 50) + 1))
            ps = [obj.probability(k) for k in kk]
            cells, eacc, oacc = [], 0.0, 0
            for k, p in zip(kk, ps):
                eacc += n * p
                oacc += freq.get(k, 0)
                if eacc >= 5.0:
                    cells.append([eacc, oacc]); eacc, oacc = 0.0, 0
            rest_e = max(0.0, n - sum(e for e, _ in cells))     # everything not covered above (both far tails)
            rest_o = n - sum(o for _, o in cells)
            if cells and rest_e < 5.0:
                cells[-1][0] += rest_e; cells[-1][1] += rest_o
            else:
                cells.append([rest_e, rest_o])
            chi2 = sum((o - e) ** 2 / e if e > 0 else (0.0 if o == 0 else float("inf")) for e, o in cells)
            dof = max(1, len(cells) - 1)
            z = ((chi2 / dof) ** (1.0 / 3.0) - (1.0 - 2.0 / (9.0 * dof))) / math.sqrt(2.0 / (9.0 * dof))
            out["distance"] = z
            out["kind"] = "chi2"
            out["detail"] = (f"chi-square = {chi2:.1f} on {dof} degrees of freedom (standard-normal score {z:.1f}) of the sample "
                             f"frequencies against probability(k) over k = {kk[0]}..{kk[-1]}, n = {n}")
        elif c == "DistConstant":
            out["distance"] = 0.0 if all(x == xs[0] for x in xs) else 1.0
        else:
            xs.sort()
            lo, hi = support(case, obj)
            f = guarded(obj.probability_density, lo, hi, case.get("far", 1e12))
            qs = [xs[(n * j) // 100] for j in range(1, 100)]
            brk = breakpoints(case)
            cum, prev, dist, worst = 0.0, None, 0.0, None
            for j, q in enumerate(qs, 1):
                if prev is None:
                    a = lo
                    cum = sum(integrate(f, aa, bb) for aa, bb in pieces(a, q, brk)) if q > a else 0.0
                else:
                    cum += sum(gauss_legendre(f, aa, bb) for aa, bb in pieces(prev, q, brk)) if q > prev else 0.0
                prev = q
                dd = abs(cum - j / 100.0)
                if dd > dist:
                    dist, worst = dd, (j, q, cum)
            out["distance"] = dist
            out["detail"] = (f"max |F(x_j) - j/100| over the sample percentiles, F = integral of probability_density, n = {n}; "
                             f"worst at percentile {worst[0] if worst else None}: x = {worst[1] if worst else None!r}, F = {worst[2] if worst else None!r}")
    except CaseTimeout:
        out["timeout"] = True
    except Exception as exc:  # noqa
        out["error"] = f"{type(exc).__name__}: {exc}"
    finally:
        signal.setitimer(signal.ITIMER_REAL, 0)
    return out


def main():
    req = json.load(sys.stdin)
    if req["mode"] == "num":
        json.dump([num_case(c) for c in req["cases"]], sys.stdout)
    elif req["mode"] == "stats":
        json.dump([stats_case(c) for c in req["cases"]], sys.stdout)
    else:
        raise SystemExit("unknown mode")


if __name__ == "__main__":
    main()
