"""Implementation-side driver for C06 / C07: several model programs taking turns
on one real DEVS simulator, with simulation statistics, seeded streams and
pub/sub fan-out built in construct_model.

Reads a JSON list of cases on stdin, prints a JSON list of observations.
Runs in a fresh interpreter (common.run_impl_json / c06.run_impl).

case = {"clock": "int"|"float"|"dur"|"durmin", "strategy": "log"|"warn"|"pause",
        "models": [model, ...],
        "cmds": [cmd, ...],            # ["init", start, warm, end, model_index] | ["start"] | ["step"] | ...
        "stop_at": [i, ...]            # optional: the handler of the i-th executed event of a replication calls stop()
        "initial": [[action, ...], ...],  # optional: initial methods registered with simulator.add_initial_method from
                                       # outside the model before the first initialize
        "twin_from": j,                # optional: also run cmds[j:] (cmds[j] an init) on a brand-new simulator and model
        "slow": {"stop": 0.3}}         # optional: slow subscribers to simulator notifications (seconds); an init command with a
                                       # 6th element "asap" is issued as soon as is_starting_or_running() turns False
model = {"prog": [[action, ...], ...],   # prog[0] = construct_model body, prog[h] = handler h
         "lst": [[action, ...], ...],    # body of user listener l (performed inside notify)
         "subs": [[et, l], ...],         # subscriptions made in construct_model, in this order
         "stats": [[key, kind, sid], ...],  # kind: counter | tally | persistent, listening to data stream sid
         "streams": [[name, seed], ...], "stream_mode": "new" | "setseed" | "updater",
         "updater": {"kind": "seed"|"simple", "seeds": {name: [seed of replication 0, 1, ...]}, "nr": replication number,
                     "container": "dict"|"si", "explicit_fallback": bool},
         "pre": [[time, prio, h, "early"|"late"], ...],   # SimEvent objects built before initialize (see build_early)
         "simlst": [[notification, [action, ...]], ...]}  # components built in construct_model that listen to the simulator
action = ["sched", mode, prio, h] | ["cancel", k] | ["fail"] | ["cmd", cmd] | ["obs", sid, v]
       | ["obsd", sid, stream, lo, hi] | ["obsf", sid, stream] | ["fire", et] | ["sub", et, l] | ["unsub", et, l]
       | ["schedpre", j]               # simulator.schedule_event(pre-built event j), at most once per replication
mode   = ["now"] | ["rel", d] | ["abs", t] | ["reld", stream, lo, hi, mult]
Times are integers in quarter time units ("nan" for not-a-number).
"""
import io
import json
import logging
import math
import sys
import threading
import time

QUIET = {"NOT_INITIALIZED", "INITIALIZED", "STOPPED", "ENDED"}
LISTS = ("trace", "outs", "ntfs", "obs", "canc", "dlv", "slv", "draws", "log")
SKIP_GETTERS = {"add_listener", "fire", "fire_event", "fire_timed", "fire_timed_event", "initialize", "listen_to",
                "notify", "register", "remove_all_listeners", "remove_listener", "report_footer", "report_header",
                "end_observations"}


def main():
    cases = json.load(sys.stdin)
    real_out = sys.stdout
    sys.stdout = io.StringIO()
    sys.stderr = io.StringIO()
    logging.disable(logging.CRITICAL)
    res = []
    for idx, case in enumerate(cases):
        sys.stdout.seek(0); sys.stdout.truncate(0)
        sys.stderr.seek(0); sys.stderr.truncate(0)
        res.append(run_both(case, f"v6s{idx}"))
    real_out.write(json.dumps(res))
    real_out.flush()
    # a worker thread the implementation failed to end (threads are not daemons) must not keep the driver alive
    import os
    os._exit(0)


def run_both(case, name):
    try:
        out = run_case(case, name)
    except Exception as exc:  # harness-level failure
        import traceback
        return {"error": f"{type(exc).__name__}: {exc}", "tb": traceback.format_exc()[-1500:]}
    j = case.get("twin_from")
    if j is not None:
        c = case["cmds"][j]
        mi = c[4] if len(c) > 4 else 0
        twin = {"clock": case["clock"], "strategy": case["strategy"], "models": [case["models"][mi]],
                "cmds": [[c[0], c[1], c[2], c[3], 0]] + [list(x) for x in case["cmds"][j + 1:]],
                "stop_at": case.get("stop_at_twin", case.get("stop_at")), "slow": case.get("slow"),
                "initial": case.get("initial")}
        if any(x[0] == "init" and (x[4] if len(x) > 4 else 0) != mi for x in case["cmds"][j + 1:]):
            twin["models"] = case["models"]
            twin["cmds"][0][4] = mi
            twin["cmds"][1:] = [list(x) for x in case["cmds"][j + 1:]]
        twin["cmds"] = [[y for y in x if y not in ("fromend", "asap")] for x in twin["cmds"]]
        try:
            out["twin"] = run_case(twin, name + "t")
        except Exception as exc:
            import traceback
            out["twin"] = {"error": f"{type(exc).__name__}: {exc}", "tb": traceback.format_exc()[-1500:]}
    return out


def all_getters(o):
    """every public getter of a statistic, floats bit-exact"""
    import inspect

    def canon(v):
        if isinstance(v, float):
            return v.hex()
        if isinstance(v, tuple):
            return [canon(x) for x in v]
        if isinstance(v, (int, str, bool)) or v is None:
            return v
        return "obj:" + type(v).__name__
    res = {}
    for nm in sorted(dir(o)):
        if nm.startswith("_") or nm in SKIP_GETTERS:
            continue
        try:
            m = getattr(o, nm)
        except Exception as exc:  # noqa
            res[nm] = "exc:" + type(exc).__name__
            continue
        if not callable(m):
            if nm in ("key", "name"):
                res[nm] = canon(m)
            continue
        try:
            params = [p for p in inspect.signature(m).parameters.values()]
        except (TypeError, ValueError):
            continue
        variants = [((), "")]
        if len(params) == 1 and params[0].name == "biased":
            variants = [((True,), ":biased"), ((False,), ":unbiased")]
        elif len(params) == 1 and params[0].name == "alpha":
            variants = [((0.05,), ":0.05"), ((0.5,), ":0.5")]
        elif len(params) != 0:
            continue
        for args, suffix in variants:
            try:
                res[nm + suffix] = canon(m(*args))
            except Exception as exc:  # noqa
                res[nm + suffix] = "exc:" + type(exc).__name__
    return res


def make_to_time(ck):
    from pydsol.core.units import Duration

    def to_time(q):
        if q == "nan":
            return Duration(float("nan")) if ck in ("dur", "durmin") else float("nan")
        if ck == "int":
            assert q % 4 == 0, q
            return q // 4
        if ck == "float":
            return q / 4.0
        if ck == "dur":
            return Duration(q / 4.0, "s")
        if ck == "durmin":
            return Duration(float(q // 240), "min") if q % 240 == 0 else Duration(q / 4.0, "s")
        raise ValueError(ck)
    return to_time


class Forwarder:
    """target of SimEvent objects that are built before the model object exists"""
    model = None

    def handle(self, **kw):
        self.model.handle(**kw)


def build_early(case):
    """SimEvent objects of model 0 marked "early": built by the caller before anything else happens in the process"""
    from pydsol.core.simevent import SimEvent
    to_time = make_to_time(case["clock"])
    fwd = Forwarder()
    evs = {}
    for j, pe in enumerate(case["models"][0].get("pre", [])):
        if len(pe) > 3 and pe[3] == "early":
            evs[j] = SimEvent(to_time(pe[0]), fwd, "handle", pe[1], h=pe[2], k=None, pre=j)
    return {"fwd": fwd, "events": evs}


def run_case(case, name, early=None):
    from pydsol.core.experiment import SingleReplication
    from pydsol.core.interfaces import SimulatorInterface, ReplicationInterface
    from pydsol.core.model import DSOLModel
    from pydsol.core.pubsub import EventListener, EventProducer, EventType
    from pydsol.core.simulator import (DEVSSimulatorFloat, DEVSSimulatorInt, DEVSSimulatorDuration,
                                       ErrorStrategy)
    from pydsol.core.streams import MersenneTwister, StreamInformation, StreamSeedUpdater, SimpleStreamUpdater
    from pydsol.core.simevent import SimEvent
    from pydsol.core import statistics as S
    from pydsol.core.units import Duration
    from pydsol.core.utils import DSOLError

    ck = case["clock"]
    to_time = make_to_time(ck)

    def to_q(t):
        x = float(t) * 4
        if x != x or math.isinf(x) or x != int(x):
            return ["nonint", repr(t)]
        return int(x)

    if ck == "int":
        sim = DEVSSimulatorInt(name)
    elif ck == "float":
        sim = DEVSSimulatorFloat(name)
    elif ck == "dur":
        sim = DEVSSimulatorDuration(name)
    else:
        sim = DEVSSimulatorDuration(name, "min")
    sim.set_error_strategy({"log": ErrorStrategy.LOG_AND_CONTINUE, "warn": ErrorStrategy.WARN_AND_CONTINUE,
                            "pause": ErrorStrategy.WARN_AND_PAUSE}[case["strategy"]])

    rec = {k: [] for k in LISTS}
    rec.update({"snaps": [], "notes": [], "marks": [], "pre_init": [], "late_ntfs": [], "racy_snaps": []})
    stop_at = set(case.get("stop_at") or [])
    state = {"exec_in_repl": 0, "serial": 0, "old_threads": set(), "in_init": False, "issuing": set(), "current": None}
    fromend = {"cmds": None, "done": threading.Event(), "results": []}

    NT = [(ReplicationInterface.START_REPLICATION_EVENT, "startrepl"),
          (SimulatorInterface.STARTING_EVENT, "starting"),
          (SimulatorInterface.START_EVENT, "start"),
          (SimulatorInterface.TIME_CHANGED_EVENT, "time"),
          (ReplicationInterface.WARMUP_EVENT, "warmup"),
          (SimulatorInterface.STOPPING_EVENT, "stopping"),
          (SimulatorInterface.STOP_EVENT, "stop"),
          (ReplicationInterface.END_REPLICATION_EVENT, "endrepl")]
    names = {id(et): nm for et, nm in NT}
    n_uet = 1 + max([a[1] for m in case["models"] for body in m["prog"] + m.get("lst", []) for a in body
                     if a[0] in ("fire", "sub", "unsub")] + [s[0] for m in case["models"] for s in m.get("subs", [])]
                    + [-1])
    n_det = 1 + max([a[1] for m in case["models"] for body in m["prog"] + m.get("lst", []) for a in body
                     if a[0] in ("obs", "obsd", "obsf")] + [s[2] for m in case["models"] for s in m.get("stats", [])]
                    + [-1])
    UET = [EventType(f"VU_{name}_{i}") for i in range(n_uet)]
    DET = [EventType(f"VD_{name}_{i}") for i in range(n_det)]

    class Collector(EventListener):
        def notify(self, event):
            nm = names.get(id(event.event_type), "other")
            ts = getattr(event, "timestamp", None)
            if threading.current_thread() in state["old_threads"] and threading.current_thread() not in state["issuing"]:
                # fired by the run thread of a replication that was re-initialised away
                if state["in_init"]:
                    rec["log"].append(["ntf-from-old-thread-during-initialize", nm])
                else:
                    rec["late_ntfs"].append([nm, None if ts is None else to_q(ts)])
                return
            rec["ntfs"].append([nm, None if ts is None else to_q(ts)])
            rec["log"].append(["ntf", nm, None if ts is None else to_q(ts)])

    coll = Collector()
    slow = case.get("slow") or {}

    class SlowListener(EventListener):
        """a subscriber that takes its time (a GUI, a logger): subscribed AFTER the collector"""
        def __init__(self, d):
            self.d = d

        def notify(self, event):
            time.sleep(self.d)

    slow_listeners = {k: SlowListener(d) for k, d in slow.items()}

    class EndDriver(EventListener):
        """what an experiment driver does: when a replication has ended, initialise (and start) the next one from
        inside the END_REPLICATION notification, subscribing its listeners again"""
        def notify(self, event):
            if fromend["cmds"] is None:
                return
            todo, fromend["cmds"] = fromend["cmds"], None
            for ci, c in todo:
                if c[0] == "init":
                    ctx = begin_init(ci)
                    r = issue(c)
                    finish_init(ctx, r, c)
                    subscribe()
                    wait_quiet()
                    fromend["results"].append((r, snapshot()))
                else:
                    fromend["results"].append((issue(c), None))       # returns at once, like a driver
            fromend["done"].set()

    end_driver = EndDriver()

    def subscribe():
        for et, _ in NT:
            sim.add_listener(et, coll)
        for et, nm in NT:
            if nm in slow_listeners:
                sim.add_listener(et, slow_listeners[nm])
        if any(is_fromend(c) for c in case["cmds"]):
            sim.add_listener(ReplicationInterface.END_REPLICATION_EVENT, end_driver)

    def is_fromend(c):
        return c[-1] == "fromend"

    def snapshot():
        return [sim.run_state.name, sim.replication_state.name, to_q(sim.simulator_time), sim.eventlist().size()]

    def rec_class(base):
        class Rec(base):
            def notify(self, event):
                et = event.event_type
                if et is ReplicationInterface.WARMUP_EVENT:
                    self.fed.append(["warm", to_q(event.timestamp)])
                elif et is ReplicationInterface.END_REPLICATION_EVENT:
                    self.fed.append(["end", to_q(event.timestamp)])
                else:
                    c = event.content
                    self.fed.append(["v", c.hex() if isinstance(c, float) else c, to_q(sim.simulator_time)])
                super().notify(event)
        return Rec
    KIND = {"counter": rec_class(S.SimCounter), "tally": rec_class(S.SimTally),
            "persistent": rec_class(S.SimPersistent)}

    def issue(c):
        """issue a command; returns 'ok' | 'refused' | 'exc:<Type>'"""
        me = threading.current_thread()
        state["issuing"].add(me)
        try:
            return issue_(c)
        finally:
            state["issuing"].discard(me)

    def issue_(c):
        try:
            k = c[0]
            if k == "init":
                st, wm, en = c[1], c[2], c[3]
                mi = c[4] if len(c) > 4 else 0
                r = SingleReplication("rep", to_time(st), to_time(wm - st), to_time(en - st))
                sim.initialize(models[mi], r)
            elif k == "initbad":
                sim.initialize("not a model", SingleReplication("rep", to_time(0), to_time(0), to_time(40)))
            elif k == "start":
                sim.start()
            elif k == "step":
                sim.step()
            elif k == "stop":
                sim.stop()
            elif k == "runupto":
                sim.run_up_to(to_time(c[1]))
            elif k == "runuptoincl":
                sim.run_up_to_including(to_time(c[1]))
            elif k == "endrepl":
                sim.end_replication()
            elif k == "cleanup":
                sim.cleanup()
            else:
                raise ValueError(k)
            return "ok"
        except DSOLError:
            return "refused"
        except Exception as exc:  # noqa
            return "exc:" + type(exc).__name__

    SIMEV = {"startrepl": ReplicationInterface.START_REPLICATION_EVENT, "start": SimulatorInterface.START_EVENT,
             "time": SimulatorInterface.TIME_CHANGED_EVENT, "warmup": ReplicationInterface.WARMUP_EVENT,
             "stop": SimulatorInterface.STOP_EVENT, "endrepl": ReplicationInterface.END_REPLICATION_EVENT}

    class SimComponent(EventListener):
        """a model component built in construct_model that listens to the SIMULATOR (warm-up, time changes, starts)
        and reacts by drawing from the model's streams / scheduling events"""
        def __init__(self, model, idx, gen):
            self.model = model
            self.idx = idx
            self.gen = gen

        def notify(self, event):
            ent = [self.idx, self.model.spec["simlst"][self.idx][0], to_q(sim.simulator_time)]
            rec["slv"].append(ent)
            rec["log"].append(["slv"] + ent + [self.gen])
            self.model.interp(self.model.spec["simlst"][self.idx][1])

    class UserListener(EventListener):
        def __init__(self, model, l):
            self.model = model
            self.l = l

        def notify(self, event):
            et = UET.index(event.event_type)
            ent = [et, self.l, event.content, to_q(sim.simulator_time)]
            rec["dlv"].append(ent)
            rec["log"].append(["dlv"] + ent)
            self.model.interp(self.model.spec.get("lst", [])[self.l])

    class ProgModel(DSOLModel):
        def __init__(self, simulator, spec, mi):
            super().__init__(simulator)
            self.spec = spec
            self.mi = mi
            self.created = []
            self.stat_objs = {}
            self.all_stats = []            # every statistic object ever built by this model: (generation, object)
            self.generation = 0
            self.streams = {}
            # SimEvent objects built before initialize() and handed to schedule_event(event) later
            self.pre = {}
            self.pre_rank = {}
            self.pre_done = set()
            for j, pe in enumerate(spec.get("pre", [])):
                if early is not None and mi == 0 and j in early["events"]:
                    self.pre[j] = early["events"][j]
                else:
                    self.pre[j] = SimEvent(to_time(pe[0]), self, "handle", pe[1], h=pe[2], k=None, pre=j)
            if early is not None and mi == 0:
                early["fwd"].model = self
            if spec.get("stream_mode", "new") == "setseed":
                self.streams = {nm: MersenneTwister(sd) for nm, sd in spec.get("streams", [])}
            elif spec.get("stream_mode") == "updater":
                # the library's seed management: the streams live as long as the model (in a dict or a
                # StreamInformation), an updater sets their seeds for the replication number before each replication
                up = spec["updater"]
                objs = {nm: MersenneTwister(sd) for nm, sd in spec.get("streams", [])}
                if up.get("container") == "si":
                    si = StreamInformation(MersenneTwister(10))
                    for nm, o in objs.items():
                        si.add_stream(nm, o)
                    self.streams = si.get_streams()
                else:
                    self.streams = objs
                if up["kind"] == "simple":
                    self.updater = SimpleStreamUpdater()
                else:
                    self.updater = StreamSeedUpdater({k: list(v) for k, v in up.get("seeds", {}).items()})
                    if up.get("explicit_fallback"):
                        self.updater.set_fallback_stream_updater(SimpleStreamUpdater())

        def construct_model(self):
            spec = self.spec
            self.created = []
            self.generation += 1
            state["serial"] = 0
            self.pre_rank = {}
            self.pre_done = set()
            if spec.get("stream_mode", "new") == "setseed":
                for nm, sd in spec.get("streams", []):
                    self.streams[nm].set_seed(sd)
            elif spec.get("stream_mode") == "updater":
                self.updater.update_seeds(self.streams, spec["updater"]["nr"])
            else:
                self.streams = {nm: MersenneTwister(sd) for nm, sd in spec.get("streams", [])}
            # producers, listeners and statistics are built anew, as the documentation's examples do
            self.producer = EventProducer()
            self.listeners = [UserListener(self, l) for l in range(len(spec.get("lst", [])))]
            self.components = [SimComponent(self, ix, self.generation) for ix in range(len(spec.get("simlst", [])))]
            for ix, (ntf, _) in enumerate(spec.get("simlst", [])):
                sim.add_listener(SIMEV[ntf], self.components[ix])
            rec["log"].append(["newproducer"])
            for et, l in spec.get("subs", []):
                rec["log"].append(["sub", et, l])
                self.producer.add_listener(UET[et], self.listeners[l])
            self.stat_objs = {}
            self.sid_kind = {}
            for key, kind, sid in spec.get("stats", []):
                o = KIND[kind].__new__(KIND[kind])
                o.fed = []
                o.__init__(f"st{key}", f"stat {key}", sim, producer=self.producer, event_type=DET[sid])
                self.stat_objs[key] = o
                self.sid_kind.setdefault(sid, kind)
                self.all_stats.append((self.generation, key, kind, o))
            self.interp(spec["prog"][0])

        def handle(self, h, k, pre=None):
            if pre is not None:
                k = self.pre_rank.get(pre, -1 - pre)
            rec["trace"].append([k, to_q(sim.simulator_time)])
            rec["log"].append(["exec", k, to_q(sim.simulator_time)])
            i = state["exec_in_repl"]
            state["exec_in_repl"] += 1
            if i in stop_at:
                r = issue(["stop"])
                rec["log"].append(["stop_at", i, r])
            prog = self.spec["prog"]
            self.interp(prog[h] if h < len(prog) else [])

        def draw_int(self, stream, lo, hi):
            v = self.streams[stream].next_int(lo, hi)
            rec["draws"].append([stream, "int", v])
            return v

        def interp(self, body):
            for a in body:
                kind = a[0]
                if kind == "sched":
                    mode, prio, hh = a[1], a[2], a[3]
                    kw = {"h": hh, "k": len(self.created)}
                    size0 = sim.eventlist().size()
                    entry = ["sched", mode, to_q(sim.simulator_time), None, size0, None, None]
                    rec["log"].append(entry)
                    try:
                        if mode[0] == "now":
                            e = sim.schedule_event_now(self, "handle", prio, **kw)
                        elif mode[0] == "rel":
                            e = sim.schedule_event_rel(to_time(mode[1]), self, "handle", prio, **kw)
                        elif mode[0] == "reld":
                            d = mode[4] * self.draw_int(mode[1], mode[2], mode[3])
                            e = sim.schedule_event_rel(to_time(d), self, "handle", prio, **kw)
                        else:
                            e = sim.schedule_event_abs(to_time(mode[1]), self, "handle", prio, **kw)
                        self.created.append(e)
                        rec["outs"].append("acc")
                        entry[6] = [kw["k"], to_q(e.time), e.priority]
                    except DSOLError:
                        rec["outs"].append("ref")
                    except Exception as exc:  # noqa
                        rec["outs"].append("exc:" + type(exc).__name__)
                    entry[3] = rec["outs"][-1]
                    entry[5] = sim.eventlist().size()
                elif kind == "schedpre":
                    j = a[1]
                    if j in self.pre and j not in self.pre_done:      # each pre-built event at most once per replication
                        self.pre_done.add(j)
                        e = self.pre[j]
                        try:
                            sim.schedule_event(e)
                            self.pre_rank[j] = len(self.created)
                            self.created.append(e)
                            rec["outs"].append("acc")
                        except DSOLError:
                            rec["outs"].append("ref")
                        except Exception as exc:  # noqa
                            rec["outs"].append("exc:" + type(exc).__name__)
                        rec["log"].append(["schedpre", j, to_q(sim.simulator_time), rec["outs"][-1]])
                elif kind == "cancel":
                    if a[1] < len(self.created):
                        was = sim.eventlist().contains(self.created[a[1]])
                        sim.cancel_event(self.created[a[1]])
                        if was:
                            rec["canc"].append(a[1])
                        rec["log"].append(["cancel", a[1], bool(was), sim.eventlist().contains(self.created[a[1]])])
                elif kind == "fail":
                    raise RuntimeError("injected fault")
                elif kind == "cmd":
                    before = sim.run_state.name
                    r = issue(a[1])
                    rec["outs"].append({"ok": "cmdok", "refused": "cmdref"}.get(r, r))
                    rec["log"].append(["icmd", a[1], r, before])
                elif kind == "obs":
                    self.observe(a[1], a[2])
                elif kind == "obsd":
                    self.observe(a[1], self.draw_int(a[2], a[3], a[4]))
                elif kind == "obsf":
                    v = self.streams[a[2]].next_float()
                    rec["draws"].append([a[2], "float", v.hex()])
                    self.observe(a[1], v)
                elif kind == "fire":
                    ser = state["serial"]
                    state["serial"] += 1
                    rec["log"].append(["fire", a[1], ser])
                    self.producer.fire(UET[a[1]], ser)
                    rec["log"].append(["fired", a[1], ser])
                elif kind == "sub":
                    rec["log"].append(["sub", a[1], a[2]])
                    self.producer.add_listener(UET[a[1]], self.listeners[a[2]])
                elif kind == "unsub":
                    rec["log"].append(["unsub", a[1], a[2]])
                    self.producer.remove_listener(UET[a[1]], self.listeners[a[2]])
                else:
                    raise ValueError(kind)

        def observe(self, sid, v):
            rec["obs"].append([sid, v.hex() if isinstance(v, float) else v, to_q(sim.simulator_time)])
            kind = self.sid_kind.get(sid)
            if kind is None:
                return
            if kind == "counter":
                self.producer.fire(DET[sid], int(v))
            elif kind == "tally":
                self.producer.fire(DET[sid], float(v))
            else:
                self.producer.fire_timed(sim.simulator_time, DET[sid], float(v))

    models = [ProgModel(sim, spec, mi) for mi, spec in enumerate(case["models"])]
    subscribe()

    class External:
        """something outside the model that registered initial methods with the simulator before the first
        initialize: they are performed at the end of every initialize, for whichever model is initialised"""
        def run_initial(self, idx):
            rec["log"].append(["initial", idx, to_q(sim.simulator_time)])
            sim.model.interp(case["initial"][idx])

    ext = External()
    for idx in range(len(case.get("initial") or [])):
        sim.add_initial_method(ext, "run_initial", idx=idx)

    def worker_idle():
        """the run thread is back in its wait (or gone): only then is the command really over --
        STOPPED is written before the thread clears its wake-up flag, and a command issued in
        between overlaps the run thread's own transitions (C04's overlap clause, not this property)"""
        w = getattr(sim, "_Simulator__worker", None)
        if w is None:
            return True
        try:
            return w.is_waiting() or w.is_finalized() or not w.is_alive()
        except Exception:  # noqa
            return True

    def wait_quiet():
        t0 = time.time()
        while ((sim.run_state.name not in QUIET or sim.replication_state.name == "ENDING" or not worker_idle())
               and time.time() - t0 < 6.0):
            time.sleep(0.0005)
        if sim.run_state.name not in QUIET or sim.replication_state.name == "ENDING":
            rec["notes"].append("not quiescent after 6 s: " + sim.run_state.name + "/" + sim.replication_state.name)

    def stat_snapshot():
        return [[m.mi, gen, key, kind, all_getters(o), list(o.fed)] for m in models for gen, key, kind, o in m.all_stats]

    def wait_not_running():
        """what a caller does who re-initialises as soon as the simulator says it is no longer running"""
        t0 = time.time()
        while sim.is_starting_or_running() and time.time() - t0 < 6.0:
            time.sleep(0.0002)

    def is_asap(c):
        return c[0] == "init" and len(c) > 5 and c[5] == "asap"

    def begin_init(ci):
        mark = {k: len(rec[k]) for k in LISTS}
        mark["cmd"] = ci
        mark["snaps"] = ci
        ctx = {"mark": mark, "pre": stat_snapshot(), "exec": state["exec_in_repl"], "old": set(state["old_threads"])}
        state["exec_in_repl"] = 0
        state["old_threads"] |= {t for t in threading.enumerate() if t.name == name}
        state["in_init"] = True
        return ctx

    def finish_init(ctx, r, c):
        state["in_init"] = False
        if r == "ok":
            rec["marks"].append(ctx["mark"])
            rec["pre_init"].append(ctx["pre"])
            state["current"] = models[c[4] if len(c) > 4 and isinstance(c[4], int) else 0]
        elif r.startswith("exc:"):
            # construct_model raised: the initialize was aborted, but construct_model had begun (streams re-seeded,
            # a new producer) - what follows belongs to this aborted replication
            rec["marks"].append(ctx["mark"])
            rec["pre_init"].append(ctx["pre"])
        else:
            state["exec_in_repl"] = ctx["exec"]
            state["old_threads"] = ctx["old"]

    cmds = case["cmds"]
    for ci, c in enumerate(cmds):
        if is_fromend(c):
            # was (or should have been) performed by the END_REPLICATION listener
            r, snap = fromend["results"].pop(0) if fromend["results"] else ("notrun", None)
            if snap is None:
                wait_quiet()
                snap = snapshot()
            rec["snaps"].append([r] + snap)
            rec["log"].append(["cmd", c, r] + snap)
            continue
        arm = []
        k = ci + 1
        while k < len(cmds) and is_fromend(cmds[k]):
            arm.append((k, cmds[k]))
            k += 1
        if arm:
            fromend["done"].clear()
            fromend["cmds"] = arm
        ctx = begin_init(ci) if c[0] == "init" else None
        r = issue(c)
        if ctx is not None:
            finish_init(ctx, r, c)
        if arm:
            if not fromend["done"].wait(12):
                rec["notes"].append("the END_REPLICATION listener that drives the next replication was never notified")
            rec["racy_snaps"].append(ci)
            wait_quiet()
        elif ci + 1 < len(cmds) and is_asap(cmds[ci + 1]) and c[0] in ("start", "runupto", "runuptoincl"):
            wait_not_running()
            rec["racy_snaps"].append(ci)
        else:
            wait_quiet()
        if c[0] in ("init", "cleanup", "initbad"):
            subscribe()
        rec["snaps"].append([r] + snapshot())
        rec["log"].append(["cmd", c, r] + snapshot())
    current = state["current"]
    if slow or any(is_fromend(c) for c in cmds):
        # let every slow subscriber / the old run thread finish, then look at the simulator once more
        time.sleep(max(list(slow.values()) + [0.05]) + 0.25)
        wait_quiet()
    rec["settled"] = [sim.run_state.name, sim.replication_state.name, to_q(sim.simulator_time), sim.eventlist().size()]

    def alive():
        return any(t.name == name and t.is_alive() for t in threading.enumerate())
    if sim.run_state.name in ("ENDED", "NOT_INITIALIZED"):
        t0 = time.time()
        while alive() and time.time() - t0 < 1.0:
            time.sleep(0.001)
    rec["alive"] = alive()
    rec["final_stats"] = stat_snapshot()
    rec["reported"] = None
    if current is not None:
        try:
            keys = list(current.output_statistics().keys())
            rep = []
            for k in keys:
                o = current.get_output_statistic(k)
                mine = [(key, kind) for gen, key, kind, oo in current.all_stats if oo is o]
                rep.append({"key": k, "is_current_object": any(o is v for v in current.stat_objs.values()),
                            "kind": mine[0][1] if mine else None, "getters": all_getters(o), "fed": list(o.fed)})
            rec["reported"] = rep
        except Exception as exc:  # noqa
            rec["reported"] = "exc:" + type(exc).__name__
    try:
        sim.cleanup()
    except Exception as exc:  # noqa
        rec["notes"].append("final cleanup raised " + type(exc).__name__)
    return rec


if __name__ == "__main__":
    main()
