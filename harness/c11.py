"""C11 -- simulation statistics honour warm-up and replication end; publish true values.

Tie: generated model programs with observation schedules (before / at / after
the warm-up instant and the replication end, ties with priorities around the
warm-up event), all four Sim* statistic types on shared and private channels,
runs interrupted by pauses (run_up_to + start, step, failing handlers under
the pause strategy), second replications re-initialised without cleanup, and
a subscriber on the statistics' own events that compares every published
payload with a fresh getter call made inside notify and may register a further
observation from inside the notification -- run on the real classes of /repo
(harness/c11_impl.py) and on the Gallina model Stats/SimStats.v (composition
of Sim/Model.v, the producer and the C09/C10 statistics models) in binary64
inside coqc; simulator observables, every published payload and every getter
of every statistic at the end must agree bit for bit.

Oracle (independent of the Coq model): the clauses of C11 evaluated on the
implementation's own chronological log with plain Counter / Tally /
WeightedTally / TimestampWeightedTally objects fed the observations made at
or after the warm-up time, exact rational time averages, payload == fresh
getter, retrieval under the key.
"""
from __future__ import annotations

import json
import math
import random
import sys
from fractions import Fraction
from pathlib import Path

sys.path.insert(0, str(Path(__file__).resolve().parent))
import common as C
import simlib as S
import c11lib as L

PID = "C11"
# built in coq/ (independent of the source text); Gen_SimStats / SimGenAgree / Props/C11 are compiled per tree (c11lib.SimStatsTree)
TARGETS = ["Stats/SimStats.vo", "Stats/SimStatsProofs.vo"]
DRIVER = Path(__file__).resolve().parent / "c11_impl.py"
KINDS = ["counter", "tally", "weighted", "persistent"]
FAM = {"counter": "int", "tally": "num", "persistent": "num", "weighted": "pair"}
NEVENTS = {"counter": 3, "tally": 16, "weighted": 10, "persistent": 10}
CKIND = {"counter": "KCounter", "tally": "KTally", "weighted": "KWeighted", "persistent": "KPersistent"}


# ----------------------------------------------------------------------------- generation
def gen_value(rng: random.Random) -> float:
    r = rng.random()
    if r < 0.35:
        return float(rng.randint(-4, 9))
    if r < 0.45:
        return 2.5
    if r < 0.9:
        return rng.uniform(-100.0, 100.0)
    return rng.choice([0.0, 1e-3, 1e6, -1e6, 0.1, 1.0 / 3.0])


def gen_payloads(rng: random.Random, malformed: bool) -> list[dict]:
    n = rng.randint(6, 12)
    out = []
    for i in range(n):
        p = {"c": rng.choice([1, 1, 1, 2, -1, 0, rng.randint(-5, 20)]), "v": gen_value(rng).hex(),
             "as_int": rng.random() < 0.3}
        w = rng.choice([0.0, 1.0, 1.0, 0.25, 2.0, abs(gen_value(rng)), rng.uniform(0.0, 10.0)])
        p["w"] = float(w).hex()
        if malformed and i >= 2 and rng.random() < 0.3:
            what = rng.choice(["c", "v", "w", "vnan", "wnan", "wneg", "notuple", "len3"])
            if what == "c":
                p["c"] = None
            elif what == "v":
                p["v"] = "str"
            elif what == "w":
                p["w"] = "str"
            elif what == "vnan":
                p["v"] = "nan"
            elif what == "wnan":
                p["w"] = "nan"
            elif what == "wneg":
                p["w"] = (-rng.uniform(0.5, 3.0)).hex()
            else:
                p["w"] = what
        out.append(p)
    return out


def valid_for(kind: str, p: dict) -> bool:
    if kind == "counter":
        return p["c"] is not None
    if kind in ("tally", "persistent"):
        return p["v"] not in ("str", "nan")
    if p["w"] in ("str", "nan", "notuple", "len3") or p["v"] in ("str", "nan"):
        return False
    return not (float.fromhex(p["w"]) < 0)


def gen_case(rng: random.Random, i: int) -> dict:
    clock = S.CLOCKS[i % len(S.CLOCKS)]
    u = S.unit_of(clock)
    malformed = (i % 5 == 4)
    # ---- channels
    nchan = rng.randint(1, 4)
    chans = []
    used_std = set()
    for _ in range(nchan):
        fam = rng.choice(["int", "num", "num", "pair"])
        ch = {"fam": fam, "std": False}
        r = rng.random()
        if r < 0.25:
            std_key = "DATA" if fam in ("int", "num") else "WEIGHT"
            if std_key not in used_std:
                ch["std"] = True
                used_std.add(std_key)
        elif r < 0.4 and fam == "num" and "TS" not in used_std:
            ch["timed"] = True
            used_std.add("TS")
        chans.append(ch)
    payloads = gen_payloads(rng, malformed)
    # ---- statistics
    nst = rng.randint(1, 5)
    keys = rng.sample(range(20), nst)
    stats = []
    for sid in range(nst):
        kind = rng.choice(KINDS) if sid > 0 else KINDS[(i // 4) % 4]
        mine = [c for c, ch in enumerate(chans) if ch["fam"] == FAM[kind]]
        if mine:
            k = rng.randint(1, len(mine)) if rng.random() < 0.9 else 0
            listen = sorted(rng.sample(mine, k))
            rng.shuffle(listen)
        else:
            listen = []
        r = rng.random()
        ne = NEVENTS[kind]
        if r < 0.25:
            lsub = []
        elif r < 0.6:
            lsub = list(range(0, ne + 1))
        else:
            lsub = sorted(rng.sample(range(0, ne + 1), rng.randint(1, ne)))
        ok_idx = [j for j, p in enumerate(payloads) if valid_for(kind, p)]
        react = []
        if lsub and ok_idx and rng.random() < 0.5:
            for _ in range(rng.randint(1, 8)):
                react.append(rng.choice(ok_idx) if rng.random() < 0.4 else None)
        stats.append({"kind": kind, "key": keys[sid], "chans": listen, "lsub": lsub,
                      "extra": bool(lsub) and rng.random() < 0.3, "react": react})
    # ---- program
    prog = S.gen_program(rng, clock, p_illegal=0.04, p_cancel=0.08, p_obs=0.45, n_stats=nchan,
                         p_fail=(0.08 if malformed else 0.0))
    all_ok = [j for j, p in enumerate(payloads) if all(valid_for(k, p) for k in KINDS)]
    fam_kind = {"int": "counter", "num": "tally", "pair": "weighted"}
    for h, body in enumerate(prog):
        for a in body:
            if a[0] == "obs":
                bad = [j for j, p in enumerate(payloads) if not valid_for(fam_kind[chans[a[1]]["fam"]], p)]
                if h == 0 or not malformed or not bad or rng.random() < 0.55:
                    a[2] = rng.choice(all_ok)
                else:
                    a[2] = rng.choice(bad)       # refused by the statistics of this channel
    repl = S.gen_repl(rng, clock)
    start, warm, end = repl[1], repl[2], repl[3]
    obs_handlers = [h for h in range(1, len(prog)) if any(a[0] == "obs" for a in prog[h])]
    if not obs_handlers:
        h = rng.randint(1, len(prog) - 1)
        prog[h].insert(0, ["obs", rng.randrange(nchan), rng.choice(all_ok)])
        obs_handlers = [h]
    # observing events exactly at the warm-up instant and at the end, with priorities around 10
    if rng.random() < 0.7:
        for _ in range(rng.randint(1, 3)):
            prog[0].append(["sched", ["abs", warm], rng.choice([5, 5, 10, 1, 9, 10]), rng.choice(obs_handlers)])
    if rng.random() < 0.5:
        prog[0].append(["sched", ["abs", rng.choice([end, end, end + u, max(start, warm - u)])],
                        rng.choice([5, 1, 10]), rng.choice(obs_handlers)])
    if rng.random() < 0.5:
        prog[0].append(["sched", ["abs", rng.randint(start // u, end // u) * u], 5, rng.choice(obs_handlers)])
    # ---- commands
    def mid():
        return rng.randint(start // u, end // u) * u
    sc = rng.random()
    repl2 = ["init", start, rng.choice([warm, start, start + ((end - start) // (2 * u)) * u]), end]
    if sc < 0.22:
        cmds = [repl, ["start"]]
    elif sc < 0.36:
        cmds = [repl, [rng.choice(["runupto", "runuptoincl"]), mid()], ["start"]]
    elif sc < 0.48:
        a, b = sorted([mid(), mid()])
        cmds = [repl, ["runupto", a], ["step"], ["runuptoincl", b], ["step"], ["start"]]
    elif sc < 0.58:
        cmds = [repl] + [["step"]] * rng.randint(1, 6) + [["start"]]
    elif sc < 0.70:
        cmds = [repl, ["start"], repl2, ["start"]]
    elif sc < 0.78:
        cmds = [repl, [rng.choice(["runupto", "runuptoincl"]), mid()], repl2, ["start"]]
    elif sc < 0.84:
        cmds = [repl, ["start"], ["cleanup"], repl2, ["start"]]
    elif sc < 0.90:
        cmds = [repl, [rng.choice(["runupto", "runuptoincl"]), mid()], ["endrepl"]]
    elif sc < 0.95:
        cmds = [repl, [rng.choice(["runupto", "runuptoincl"]), mid()]]          # paused, never ended
    else:
        cmds = [repl] + [["step"]] * rng.randint(1, 4)
    strategy = "pause"
    if malformed:
        strategy = rng.choice(["pause", "log", "warn"])
        if strategy == "pause":
            cmds = cmds + [["start"], ["start"]]
    # ---- one-shot listeners of the model on the simulator's WARMUP / END_REPLICATION events (and on the channels),
    #      subscribed before / between / after the statistics, unsubscribing themselves or one another inside notify:
    #      every statistic must be notified all the same
    hooks = []
    if rng.random() < 0.6:
        for _ in range(rng.randint(1, 3)):
            r = rng.random()
            ev = "warmup" if r < 0.45 else ("endrepl" if r < 0.8 else ["chan", rng.randrange(nchan)])
            hooks.append({"ev": ev, "pos": rng.randint(0, nst) if rng.random() < 0.7 else 0, "removes": len(hooks)})
        for hi, h in enumerate(hooks):
            if rng.random() < 0.3:
                h["removes"] = rng.randrange(len(hooks))
    # ---- constructions the constructors must refuse (caught by the model), before / between / after the statistics:
    #      nothing of the refused object may stay behind (e.g. subscribed to the simulator's events)
    ghosts = []
    if rng.random() < 0.35:
        for _ in range(rng.randint(1, 2)):
            ghosts.append({"pos": rng.randint(0, nst) if rng.random() < 0.6 else 0, "kind": rng.choice(KINDS),
                           "how": rng.choice(["name", "name", "key", "sim"])})
    # ---- the model class may be a container / define its own truth value
    variant = rng.choice(["len0", "boolfalse"]) if rng.random() < 0.25 else "plain"
    return {"clock": clock, "strategy": strategy, "prog": prog, "cmds": cmds, "chans": chans,
            "payloads": payloads, "stats": stats, "hooks": hooks, "ghosts": ghosts, "model_variant": variant}


# ----------------------------------------------------------------------------- running the implementation
def run_impl(cases: list[dict], nproc: int = 14, timeout: int = 900) -> list[dict]:
    import subprocess
    from concurrent.futures import ThreadPoolExecutor
    if not cases:
        return []
    nproc = max(1, min(nproc, len(cases)))
    batch = max(4, min(40, len(cases) // (nproc * 4) or 1))
    chunks = [cases[i:i + batch] for i in range(0, len(cases), batch)]

    def one(chunk):
        p = subprocess.run([C.PY, str(DRIVER)], input=json.dumps(chunk), capture_output=True, text=True,
                           timeout=timeout, env=C.child_env())
        if p.returncode != 0:
            raise RuntimeError("c11_impl failed: " + p.stderr[-2000:])
        return json.loads(p.stdout)
    with ThreadPoolExecutor(max_workers=nproc) as ex:
        outs = list(ex.map(one, chunks))
    return [o for chunk_out in outs for o in chunk_out]


# ----------------------------------------------------------------------------- oracle (independent of the Coq model)
def _plain(kind):
    from pydsol.core import statistics as ST
    return {"counter": ST.Counter, "tally": ST.Tally, "weighted": ST.WeightedTally,
            "persistent": ST.TimestampWeightedTally}[kind]("plain")


def _hexf(s):
    return float("nan") if s == "nan" else float.fromhex(s)


def _feed_plain(kind, o, p, tq):
    """what the event-based statistic would be asked to register for payload p"""
    try:
        if kind == "counter":
            if p["c"] is None:
                return
            o.register(p["c"])
        elif kind == "tally":
            if p["v"] == "str":
                return
            o.register(_hexf(p["v"]))
        elif kind == "weighted":
            if p["w"] in ("str", "notuple", "len3") or p["v"] == "str":
                return
            o.register(_hexf(p["w"]), _hexf(p["v"]))
        else:
            if p["v"] == "str":
                return
            o.register(tq / 4.0, _hexf(p["v"]))
    except (ValueError, TypeError):
        pass


def _g(f):
    try:
        v = f()
    except Exception as exc:  # noqa
        return ["exc", type(exc).__name__]
    if isinstance(v, bool):
        return ["other", repr(v)]
    if isinstance(v, int):
        return ["int", v]
    if isinstance(v, float):
        return ["fl", v.hex()]
    return ["other", type(v).__name__]


def _plain_snap(kind, o):
    if kind == "counter":
        return {"count": _g(o.count), "n": _g(o.n)}
    if kind == "tally":
        return {"n": _g(o.n), "min": _g(o.min), "max": _g(o.max), "sum": _g(o.sum), "mean": _g(o.mean),
                "var_b": _g(o.variance), "var_u": _g(lambda: o.variance(False)),
                "sd_b": _g(o.stdev), "sd_u": _g(lambda: o.stdev(False)),
                "skew_b": _g(o.skewness), "skew_u": _g(lambda: o.skewness(False)),
                "kurt_b": _g(o.kurtosis), "kurt_u": _g(lambda: o.kurtosis(False)),
                "ek_b": _g(o.excess_kurtosis), "ek_u": _g(lambda: o.excess_kurtosis(False))}
    sn = {"n": _g(o.n), "min": _g(o.min), "max": _g(o.max), "sum": _g(o.weighted_sum), "mean": _g(o.weighted_mean),
          "var_b": _g(o.weighted_variance), "var_u": _g(lambda: o.weighted_variance(False)),
          "sd_b": _g(o.weighted_stdev), "sd_u": _g(lambda: o.weighted_stdev(False))}
    if kind == "persistent":
        sn["active"] = bool(o.isactive())
        sn["last"] = _g(o.last_value)
        sn["sumw"] = _g(lambda: o._sum_of_weights)
    return sn


def _same(a, b):
    """bit equality of canonical values; any NaN equals any NaN"""
    if a == b:
        return True
    if isinstance(a, list) and isinstance(b, list) and len(a) == 2 == len(b) and a[0] == b[0] == "fl":
        x, y = float.fromhex(a[1]), float.fromhex(b[1])
        return x != x and y != y
    return False


def oracle(case: dict, obs: dict):
    """(signature, description) of the first violated clause or None; plus facts."""
    facts = {"warm_tie": False, "warm_tie_hi": False, "warm_fired": False, "pre_warm_obs": False,
             "post_warm_obs": False, "paused": False, "second_repl": False, "ended": False, "reentrant": False,
             "end_tie": False, "rejected": False, "kinds": [], "deliveries": 0, "executed": 0,
             "persistent_closed": False, "warm_not_reached": False,
             "hook_on_simulator_event": any(h["ev"] in ("warmup", "endrepl") for h in case.get("hooks") or []),
             "hook_on_channel": any(isinstance(h["ev"], list) for h in case.get("hooks") or []),
             "refused_construction": bool(case.get("ghosts")),
             "model_with_own_truth_value": (case.get("model_variant") or "plain") != "plain"}
    if "error" in obs:
        return ("driver-error", obs["error"] + " " + obs.get("tb", "")[-300:]), facts
    log = obs["log"]
    payloads, stats, chans = case["payloads"], case["stats"], case["chans"]
    facts["kinds"] = sorted({d["kind"] for d in stats})
    # the last accepted initialize
    base = None
    repl = None
    n_inits = 0
    pending_init = None
    for pos, ent in enumerate(log):
        if ent[0] == "cmd" and ent[1][0] == "init":
            pending_init = (pos, ent[1])
        elif ent[0] == "cmdres" and ent[1][0] == "init" and pending_init is not None:
            if ent[2] == "ok":
                base, repl = pending_init
                n_inits += 1
            elif ent[2].startswith("exc"):
                return ("initialize-raises", f"initialize raised {ent[2]}"), facts
            pending_init = None
    if base is None:
        return None, facts
    facts["second_repl"] = n_inits >= 2
    W, E = repl[2], repl[3]
    cur = log[base:]
    ncmd = sum(1 for e in cur if e[0] == "cmd" and e[1][0] in ("start", "step", "runupto", "runuptoincl"))
    facts["paused"] = ncmd >= 2
    final = obs["snaps"][-1] if obs["snaps"] else None
    ended = bool(final) and final[1] == "ENDED"
    facts["ended"] = ended
    if obs.get("stderr"):
        sig = "worker-thread-exception"
        if "end_observations" in obs["stderr"] and case["clock"] in ("dur", "durmin"):
            sig = "persistent-duration-clock-end-raises"
        return (sig, "an exception escaped on the simulator's worker thread: " + obs["stderr"][-300:]), facts
    for nt in obs.get("notes", []):
        return ("harness-note", nt), facts

    subs_of = {c: [sid for sid, d in enumerate(stats) if c in d["chans"]] for c in range(len(chans))}
    plain = [_plain(d["kind"]) for d in stats]
    warm_fired = False
    end_fired = False
    first_counted = [None] * len(stats)      # persistent: (time, ...) of the first counted observation
    series = [[] for _ in stats]              # persistent: counted valid (t, v)
    # first pass: did the warm-up reset happen at all
    any_warm = any(e[0] == "ntf" and e[1] == "warmup" for e in cur)
    facts["warm_fired"] = any_warm
    facts["warm_not_reached"] = not any_warm

    def counted(tq, ctx):
        if not any_warm:
            return True
        if isinstance(ctx, int) and ctx < 10:
            return tq >= W
        return warm_fired

    for ent in cur:
        if ent[0] == "exec":
            facts["executed"] += 1
            if ent[2] == W:
                facts["warm_tie"] = True
                if ent[4] >= 10:
                    facts["warm_tie_hi"] = True
            if ent[2] == E:
                facts["end_tie"] = True
        elif ent[0] == "ntf" and ent[1] == "warmup":
            warm_fired = True
            if ent[2] != W:
                return ("warmup-at-wrong-time", f"WARMUP notified at {ent[2]}/4, warm-up time {W}/4"), facts
        elif ent[0] == "ntf" and ent[1] == "endrepl":
            end_fired = True
            for sid, d in enumerate(stats):
                if d["kind"] == "persistent":
                    try:
                        plain[sid].end_observations(ent[2] / 4.0)
                    except (ValueError, TypeError):
                        pass
        elif ent[0] == "obs":
            _, chan, idx, tq, ctx = ent
            p = payloads[idx]
            if isinstance(ctx, int) and ctx < 10 and any_warm:
                # the parenthesis of the property: at the warm-up instant the reset comes first
                if (tq >= W) != warm_fired:
                    return ("observation-order-against-warmup-reset",
                            f"an observation made at {tq}/4 by an event of priority {ctx} ran "
                            f"{'before' if not warm_fired else 'after'} the warm-up reset (warm-up time {W}/4)"), facts
            if warm_fired:
                facts["post_warm_obs"] = True
            else:
                facts["pre_warm_obs"] = True
            for sid in subs_of.get(chan, []):
                kind = stats[sid]["kind"]
                ok = valid_for(kind, p)
                if counted(tq, ctx):
                    _feed_plain(kind, plain[sid], p, tq)
                    if kind == "persistent" and ok and not end_fired:
                        series[sid].append((tq, _hexf(p["v"])))
                if not ok:
                    facts["rejected"] = True
                    break
        elif ent[0] == "rereg":
            _, sid, idx, tq, ctx = ent
            facts["reentrant"] = True
            kind = stats[sid]["kind"]
            if counted(tq, ctx):
                _feed_plain(kind, plain[sid], payloads[idx], tq)
                if kind == "persistent" and not end_fired:
                    series[sid].append((tq, _hexf(payloads[idx]["v"])))
            # a registration made from inside the END_REPLICATION publication comes
            # after the plain end_observations above: the plain statistic is closed
            # and ignores it except for last_value -- exactly like the real one

    if ended and not end_fired:
        return ("end-replication-not-notified", "the replication ended without END_REPLICATION"), facts

    # ---- clause by clause on every statistic
    for sid, d in enumerate(stats):
        kind = d["kind"]
        so = obs["stats"][sid] if sid < len(obs["stats"]) else None
        if so is None:
            return ("statistic-missing", f"statistic {sid} was not created"), facts
        # retrievable under its key
        if not so["lookup"] or not so.get("key_prop", True):
            return ("statistic-not-retrievable-under-key",
                    f"{kind} created in construct_model under key k{d['key']} is not what get_output_statistic returns"), facts
        # published payload == fresh getter
        for j, pay, fresh, ts_ok in so["pub"]:
            facts["deliveries"] += 1
            if j == 99:
                return ("unexpected-event-type-published", f"{kind} delivered an event of a type it never fires"), facts
            if fresh is not None and not _same(pay, fresh):
                return ("published-payload-differs-from-getter:" + kind,
                        f"{kind} published {pay} on event #{j} while the getter answered {fresh} inside notify"), facts
            if not ts_ok:
                return ("published-timestamp-differs-from-clock:" + kind,
                        f"{kind} event #{j} carries a timestamp different from the simulator clock"), facts
        # getters never raise
        for gname, gv in so["snap"].items():
            if isinstance(gv, list) and gv[0] == "exc":
                return ("getter-raises:" + kind, f"{kind}.{gname}() raised {gv[1]} at the end of the run"), facts
        # sim statistic == plain statistic on the observations at or after the warm-up time
        want = _plain_snap(kind, plain[sid])
        for gname, gv in want.items():
            have = so["snap"].get(gname)
            if gname == "last":
                continue          # documented: last_value keeps tracking
            if not _same(have, gv):
                sig = "sim-statistic-differs-from-plain-on-filtered:" + kind
                if kind == "persistent" and gname == "active":
                    sig = "persistent-not-closed-at-replication-end" if gv is False else "persistent-closed-early"
                return (sig, f"{kind} (key k{d['key']}) {gname}: simulation statistic {have}, ordinary statistic fed the "
                             f"observations at or after the warm-up time {gv}"), facts
        if kind == "persistent" and ended:
            if so["snap"].get("active") is not False:
                return ("persistent-not-closed-at-replication-end", "SimPersistent still active after END_REPLICATION"), facts
            facts["persistent_closed"] = True
            ser = series[sid]
            if ser:
                t0 = ser[0][0]
                span = Fraction(E - t0, 4)
                sumw = so["snap"].get("sumw")
                if sumw and sumw[0] == "fl" and Fraction(float.fromhex(sumw[1])) != span:
                    return ("persistent-total-weight-not-span",
                            f"total weight {float.fromhex(sumw[1])} != end - first observation after warm-up = {float(span)}"), facts
                if span > 0:
                    integ = Fraction(0)
                    for (ta, va), (tb, _vb) in zip(ser, ser[1:] + [(E, 0.0)]):
                        integ += Fraction(tb - ta, 4) * Fraction(va)
                    avg = integ / span
                    have = so["snap"]["mean"]
                    if have[0] != "fl" or not math.isclose(float.fromhex(have[1]), float(avg), rel_tol=1e-9, abs_tol=1e-9):
                        return ("persistent-mean-not-time-average",
                                f"weighted_mean {have} but the time average from {t0}/4 to {E}/4 is {float(avg)}"), facts
    if obs.get("nkeys") != len(stats):
        return ("statistics-dictionary-size-wrong",
                f"model.output_statistics() has {obs.get('nkeys')} entries, {len(stats)} statistics were created"), facts
    return None, facts


def nontrivial(f: dict) -> bool:
    return (f["executed"] >= 3 and f["warm_fired"] and f["pre_warm_obs"] and f["post_warm_obs"]
            and (f["warm_tie"] or f["paused"] or f["second_repl"]))


# ----------------------------------------------------------------------------- Coq emission
def c_num(s: str) -> str:
    if s == "nan":
        return "ONaN"
    if s in ("str", "notuple", "len3"):
        return "ONotNumber"
    return f"(ONum {C.cfloat(float.fromhex(s))})"


def c_payload(p: dict) -> str:
    c = "CNotInt" if p["c"] is None else f"(CInt {C.cz(p['c'])})"
    return f"@mkP NumF {c} {c_num(p['w'])} {c_num(p['v'])}"


def c_decl(d: dict) -> str:
    react = C.clist(("None" if r is None else f"Some {C.cnat(r)}") for r in d.get("react") or [])
    return (f"mkDecl {CKIND[d['kind']]} {C.cnat(d['key'])} {C.clist(C.cnat(c) for c in d['chans'])} "
            f"{C.clist(C.cnat(j) for j in d.get('lsub') or [])} {react}")


EXN = {"ZeroDivisionError", "ValueError", "TypeError", "OverflowError", "StatisticsError"}


def c_fl(v) -> str | None:
    if v[0] == "fl":
        return C.cfloat(float.fromhex(v[1]))
    if v[0] == "int":           # e.g. sum() of no observations is the int 0 in some versions
        return C.cfloat(float(v[1]))
    return None


def c_gres(v) -> str | None:
    if v[0] == "exc":
        return f"(GRaise {v[1]})" if v[1] in EXN else None
    f = c_fl(v)
    return None if f is None else f"(GVal {f})"


def c_snap(kind: str, sn: dict) -> str | None:
    try:
        if kind == "counter":
            if sn["count"][0] != "int" or sn["n"][0] != "int":
                return None
            return f"SnC {C.cz(sn['count'][1])} {C.cz(sn['n'][1])}"
        if sn["n"][0] != "int":
            return None
        fl = [c_fl(sn[k]) for k in ("min", "max", "sum")]
        if kind == "tally":
            gr = [c_gres(sn[k]) for k in ("mean", "var_b", "var_u", "sd_b", "sd_u", "skew_b", "skew_u",
                                          "kurt_b", "kurt_u", "ek_b", "ek_u")]
            if None in fl or None in gr:
                return None
            return f"SnT (mkTS {C.cz(sn['n'][1])} {' '.join(fl)} {' '.join(gr)} [])"
        gr = [c_gres(sn[k]) for k in ("mean", "var_b", "var_u", "sd_b", "sd_u")]
        if None in fl or None in gr:
            return None
        w = f"(mkWS {C.cz(sn['n'][1])} {' '.join(fl)} {' '.join(gr)})"
        if kind == "weighted":
            return f"SnW {w}"
        last = c_fl(sn["last"])
        if last is None:
            return None
        return f"SnP ({w}, {C.cbool(sn['active'])}, {last})"
    except (KeyError, TypeError, IndexError):
        return None


def c_gpv(v) -> str:
    if v[0] == "self":
        return "GSelf"
    if v[0] == "int":
        return f"GInt {C.cz(v[1])}"
    if v[0] == "fl":
        return f"GFl {C.cfloat(float.fromhex(v[1]))}"
    return "GOther"


def c_case(case: dict, obs: dict) -> str | None:
    exps = []
    for d, so in zip(case["stats"], obs["stats"]):
        if so is None:
            return None
        sn = c_snap(d["kind"], so["snap"])
        if sn is None:
            return None
        pub = C.clist(f"({C.cnat(j)}, {c_gpv(pay)})" for j, pay, _fresh, _ts in so["pub"])
        exps.append(f"mkSE ({sn}) {pub} {C.cbool(so['lookup'])}")
    cfg = C.clist(c_decl(d) for d in case["stats"])
    pl = C.clist(c_payload(p) for p in case["payloads"])
    return (f"(mkC11 {cfg} {pl} {S.c_case(case, obs)} {C.cnat(max(obs.get('nkeys', 0), 0))} "
            f"{C.clist(exps)})")


def representable(obs: dict) -> str | None:
    why = S.representable(obs)
    if why is not None:
        return why
    if obs.get("stderr"):
        return "exception on the worker thread"
    return None


HEADER = ["From Coq Require Import ZArith List.",
          "From PV Require Import Stats.Num Stats.Tally Stats.Weighted Stats.Timestamp Stats.SimStats.",
          "From PV Require Import Sim.Model Sim.Case.",
          "Import ListNotations.", "Import PrimFloat."]


def coq_compare(cases: list[dict], obs: list[dict], shard: int = 60):
    """codes[i]: 0 agree, 1 simulator part disagrees, 2 outside the model, 3 a statistic disagrees,
    4 not representable."""
    d = C.scratch_dir(PID)
    codes = [0] * len(cases)
    texts = {}
    for i, (c, o) in enumerate(zip(cases, obs)):
        if representable(o) is not None:
            codes[i] = 4
            continue
        t = c_case(c, o)
        if t is None:
            codes[i] = 4
        else:
            texts[i] = t
    idxs = sorted(texts)
    groups = [idxs[s:s + shard] for s in range(0, len(idxs), shard)]
    files = []
    for g, grp in enumerate(groups):
        f = d / f"cases_c11_{g}.v"
        lines = list(HEADER) + ["Definition cases : list c11case := ["]
        lines.append(";\n".join(texts[i] for i in grp))
        lines.append("].")
        for want in (1, 2, 3):
            lines.append(f"Eval vm_compute in (c11_codes_from 0 {want} cases).")
        f.write_text("\n".join(lines) + "\n")
        files.append(f)
    results = C.coqc_many(files)
    for g, (rc, out) in enumerate(results):
        lists = C.parse_nat_lists(out)
        if rc != 0 or len(lists) != 3:
            return codes, f"coqc failed on {files[g]}: {out[-800:]}"
        for want, lst in zip((1, 2, 3), lists):
            for j in lst:
                codes[groups[g][j]] = want
    return codes, None


def coq_view(case: dict, obs: dict) -> str:
    d = C.SCRATCH / (PID + "_view")
    d.mkdir(parents=True, exist_ok=True)
    f = d / "view.v"
    t = c_case(case, obs)
    if t is None:
        return "case not representable"
    f.write_text("\n".join(HEADER) + f"\nDefinition c : c11case := {t}.\n"
                 "Eval vm_compute in (c11_code c).\nEval vm_compute in (c11_view c).\n")
    rc, out = C.coqc_file(f)
    return out[-5000:]


# ----------------------------------------------------------------------------- shrinking
def shrink(case, pred, budget=150):
    cur = json.loads(json.dumps(case))

    def attempt(cand):
        nonlocal budget
        budget -= 1
        return budget >= 0 and pred(cand)
    changed = True
    while changed and budget > 0:
        changed = False
        # commands (never the first initialize)
        for j in range(len(cur["cmds"]) - 1, 0, -1):
            cand = json.loads(json.dumps(cur)); del cand["cmds"][j]
            if attempt(cand):
                cur = cand; changed = True; break
        if changed:
            continue
        if cur.get("model_variant", "plain") != "plain":
            cand = json.loads(json.dumps(cur)); cand["model_variant"] = "plain"
            if attempt(cand):
                cur = cand; changed = True; continue
        if cur.get("ghosts"):
            cand = json.loads(json.dumps(cur)); cand["ghosts"].pop()
            if attempt(cand):
                cur = cand; changed = True; continue
        # hooks (from the back: the indices the others refer to stay)
        if cur.get("hooks"):
            cand = json.loads(json.dumps(cur)); cand["hooks"].pop()
            for h in cand["hooks"]:
                if h["removes"] >= len(cand["hooks"]):
                    h["removes"] = -1
            if attempt(cand):
                cur = cand; changed = True; continue
        # statistics (from the back: ids of the others stay)
        if len(cur["stats"]) > 1 and not any(h["pos"] >= len(cur["stats"])
                                             for h in (cur.get("hooks") or []) + (cur.get("ghosts") or [])):
            cand = json.loads(json.dumps(cur)); cand["stats"].pop()
            if attempt(cand):
                cur = cand; changed = True; continue
        for sid, d in enumerate(cur["stats"]):
            if d.get("react"):
                cand = json.loads(json.dumps(cur)); cand["stats"][sid]["react"] = []
                if attempt(cand):
                    cur = cand; changed = True; break
        if changed:
            continue
        for h in range(len(cur["prog"])):
            for k in range(len(cur["prog"][h])):
                cand = json.loads(json.dumps(cur)); del cand["prog"][h][k]
                if attempt(cand):
                    cur = cand; changed = True; break
            if changed or budget <= 0:
                break
    return cur


# ----------------------------------------------------------------------------- main
def main(tier: str) -> int:
    run = C.Run(PID, tier)
    tree = L.prepare(run)
    if tree is None:
        return run.finish()
    proofs_ok = L.check_proofs(run, tree, TARGETS, extra_tb=[
        "simulator part: Sim/Model.v (pending set at specification level, worker thread executed synchronously, exact dyadic times); "
        "statistics part: the C09/C10 models executed in binary64 (Coq PrimFloat assumed to round like CPython float; re-validated bit for bit on every run)",
        "theorems are about the exact-rational instance of the same model text; rounding of the statistics is not reasoned about",
        "the statistics' subscriber re-enters only the statistic that notified it; notifications across different statistics are independent in the model",
    ])
    C.use_repo_sources()
    rng = random.Random(run.seed * 15485863 + 11)
    n = 1500 if tier == "quick" else 30000
    cases = []
    corpus = C.VERIF / "corpus" / f"{PID}.json"
    if corpus.exists():
        cases += json.loads(corpus.read_text())
    ncorp = len(cases)
    cases += [gen_case(rng, i) for i in range(n)]
    try:
        obs = run_impl(cases)
    except Exception as exc:  # noqa
        run.violation("harness-cannot-run-implementation", f"{type(exc).__name__}: {exc}"[:600], {}, found_input=False)
        return run.finish()

    nontriv = set()
    hist: dict = {}
    kinds_seen: dict = {}
    first_bad = {}
    ndeliv = 0
    for i, (c, o) in enumerate(zip(cases, obs)):
        bad, facts = oracle(c, o)
        for k, v in facts.items():
            if v is True:
                hist[k] = hist.get(k, 0) + 1
        for k in facts["kinds"]:
            kinds_seen[k] = kinds_seen.get(k, 0) + 1
        ndeliv += facts["deliveries"]
        if nontrivial(facts):
            nontriv.add(json.dumps([c["prog"], c["cmds"], c["clock"], c["stats"]]))
        if bad and bad[0] not in first_bad:
            first_bad[bad[0]] = (i, bad)
    run.cov["evaluations"] = len(cases)
    run.cov["distinct_nontrivial"] = len(nontriv)
    run.cov["rule"] = ("generated model programs + statistics configurations (1-5 Sim statistics of the four types on 1-4 shared / private "
                       "channels incl. the standard DATA / WEIGHT_DATA / TIMESTAMP_DATA event types, subscriber on the statistics' own events "
                       "with re-entrant registrations; in 60% of the cases 1-3 one-shot listeners of the model on the simulator's WARMUP / "
                       "END_REPLICATION events or a channel, subscribed before / between / after the statistics and unsubscribing themselves "
                       "or one another inside notify; in 35% 1-2 constructions the constructors must refuse (name / key not a str, not a simulator; "
                       "the TypeError is caught by the model) before / between / after the statistics; in 25% a model class defining "
                       "__len__ -> 0 or __bool__ -> False) x 4 clock kinds x command scenarios (start; run_up_to(+incl) + start; step sequences; "
                       "second replication without cleanup; abandon mid-run and re-initialise; cleanup + re-initialise; end_replication; "
                       "paused and never ended; malformed stream every 5th case: refused payloads, failing handlers, three error strategies); "
                       "non-trivial = distinct case executing >= 3 events in which the warm-up reset fired with observations both before and "
                       "after it and at least one of: an event exactly at the warm-up instant, a run interrupted by a pause, a second replication")
    run.cov["feature_histogram"] = hist
    run.cov["statistic_kinds"] = kinds_seen
    run.cov["published_payloads_compared_with_getter"] = ndeliv
    run.cov["clock_kinds"] = sorted({c["clock"] for c in cases})
    for c, o in list(zip(cases, obs))[ncorp:ncorp + 2]:
        run.add_sample({"case": {k: c[k] for k in ("clock", "cmds", "stats")},
                        "impl": {"snaps": o.get("snaps"), "stats": [s and s["snap"] for s in o.get("stats", [])][:2]}})

    def report_findings(first_bad, cases):
        for nsig, (sig, (i, (sg, what))) in enumerate(first_bad.items()):
            def pred(cand, sg=sg):
                try:
                    o2 = run_impl([cand], nproc=1)[0]
                    b, _ = oracle(cand, o2)
                except Exception:
                    return False
                return bool(b) and b[0] == sg
            # shrink the first few findings only (each attempt is a fresh interpreter)
            small = shrink(cases[i], pred) if (sg not in ("driver-error", "harness-note") and nsig < 2) else cases[i]
            o2 = run_impl([small], nproc=1)[0]
            b, _ = oracle(small, o2)
            run.violation(sg.replace(":", "-"), (b or (sg, what))[1],
                          {"case": small, "impl_observation": {k: o2.get(k) for k in ("snaps", "stats", "ntfs", "obs", "stderr", "error")},
                           "how": "feed [case] as a JSON list on stdin to harness/c11_impl.py with PYTHONPATH=<repo>/src"})

    def report_direct(found):
        sg, what, dcase = found
        run.violation(sg.replace(":", "-"), what,
                      {"direct_case": dcase,
                       "how": "harness/c11lib.run_direct(direct_case) with PYTHONPATH=<repo>/src: the operations are performed on an "
                              "EventBased* object with a subscriber on the listed event indices that registers react[k] from inside its "
                              "k-th notification"})

    report_findings(first_bad, cases)

    # ---- the EventBased* classes driven directly (the Sim* classes override their publishing methods)
    rng_d = random.Random(run.seed * 2654435761 % (2 ** 31) + 17)
    n_direct = 1500 if tier == "quick" else 30000
    direct_found, n_direct_run = L.direct_batch(rng_d, n_direct)
    run.cov["event_based_classes_driven_directly"] = n_direct_run
    if direct_found:
        report_direct(direct_found)

    # ---- the regenerated model no longer equals the proved one: look harder for a concrete failing input
    tie = tree.broken()
    tie_extra = {}
    if tie and not first_bad and not direct_found:
        rng2 = random.Random(run.seed * 7919 + 1111)
        n_extra = 1500 if tier == "quick" else 10000
        extra = [gen_case(rng2, i) for i in range(n_extra)]
        tie_extra["extra_cases_after_broken_tie"] = n_extra
        try:
            obs2 = run_impl(extra)
        except Exception as exc:  # noqa
            obs2 = []
            tie_extra["extra_cases_error"] = f"{type(exc).__name__}: {exc}"[:300]
        fb2 = {}
        for i, (c, o) in enumerate(zip(extra, obs2)):
            bad, _facts = oracle(c, o)
            if bad and bad[0] not in fb2:
                fb2[bad[0]] = (i, bad)
        if fb2:
            first_bad = dict(fb2)
            report_findings(fb2, extra)
        else:
            direct_found, n2 = L.direct_batch(rng2, 20000 if tier == "quick" else 100000)
            tie_extra["extra_direct_cases_after_broken_tie"] = n2
            if direct_found:
                report_direct(direct_found)
    run.cov["second_tie_broken"] = bool(tie)

    codes, err = coq_compare(cases, obs)
    if err:
        run.violation("correspondence-not-evaluable", err, {}, found_input=False)
        return run.finish()
    n_dis = sum(1 for x in codes if x in (1, 3))
    run.cov["traces_validated_against_impl"] = sum(1 for x in codes if x == 0)
    run.cov["model_impl_mismatches"] = n_dis
    run.cov["cases_outside_model"] = sum(1 for x in codes if x == 2)
    run.cov["cases_not_representable"] = sum(1 for x in codes if x == 4)
    if n_dis and not first_bad:
        i = next(k for k, x in enumerate(codes) if x in (1, 3))
        rel = "Stats.SimStats.c11_code (statistics)" if codes[i] == 3 else "Sim.Case.case_code on the lowered program"
        run.violation("model-impl-disagree",
                      f"correspondence {rel} no longer matches the implementation but no clause of C11 was found violated by the oracle",
                      {"case": cases[i], "impl_observation": {k: obs[i].get(k) for k in ("snaps", "stats", "ntfs", "obs")},
                       "model_view": coq_view(cases[i], obs[i]), "relation": rel}, found_input=False)
    if tie and not first_bad and not direct_found:
        tie_extra["model_impl_mismatching_cases"] = n_dis
        L.report_broken_tie(run, tree, tie_extra)
    if not proofs_ok and not run.violations:
        run.violation("proof-broken", f"a {PID} proof obligation no longer checks: " + getattr(run, "proof_log", "")[-800:],
                      {"theorems": run.cov.get("theorems")}, found_input=False)
    return run.finish()


def replay(path: str) -> int:
    """Re-run the case stored in a replay file: implementation, oracle, model."""
    C.use_repo_sources()
    body = json.loads(Path(path).read_text())
    if body.get("direct_case"):
        f = L.run_direct(body["direct_case"])
        print(f"oracle: {f}")
        if f:
            print(f"VIOLATION property={PID} replay={path}")
            return 1
        return 0
    case = body.get("case")
    if not case:
        print("replay file holds no case")
        return 2
    o = run_impl([case], nproc=1)[0]
    bad, _ = oracle(case, o)
    codes, err = coq_compare([case], [o])
    print(f"oracle: {bad}")
    print(f"model/implementation code: {codes[0]} (0 agree, 1 simulator part, 2 outside model, 3 statistics, 4 not representable) {err or ''}")
    if bad:
        print(f"VIOLATION property={PID} replay={path}")
        return 1
    return 0 if codes[0] in (0, 2) else 1


if __name__ == "__main__":
    sys.exit(main(sys.argv[1] if len(sys.argv) > 1 else "quick"))
