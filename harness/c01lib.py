"""C01: the model regenerated from the source (second tie).

Every run translates src/pydsol/core/simevent.py and eventlist.py of the tree under test with
translator/py2gallina_eventlist.py into .scratch/eventlist/trees/<key>/Gen_EventList.v, compiles
it and the agreement proofs coq/EventList/GenAgree.v (copied there, generated module imported
from the second logical root PVT) and re-checks Props/C01.v against them.  <key> hashes the
tree's two source files, the translator, GenAgree.v and the model sources, so runs against
different trees never share a generated file and a finished directory is never stale.
coq/EventList/Gen_EventList.v (tools/regen.sh) is only for setup / `build all`.
Structure and the text surgery on GenAgree.v (give up a proof, drop an item) are those of
c09lib.StatsTree."""
from __future__ import annotations

import fcntl
import hashlib
import json
import os
import re
import shutil
import subprocess
import time
from pathlib import Path

import common as C
import c09lib as L9

PID = "C01"
TREES = C.SCRATCH / "eventlist" / "trees"
LAYOUT = b"5"
MODEL_VO = ["EventList/Key.vo", "EventList/KeyProofs.vo", "EventList/Model.vo", "EventList/Refine.vo", "EventList/HeapqProofs.vo"]
TRANSLATOR = C.VERIF / "translator" / "py2gallina_eventlist.py"
AGREE = C.COQ / "EventList" / "GenAgree.v"
_IMPORT = re.compile(r"^From PV Require Import ((?:EventList\.(?:Gen_EventList|GenAgree)\s*)+)\.\s*$", re.M)
_THM = re.compile(r"^[ \t]*(?:Theorem|Lemma)\s+([A-Za-z0-9_']+)", re.M)
# agreement theorems about definitions that need not exist: __cmp__ is a private helper of the six comparison methods (each of
# them is proved equal to the model on its own, whatever it calls); when a tree has no such method the theorem is left out
OPTIONAL = {"gen_SimEvent_cmp_eq"}
# generated names a group of the translator stands for
GROUP_NAMES = {
    "SimEvent.fields": r"gen_SimEvent_(?:time|priority|id)\b",
    "SimEvent.order": r"gen_SimEvent___(?:cmp|eq|ne|lt|le|gt|ge)__\b",
    "SimEvent.create": r"gen_SimEvent___(?:init__|new_event_counter)\b",
    "EventListHeap": r"gen_EventListHeap_\w+",
}


def tree_source(text: str) -> str:
    return _IMPORT.sub(lambda m: "From PVT Require Import " + " ".join(x.replace("EventList.", "") for x in m.group(1).split()) + ".", text)


class EventListTree(L9.StatsTree):
    """Gen_EventList.v / GenAgree.v of the tree under test, built in a directory of their own."""

    def __init__(self):
        core = C.REPO / "src" / "pydsol" / "core"
        h = hashlib.sha1(str(C.REPO.resolve()).encode() + b"\0" + LAYOUT + b"\0")
        for f in [core / "simevent.py", core / "eventlist.py", TRANSLATOR, AGREE] + [C.COQ / v[:-1] for v in MODEL_VO]:
            try:
                h.update(f.read_bytes())
            except OSError:
                h.update(b"<missing>")
            h.update(b"\0")
        self.key = h.hexdigest()[:16]
        self.dir = TREES / self.key
        self.info: dict = {}
        self.failed_theorems: list[dict] = []
        self.gen_error = ""
        self.timing: dict = {}

    def prepare(self):
        self.dir.mkdir(parents=True, exist_ok=True)
        t0 = time.time()
        with open(self.dir / ".lock", "w") as lk:
            fcntl.flock(lk, fcntl.LOCK_EX)
            try:
                self._translate()
                self._build()
            finally:
                fcntl.flock(lk, fcntl.LOCK_UN)
        self._sweep()
        self.timing["prepare_s"] = round(time.time() - t0, 2)
        return self

    def _translate(self):
        j = self.dir / "Gen_EventList.json"
        if not j.exists():
            t0 = time.time()
            env = dict(os.environ)
            env["VERIF_REPO"] = str(C.REPO)
            env["PYTHONDONTWRITEBYTECODE"] = "1"
            p = subprocess.run(["timeout", "120", C.PY, str(TRANSLATOR), "--out", str(self.dir), "--keep-going"],
                               capture_output=True, text=True, env=env)
            (self.dir / "translator.log").write_text(p.stdout + p.stderr)
            if not j.exists():
                j.write_text(json.dumps({"ok": False, "repo": str(C.REPO), "methods": [], "failures": [
                    {"group": None, "file": str(TRANSLATOR), "line": 0, "construct": "translator crashed",
                     "error": f"translator exit {p.returncode}: " + (p.stderr or p.stdout)[-1500:]}]}))
            self.timing["translate_s"] = round(time.time() - t0, 2)
        self.info = json.loads(j.read_text())
        if Path(self.info.get("repo", "")).resolve() != C.REPO.resolve():
            raise RuntimeError(f"translator read {self.info.get('repo')} but the check runs against {C.REPO}")

    # tactics are items too: one that names a generated definition cannot be defined when that definition is missing
    _ITEM = re.compile(r"^[ \t]*(Theorem|Lemma|Definition|Fixpoint|Ltac)\s+([A-Za-z0-9_']+)", re.M)

    @classmethod
    def _items(cls, text: str):
        """(kind, name, start, end) of every theorem (up to its Qed / Abort) and definition (up to its full stop)"""
        out = []
        for m in cls._ITEM.finditer(text):
            if out and m.start() < out[-1][3]:
                continue
            if m.group(1) in ("Theorem", "Lemma"):
                q = re.compile(r"\b(?:Qed|Abort)\.").search(text, m.end())
            else:
                q = re.compile(r"\.(?=\s|$)").search(text, m.end())
            out.append((m.group(1), m.group(2), m.start(), q.end() if q else len(text)))
        return out

    @staticmethod
    def _proof_of(body: str) -> str:
        i = body.find("Proof.")
        return body[i:] if i >= 0 else ""

    def _build(self):
        static = [C.COQ / v for v in MODEL_VO]
        gv, gvo = self.dir / "Gen_EventList.v", self.dir / "Gen_EventList.vo"
        av, avo = self.dir / "GenAgree.v", self.dir / "GenAgree.vo"
        state = self.dir / "agree_state.json"
        self.gen_error, self.failed_theorems = "", []
        if not gv.exists():
            self.gen_error = "no Gen_EventList.v (translation failed)"
            return
        if not self._fresh(gvo, gv, static):
            t0 = time.time()
            rc, out = L9._coqc_tree(self.dir, gv, timeout=300)
            self.timing["coqc_gen_s"] = round(time.time() - t0, 2)
            if rc != 0:
                gvo.unlink(missing_ok=True)
                self.gen_error = out[-2500:]
                return
        if self._fresh(avo, av, [gvo] + static) and state.exists():
            self.failed_theorems = json.loads(state.read_text())
            return
        t0 = time.time()
        text = tree_source(AGREE.read_text())
        seen: dict = {}

        def note(name, why):
            if name not in seen:
                seen[name] = 0
                self.failed_theorems.append({"theorem": name, "why": why})

        def mentions(body, names):
            return [n for n in names if re.search(r"(?<![A-Za-z0-9_'])" + re.escape(n) + r"(?![A-Za-z0-9_'])", body)]

        def give_up(text, first, why, drop):
            """give up `first` and, transitively, every item that cannot check without it: an item whose
            statement mentions a dropped item goes too, a theorem whose proof mentions a given-up one loses its proof"""
            gone, aborted = set(), set()
            (gone if drop else aborted).add(first)
            note(first, why)
            changed = True
            while changed:
                changed = False
                for kind, name, a, b in self._items(text):
                    if name in gone or name == first:
                        continue
                    body = text[a:b]
                    is_thm = kind in ("Theorem", "Lemma")
                    stmt = body[:body.find("Proof.")] if is_thm and "Proof." in body else body
                    hit = mentions(stmt, gone)
                    if hit:
                        gone.add(name)
                        aborted.discard(name)
                        note(name, f"mentions {hit[0]}, which is not available")
                        changed = True
                    elif is_thm and name not in aborted:
                        hit = mentions(self._proof_of(body), gone | aborted)
                        if hit:
                            aborted.add(name)
                            note(name, f"its proof uses {hit[0]}, which no longer checks")
                            changed = True
            for n in aborted:
                seen[n] = max(seen.get(n, 0), 1)
                text = self._abort(text, n)
            for n in gone:
                seen[n] = 2
                text = self._drop(text, n)
            return text

        # items about a group the translator had to leave out cannot check: drop them (and what hangs on them) first
        for g in [f.get("group") for f in self.info.get("failures", []) if f.get("group")]:
            pat = re.compile(GROUP_NAMES[g])
            for kind, name, a, b in self._items(text):
                body = self._item_text(text, name)
                if body and pat.search(body) and seen.get(name, 0) < 2:
                    is_thm = kind in ("Theorem", "Lemma")
                    stmt = body[:body.find("Proof.")] if is_thm and "Proof." in body else body
                    text = give_up(text, name, f"group {g} could not be translated", drop=bool(pat.search(stmt)) or not is_thm)
        for _ in range(60):
            av.write_text(text)
            rc, out = L9._coqc_tree(self.dir, av, timeout=600)
            if rc == 0:
                break
            m = re.search(r'File "[^"]*GenAgree\.v", line (\d+)', out)
            item = self._item_at(text, int(m.group(1))) if m else None
            err = re.sub(r"\s+", " ", out[out.find("Error"):])[:600]
            if item is None or seen.get(item[1], 0) >= 2:
                avo.unlink(missing_ok=True)
                note("GenAgree.v", out[-1500:])
                break
            kind, name = item[0], item[1]
            first_try = kind in ("Theorem", "Lemma") and seen.get(name, 0) == 0
            text = give_up(text, name, err, drop=not first_try)
        state.write_text(json.dumps(self.failed_theorems))
        self.timing["coqc_agree_s"] = round(time.time() - t0, 2)

    def _sweep(self):
        try:
            for d in TREES.iterdir():
                if d.is_dir() and d != self.dir and time.time() - d.stat().st_mtime > 86400:
                    shutil.rmtree(d, ignore_errors=True)
            os.utime(self.dir)
        except OSError:
            pass

    # -- what the check needs to know
    def agreement_theorems(self):
        return _THM.findall(AGREE.read_text())

    def broken(self):
        """None when the regenerated model is proved equal to the hand-written one; otherwise what no longer checks"""
        fails = self.info.get("failures", [])
        thms = [t for t in self.failed_theorems if t["theorem"] not in OPTIONAL]
        if self.gen_error and not fails:
            return {"stage": "generated file does not compile", "detail": self.gen_error[-1200:], "theorems": []}
        if fails:
            return {"stage": "translation", "detail": "; ".join(f["error"] for f in fails),
                    "theorems": [t["theorem"] for t in thms], "failures": fails}
        if thms:
            return {"stage": "agreement proof", "detail": thms[0]["why"], "theorems": [t["theorem"] for t in thms]}
        return None

    def coverage(self) -> dict:
        ms = self.info.get("methods", [])
        return {"translator": "translator/py2gallina_eventlist.py (Python ast, fail-closed; modules under test not imported)",
                "sources": self.info.get("sources"), "source_sha1": self.info.get("source_sha1"),
                "tree_directory": f".scratch/eventlist/trees/{self.key}",
                "translated_methods": [{"method": f"{m['class']}.{m['method']}", "file": m["file"], "lines": m["lines"],
                                        "definition": m["definition"], **({"note": m["note"]} if m.get("note") else {})} for m in ms],
                "statements_outside_the_model": self.info.get("skipped", []),
                "translated_text_sha1": self.info.get("translated_text_sha1"),
                "translation_failures": self.info.get("failures", []),
                "agreement_theorems": self.agreement_theorems(),
                "agreement_theorems_not_checking": [t for t in self.failed_theorems if t["theorem"] not in OPTIONAL],
                "optional_agreement_theorems_left_out": [t for t in self.failed_theorems if t["theorem"] in OPTIONAL],
                "helpers_translated_at_the_call_site": self.info.get("inlined_helpers", []),
                "timing": self.timing}

    def props_report(self, keep: bool = False) -> dict:
        text = tree_source((C.COQ / "Props" / f"{PID}.v").read_text())
        theorems = re.findall(r"^\s*Theorem\s+([A-Za-z0-9_']+)", text, re.M)
        printed = re.findall(r"^\s*Print Assumptions\s+([A-Za-z0-9_']+)", text, re.M)
        d = self.dir / f"props_{PID}_{os.getpid()}"
        d.mkdir(exist_ok=True)
        f = d / f"{PID}_recheck.v"
        f.write_text(text)
        rc, out = L9._coqc_tree(self.dir, f, timeout=900)
        if not keep:
            shutil.rmtree(d, ignore_errors=True)
        blocks = [b for b in re.split(r"(?=Closed under the global context|Axioms:)", out)
                  if b.startswith("Closed under the global context") or b.startswith("Axioms:")]
        assumptions = {}
        for name, b in zip(printed, blocks):
            assumptions[name] = [] if b.startswith("Closed") else \
                sorted(set(re.findall(r"^([A-Za-z_][A-Za-z0-9_'.]*)\s*:", b, re.M)))
        return {"ok": rc == 0, "theorems": theorems, "assumptions": assumptions, "log": out[-4000:], "printed": printed,
                "dir": d, "module": f"PVT.{d.name}.{PID}_recheck"}


def start_proofs(run: C.Run, tree: EventListTree, static_targets):
    """build the static part, then re-check Props/C01.v against the tree in the background (it takes a few
    seconds of coqc, mostly Print Assumptions) while the caller runs the histories; pass the result to check_proofs"""
    from concurrent.futures import ThreadPoolExecutor
    gate = C.source_gate()
    ok, log = C.build_coq(static_targets)
    thorough = run.tier == "thorough" and not os.environ.get("VERIF_NO_COQCHK")
    ex = ThreadPoolExecutor(max_workers=1)
    fut = ex.submit(tree.props_report, thorough)
    ex.shutdown(wait=False)
    return {"gate": gate, "ok": ok, "log": log, "thorough": thorough, "future": fut}


def check_proofs(run: C.Run, tree: EventListTree, static_targets, extra_tb=None, started=None) -> bool:
    """What common.Run.check_proofs does, with the part that depends on the source text (Gen_EventList,
    GenAgree, Props/C01.v) taken from the run's own tree directory."""
    st = started or start_proofs(run, tree, static_targets)
    gate, ok, log, thorough = st["gate"], st["ok"], st["log"], st["thorough"]
    rep = st["future"].result()
    n = len(rep["theorems"])
    run.cov["obligations"] = max(n, 1)
    run.cov["discharged"] = n if (ok and rep["ok"] and not gate) else 0
    run.cov["theorems"] = rep["theorems"]
    run.cov["axioms_per_theorem"] = rep["assumptions"]
    run.cov["source_translation"] = tree.coverage()
    rel = f".scratch/eventlist/trees/{tree.key}"
    run.cov["checker_cmd"] = (f"python3 translator/py2gallina_eventlist.py --out {rel} && python3 tools/build.py {' '.join(static_targets)} && "
                              f"coqc -R coq PV -R {rel} PVT <Gen_EventList.v, coq/EventList/GenAgree.v, coq/Props/C01.v> "
                              "(generated module imported from PVT; full .vo; Print Assumptions under every theorem)")
    axioms = sorted({a for v in rep["assumptions"].values() for a in v})
    tb = [C.KERNEL_TB,
          "axioms reported by Print Assumptions: " + (", ".join(axioms) if axioms else "none (all theorems closed under the global context)"),
          "hand-written Gallina model tied to /repo (a) by the per-run correspondence check (harness/c01.py) and (b) by equality with "
          "the model regenerated from the source text on every run (translator/py2gallina_eventlist.py + coq/EventList/GenAgree.v)",
          "the translator translator/py2gallina_eventlist.py: its Python subset and the meaning it gives to it (an entry tuple "
          "(t, -p, id, event) is the model's key, the event component never deciding a comparison; heapq.heappush/heappop/heapify "
          "are the heap-library operations; list.count / in / remove compare entries by ==; self.m() resolved statically; the class "
          "attribute __event_counter is read along the MRO and written on the class named; SimEvent.__init__ translated as a "
          "checked slice: its leading attribute assignments)"]
    run.cov["trusted_base"] = tb + list(extra_tb or [])
    good = ok and rep["ok"] and not gate
    if good and thorough:
        run.coqchk([rep["module"]], extra_roots=["-R", str(tree.dir), "PVT"])
    if thorough:
        shutil.rmtree(rep["dir"], ignore_errors=True)
    if gate:
        run.violation("forbidden-construct", "forbidden construct in the Coq development: " + "; ".join(gate[:5]),
                      {"lines": gate}, found_input=False)
        return False
    if not good:
        run.proof_log = (log[-2000:] if not ok else "") + rep["log"][-2000:]
        return False
    return True


def report_broken_tie(run: C.Run, tree: EventListTree, extra: dict | None = None):
    """the regenerated model no longer equals the proved one and no explored input violates the property itself"""
    b = tree.broken()
    if not b:
        return
    names = [t for t in b["theorems"] if t] or ["(none compiled: " + b["stage"] + ")"]
    what = ("the model regenerated from src/pydsol/core/simevent.py + eventlist.py is no longer proved equal to the model the "
            f"C01 theorems are about ({b['stage']}): " +
            (b["detail"][:300] if b["stage"] == "translation" else
             "agreement theorem(s) " + ", ".join(names[:6]) + " of coq/EventList/GenAgree.v no longer check") +
            "; the sorted-set / key-order oracle found no input on which the changed code violates the property")
    body = {"relation": "coq/EventList/GenAgree.v: " + ", ".join(names), "stage": b["stage"], "detail": b["detail"],
            "unchecked_theorems": names, "generated_file": str(tree.dir / "Gen_EventList.v"),
            "how": f"VERIF_REPO={C.REPO} python3 translator/py2gallina_eventlist.py --out <dir>; coqc -R coq PV -R <dir> PVT "
                   "<dir>/Gen_EventList.v, then coq/EventList/GenAgree.v with the generated module imported from PVT"}
    if b.get("failures"):
        body["translation_failures"] = b["failures"]
    body.update(extra or {})
    run.violation("translated-model-differs", what, body, found_input=False)
