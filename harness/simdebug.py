"""debug: python3 harness/simdebug.py C04 [n]  — show the first n model/impl disagreements"""
import sys, json, random, importlib
from pathlib import Path
sys.path.insert(0, str(Path(__file__).resolve().parent))
import common as C, simlib as S
pid = sys.argv[1]; n = int(sys.argv[2]) if len(sys.argv) > 2 else 3
mod = importlib.import_module(pid.lower())
rng = random.Random(C.seed() * 104729 + int(pid[1:]))
N = int(sys.argv[3]) if len(sys.argv) > 3 else 600
cases = [mod.gen_case(rng, i) for i in range(N)]
if hasattr(mod, "extra_cases"):
    cases += mod.extra_cases("quick")
obs = S.run_impl(cases)
codes, err = S.coq_compare(pid + "dbg", cases, obs)
print("err", err, "codes", {k: codes.count(k) for k in set(codes)})
shown = 0
for i, c in enumerate(codes):
    if c in (1, 3) and shown < n:
        shown += 1
        print("=" * 100); print(json.dumps(cases[i])); print("impl snaps", obs[i].get("snaps")); print("impl ntfs", obs[i].get("ntfs")); print("impl trace", obs[i].get("trace")); print("impl outs", obs[i].get("outs")); print("alive", obs[i].get("alive"), "notes", obs[i].get("notes"), obs[i].get("error"))
        if c == 1:
            print(S.coq_view(pid, cases[i], obs[i]))
