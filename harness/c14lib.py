"""Shared by the distribution checks (C14, C15): the model regenerated from the source (second tie).

Every run translates src/pydsol/core/distributions.py of the tree under test with
translator/py2gallina_dist.py into .scratch/dist/trees/<key>/Gen_Dist.v, compiles it and the agreement
proofs coq/Dist/GenAgree.v (copied there, generated module imported from the second logical root PVT)
and re-checks Props/<pid>.v against them.  <key> hashes the tree's distributions.py, the translator,
GenAgree.v and the model sources, so runs against different trees never share a generated file and a
finished directory is never stale.  coq/Dist/Gen_Dist.v (tools/regen.sh) is only for setup /
`build all` and is not touched here.
"""
from __future__ import annotations

import fcntl
import hashlib
import json
import os
import re
import shutil
import subprocess
import time
from pathlib import Path

import common as C

DIST_TREES = C.SCRATCH / "dist" / "trees"
TREE_LAYOUT = b"2"            # bump when the way a tree directory is filled changes
MODEL_VO = ["Dist/Num.vo", "Dist/Draw.vo", "Dist/Density.vo"]
_IMPORT = re.compile(r"^From PV Require Import ((?:Dist\.(?:Gen_Dist|GenAgree)\s*)+)\.\s*$", re.M)
_COQ_WARN = "-notation-overridden,-deprecated-hint-without-locality,-abstract-large-number,-inexact-float,-ambiguous-paths"
_THM = re.compile(r"^[ \t]*(?:Theorem|Lemma)\s+([A-Za-z0-9_']+)", re.M)
TRANSLATOR = "translator/py2gallina_dist.py"

CLASSES = ["DistBernoulli", "DistBeta", "DistBinomial", "DistConstant", "DistDiscreteUniform", "DistErlang",
           "DistExponential", "DistGamma", "DistGeometric", "DistLogNormal", "DistNegBinomial", "DistNormal",
           "DistNormalTrunc", "DistPearson5", "DistPearson6", "DistPoisson", "DistTriangular", "DistUniform",
           "DistWeibull"]
GROUP_OF = {"C14": "draw", "C15": "density"}
# which agreement theorems a property's transfer section rests on
_DENSITY_THM = re.compile(r"_probability(_density)?_eq$|_cumulative_probability(_not_truncated)?_eq$|"
                          r"_inverse_cumulative_probability(_not_truncated)?_eq$|^gen_(pdf|prob|cdf|icdf|call)_eq$|"
                          r"^dist_density_generated_agree$")
_C15_ALSO = re.compile(r"___init___eq$|^gen_ctor_eq$|^gen_Dist(Weibull|Exponential|Triangular|Uniform)_draw_eq$|^fv_val$|"
                       r"^gen_Distribution__next_open_float_eq$|^gen_nof_loop_eq$")


def tree_source(text: str) -> str:
    return _IMPORT.sub(lambda m: "From PVT Require Import " + " ".join(x.replace("Dist.", "") for x in m.group(1).split()) + ".", text)


def _coqc_tree(tree: Path, path: Path, timeout: int = 600):
    cmd = ["timeout", str(timeout), "coqc", "-R", str(C.COQ), "PV", "-R", str(tree), "PVT", "-w", _COQ_WARN, str(path)]
    p = subprocess.run(cmd, capture_output=True, text=True, cwd=path.parent)
    return p.returncode, p.stdout + p.stderr


def class_of_theorem(name: str):
    m = re.match(r"gen_(Dist[A-Za-z0-9]+?)_", name or "")
    return m.group(1) if m and m.group(1) in CLASSES else None


class DistTree:
    """Gen_Dist.v / GenAgree.v of the tree under test, built in a directory of their own."""

    def __init__(self):
        src = C.REPO / "src" / "pydsol" / "core" / "distributions.py"
        h = hashlib.sha1(str(C.REPO.resolve()).encode() + b"\0" + TREE_LAYOUT + b"\0")
        for f in [src, C.VERIF / TRANSLATOR, C.COQ / "Dist" / "GenAgree.v"] + [C.COQ / v[:-1] for v in MODEL_VO]:
            try:
                h.update(f.read_bytes())
            except OSError:
                h.update(b"<missing>")
            h.update(b"\0")
        self.key = h.hexdigest()[:16]
        self.dir = DIST_TREES / self.key
        self.info: dict = {}
        self.failed_theorems: list[dict] = []       # agreement theorems that no longer check
        self.gen_error = ""                          # Gen_Dist.v itself does not compile
        self.timing: dict = {}

    # -- translation + compilation (once per key; later runs only re-check freshness)
    def prepare(self):
        self.dir.mkdir(parents=True, exist_ok=True)
        t0 = time.time()
        with open(self.dir / ".lock", "w") as lk:
            fcntl.flock(lk, fcntl.LOCK_EX)
            try:
                self._translate()
                ok, log = C.build_coq(MODEL_VO)
                if not ok:
                    raise RuntimeError("the hand-written model files do not build: " + log[-800:])
                self._build()
            finally:
                fcntl.flock(lk, fcntl.LOCK_UN)
        self._sweep()
        self.timing["prepare_s"] = round(time.time() - t0, 2)
        return self

    def _translate(self):
        j = self.dir / "Gen_Dist.json"
        if not j.exists():
            t0 = time.time()
            env = dict(os.environ)
            env["VERIF_REPO"] = str(C.REPO)
            env["PYTHONDONTWRITEBYTECODE"] = "1"
            p = subprocess.run(["timeout", "120", C.PY, str(C.VERIF / TRANSLATOR), "--out", str(self.dir), "--keep-going"],
                               capture_output=True, text=True, env=env)
            (self.dir / "translator.log").write_text(p.stdout + p.stderr)
            if not j.exists():
                j.write_text(json.dumps({"ok": False, "repo": str(C.REPO), "methods": [], "translated": [], "failures": [
                    {"class": None, "group": None, "line": 0, "construct": "translator crashed",
                     "error": f"translator exit {p.returncode}: " + (p.stderr or p.stdout)[-1500:]}]}))
            self.timing["translate_s"] = round(time.time() - t0, 2)
        self.info = json.loads(j.read_text())
        if Path(self.info.get("repo", "")).resolve() != C.REPO.resolve():
            raise RuntimeError(f"translator read {self.info.get('repo')} but the check runs against {C.REPO}")

    def _fresh(self, vo: Path, v: Path, deps) -> bool:
        return vo.exists() and vo.stat().st_mtime_ns >= v.stat().st_mtime_ns and \
            all(d.exists() and d.stat().st_mtime_ns <= vo.stat().st_mtime_ns for d in deps)

    def _build(self):
        static = [C.COQ / v for v in MODEL_VO]
        gv, gvo = self.dir / "Gen_Dist.v", self.dir / "Gen_Dist.vo"
        av, avo = self.dir / "GenAgree.v", self.dir / "GenAgree.vo"
        state = self.dir / "agree_state.json"
        self.gen_error, self.failed_theorems = "", []
        if not gv.exists():
            self.gen_error = "no Gen_Dist.v (translation failed)"
            return
        if not self._fresh(gvo, gv, static):
            t0 = time.time()
            rc, out = _coqc_tree(self.dir, gv, timeout=300)
            self.timing["coqc_gen_s"] = round(time.time() - t0, 2)
            if rc != 0:
                gvo.unlink(missing_ok=True)
                self.gen_error = out[-2500:]
                return
        if self._fresh(avo, av, [gvo] + static) and state.exists():
            self.failed_theorems = json.loads(state.read_text())
            return
        t0 = time.time()
        text = tree_source((C.COQ / "Dist" / "GenAgree.v").read_text())
        self.failed_theorems = []
        seen = {}

        def note(name, why):
            if name not in seen:
                seen[name] = 0
                self.failed_theorems.append({"theorem": name, "why": why})

        # items that mention a definition the translator did not produce cannot check: drop them (and what uses them) first
        defined = set(re.findall(r"^\s*(?:Definition|Fixpoint)\s+(gen_[A-Za-z0-9_']+)", gv.read_text(), re.M))
        own = {n for _k, n, _a, _b in self._items(text)}
        wanted = set(re.findall(r"\bgen_Dist[A-Za-z0-9_']*|\bgen_Distribution[A-Za-z0-9_']*", text))
        missing = {w for w in wanted if w not in defined and w not in own}
        if missing:
            pat = re.compile(r"\b(" + "|".join(sorted(re.escape(m) for m in missing)) + r")\b")
            for kind, name, _a, _b in self._items(text):
                body = self._item_text(text, name)
                m = pat.search(body)
                if m:
                    note(name, f"{m.group(1)} is not in the generated file (translation failed or its name changed)")
                    seen[name] = 2
                    text = self._drop(text, name)
            text = self._cascade(text, [f["theorem"] for f in self.failed_theorems], note, seen)
        surveyed = False
        for _ in range(60):
            av.write_text(text)
            rc, out = _coqc_tree(self.dir, av, timeout=600)
            if rc == 0:
                break
            if not surveyed:
                # one pass of the toplevel (it goes on after an error) finds ALL theorems that no longer check, so
                # that several independent failures cost two compilations, not one each
                surveyed = True
                t1 = time.time()
                bad = self._survey(text)
                self.timing["survey_s"] = round(time.time() - t1, 2)
                for name, why in bad:
                    if seen.get(name, 0) >= 1:
                        continue
                    note(name, why)
                    seen[name] = 1
                    text = self._abort(text, name)
                if bad:
                    text = self._cascade(text, [n for n, _w in bad], note, seen)
                    continue
            m = re.search(r'File "[^"]*GenAgree\.v", line (\d+)', out)
            item = self._item_at(text, int(m.group(1))) if m else None
            err = re.sub(r"\s+", " ", out[out.find("Error"):])[:600]
            if item is None or seen.get(item[1], 0) >= 2:
                avo.unlink(missing_ok=True)
                note("GenAgree.v", out[-1500:])
                break
            kind, name = item[0], item[1]
            note(name, err)
            seen[name] += 1
            # first the proof is given up (the statement stays, nothing is defined); if the statement itself does not
            # check any more (it mentions something given up before), the whole item goes.  Whatever uses the item
            # in its proof is given up in the same round (each round costs one compilation).
            if kind in ("Theorem", "Lemma") and seen[name] == 1:
                text = self._abort(text, name)
            else:
                text = self._drop(text, name)
            text = self._cascade(text, [name], note, seen)
        state.write_text(json.dumps(self.failed_theorems))
        self.timing["coqc_agree_s"] = round(time.time() - t0, 2)

    def _survey(self, text: str):
        """[(theorem, first error)] of every Theorem / Lemma that the toplevel cannot define, found in ONE pass:
        coqtop reads the file from stdin and goes on after an error; after every Qed an `Abort.` closes a proof that
        did not check (an error, and harmless, when it did), and `Check <name>.` tells whether the name exists."""
        out, pos = [], 0
        names = []
        for kind, name, a, b in self._items(text):
            if kind not in ("Theorem", "Lemma") or "Proof. Abort. (* no longer checks *)" in text[a:b]:
                continue
            out.append(text[pos:a])
            out.append(f"Check (fun SURVEY_BEGIN_{name} : nat => SURVEY_BEGIN_{name}).\n")
            out.append(text[a:b])
            out.append(f"\nAbort.\nCheck {name}.\nCheck (fun SURVEY_END_{name} : nat => SURVEY_END_{name}).\n")
            pos = b
            names.append(name)
        out.append(text[pos:])
        cmd = ["timeout", "600", "coqtop", "-q", "-R", str(C.COQ), "PV", "-R", str(self.dir), "PVT", "-w", _COQ_WARN]
        try:
            p = subprocess.run(cmd, input="".join(out), stdout=subprocess.PIPE, stderr=subprocess.STDOUT, text=True, cwd=self.dir)
        except OSError:
            return []
        log = p.stdout
        bad = []
        for name in names:
            i, j = log.find(f"SURVEY_BEGIN_{name} "), log.find(f"SURVEY_END_{name} ")
            if i < 0 or j < 0:
                continue                    # the pass did not get here: left to the compile loop
            seg = log[i:j]
            if re.search(r"The reference " + re.escape(name) + r" was not found", seg):
                m = re.search(r"Error:.*?(?=\n\S*\s*<|\Z)", seg, re.S)
                bad.append((name, re.sub(r"\s+", " ", m.group(0) if m else "does not check")[:600]))
        return bad

    _ITEM = re.compile(r"^[ \t]*(Theorem|Lemma|Definition|Fixpoint|Ltac)\s+([A-Za-z0-9_']+)", re.M)

    @classmethod
    def _items(cls, text: str):
        """(kind, name, start, end) of every theorem (up to its Qed) and definition (up to its full stop)"""
        out = []
        for m in cls._ITEM.finditer(text):
            if out and m.start() < out[-1][3]:
                continue
            if m.group(1) in ("Theorem", "Lemma"):
                q = re.compile(r"\b(?:Qed|Abort)\.").search(text, m.end())
            else:
                q = re.compile(r"\.(?=\s|$)").search(text, m.end())
            out.append((m.group(1), m.group(2), m.start(), q.end() if q else len(text)))
        return out

    def _item_text(self, text: str, name: str) -> str:
        for _k, n, a, b in self._items(text):
            if n == name:
                return text[a:b]
        return ""

    def _item_at(self, text: str, line: int):
        pos = sum(len(l) + 1 for l in text.split("\n")[:line - 1])
        best = None
        for it in self._items(text):
            if it[2] <= pos + 1:
                best = it
        return best

    def _abort(self, text: str, name: str) -> str:
        """the same file with the proof of one theorem given up (statement kept, nothing defined)"""
        for _k, n, a, b in self._items(text):
            if n == name:
                body = text[a:b]
                i = body.find("Proof.")
                if i < 0:
                    return self._drop(text, name)
                return text[:a] + body[:i] + "\n" * body[i:].count("\n") + "Proof. Abort. (* no longer checks *)" + text[b:]
        return text

    def _drop(self, text: str, name: str) -> str:
        for _k, n, a, b in self._items(text):
            if n == name:
                keep_lines = "\n" * text[a:b].count("\n")
                return text[:a] + f"(* {name}: no longer checks, left out *)" + keep_lines + text[b:]
        return text

    def _cascade(self, text: str, gone: list, note, seen) -> str:
        """give up, transitively, every theorem whose PROOF mentions something that is gone, and drop every item
        whose STATEMENT / definition body mentions it"""
        work = list(gone)
        handled = set()
        while work:
            g = work.pop()
            pat = re.compile(r"\b" + re.escape(g) + r"\b")
            again = True
            while again:
                again = False
                for kind, name, a, b in self._items(text):          # offsets are valid until the text changes
                    if name == g or (name, g) in handled:
                        continue
                    body = text[a:b]
                    if not pat.search(body):
                        continue
                    handled.add((name, g))
                    is_thm = kind in ("Theorem", "Lemma")
                    i = body.find("Proof.")
                    in_stmt = bool(pat.search(body[:i])) if (is_thm and i >= 0) else True
                    aborted = is_thm and "Proof. Abort. (* no longer checks *)" in body
                    if in_stmt:
                        note(name, f"its statement / body mentions {g}, which no longer checks")
                        seen[name] = 2
                        text = self._drop(text, name)
                    elif aborted:
                        continue
                    else:
                        note(name, f"uses {g}, which no longer checks")
                        seen[name] = max(seen.get(name, 0), 1)
                        text = self._abort(text, name)
                    work.append(name)
                    again = True
                    break
        return text

    def _sweep(self):
        try:
            for d in DIST_TREES.iterdir():
                if d.is_dir() and d != self.dir and time.time() - d.stat().st_mtime > 86400:
                    shutil.rmtree(d, ignore_errors=True)
            os.utime(self.dir)
        except OSError:
            pass

    # -- what a check needs to know
    def agreement_theorems(self):
        return _THM.findall((C.COQ / "Dist" / "GenAgree.v").read_text())

    def _mine(self, pid: str, name: str) -> bool:
        if name == "GenAgree.v":
            return True
        dens = bool(_DENSITY_THM.search(name))
        if pid == "C15":
            return dens or bool(_C15_ALSO.search(name))
        return not dens

    def hand_transcribed_only(self, pid: str):
        """classes (of this property's method group) that the translator had to leave out"""
        g = GROUP_OF[pid]
        out = []
        for f in self.info.get("failures", []):
            if f.get("class") is None:
                return sorted(CLASSES)
            if f.get("group") in (g, "draw"):
                out.append(f["class"])
        return sorted(set(out))

    def broken_classes(self, pid: str):
        out = set(self.hand_transcribed_only(pid))
        for f in self.failed_theorems:
            if self._mine(pid, f["theorem"] or ""):
                c = class_of_theorem(f["theorem"] or "")
                if c:
                    out.add(c)
        return sorted(out)

    def broken_for(self, pid: str):
        """None when the regenerated model of this property's methods is proved equal to the hand-written one;
        otherwise a description of what no longer checks."""
        g = GROUP_OF[pid]
        fails = [f for f in self.info.get("failures", []) if f.get("class") is None or f.get("group") in (g, "draw")]
        thms = [f for f in self.failed_theorems if self._mine(pid, f["theorem"] or "")]
        if self.gen_error and not fails:
            return {"stage": "generated file does not compile", "detail": self.gen_error[-1200:], "theorems": [], "classes": []}
        if fails:
            return {"stage": "translation", "detail": "; ".join(f["error"] for f in fails),
                    "theorems": [t["theorem"] for t in thms], "failures": fails, "classes": self.broken_classes(pid)}
        if thms:
            first = next((t for t in thms if "which no longer checks" not in t["why"]), thms[0])
            return {"stage": "agreement proof", "detail": first["why"], "theorems": [t["theorem"] for t in thms],
                    "first": first["theorem"], "classes": self.broken_classes(pid)}
        return None

    def source_lines_of(self, theorem: str):
        """file:line range of the source method an agreement theorem is about"""
        m = re.match(r"(gen_Dist[A-Za-z0-9]+?_.*?)(_loop\d+)?_eq$", theorem or "")
        if not m:
            return None
        stem = m.group(1).replace("___init__", "___init__")
        for r in self.info.get("methods", []):
            if r["definition"] == stem or r["definition"] == stem + "_":
                return f"{self.info.get('source')}:{r['lines'][0]}-{r['lines'][1]}"
        return None

    def coverage(self, pid: str) -> dict:
        g = GROUP_OF[pid]
        names = set(groups_methods(g))
        ms = [m for m in self.info.get("methods", []) if pid == "C14" and not _is_density_method(m["method"])
              or pid == "C15" and (_is_density_method(m["method"]) or m["method"] == "__init__")]
        h = hashlib.sha1()
        for m in sorted(ms, key=lambda r: (r["lines"][0], r["definition"])):
            h.update((m["definition"] + ":" + m["sha1"] + "\n").encode())
        done = sorted({t["class"] for t in self.info.get("translated", []) if t["group"] == g})
        return {"translator": TRANSLATOR + " (Python ast, fail-closed; module under test not imported)",
                "source": self.info.get("source"), "source_sha1": self.info.get("source_sha1"),
                "tree_directory": f".scratch/dist/trees/{self.key}",
                "translated_classes": done,
                "hand_transcribed_only": self.hand_transcribed_only(pid) +
                ["(all classes) _set_stream as a separate re-pointing operation, the quantity wrappers of units.py, "
                 "pydsol.core.utils.beta / erf_inv, MersenneTwister.next_int: enter as hand-written primitives"],
                "translated_methods": [{"method": f"{m['class']}.{m['method']}", "lines": m["lines"], "definition": m["definition"],
                                        "monad": m.get("monad"), "recursive_definitions": m.get("recursive_definitions", [])}
                                       for m in ms],
                "translated_text_sha1": h.hexdigest() if ms else None,
                "translated_text_sha1_all_methods": self.info.get("translated_text_sha1"),
                "translation_failures": self.info.get("failures", []),
                "agreement_theorems": [n for n in self.agreement_theorems() if self._mine(pid, n)],
                "agreement_theorems_not_checking": [f for f in self.failed_theorems if self._mine(pid, f["theorem"] or "")],
                "timing": self.timing}

    def props_report(self, pid: str, keep: bool = False) -> dict:
        """re-check coq/Props/<pid>.v against the generated model of this tree; theorem names and axioms"""
        text = tree_source((C.COQ / "Props" / f"{pid}.v").read_text())
        theorems = re.findall(r"^\s*Theorem\s+([A-Za-z0-9_']+)", text, re.M)
        printed = re.findall(r"^\s*Print Assumptions\s+([A-Za-z0-9_']+)", text, re.M)
        d = self.dir / f"props_{pid}_{os.getpid()}"
        d.mkdir(exist_ok=True)
        f = d / f"{pid}_recheck.v"
        f.write_text(text)
        t0 = time.time()
        rc, out = _coqc_tree(self.dir, f, timeout=900)
        self.timing[f"coqc_props_{pid}_s"] = round(time.time() - t0, 2)
        if not keep:
            shutil.rmtree(d, ignore_errors=True)
        blocks = [b for b in re.split(r"(?=Closed under the global context|Axioms:)", out)
                  if b.startswith("Closed under the global context") or b.startswith("Axioms:")]
        assumptions = {}
        for name, b in zip(printed, blocks):
            assumptions[name] = [] if b.startswith("Closed") else \
                sorted(set(re.findall(r"^([A-Za-z_][A-Za-z0-9_'.]*)\s*:", b, re.M)))
        return {"ok": rc == 0, "theorems": theorems, "assumptions": assumptions, "log": out[-4000:], "printed": printed,
                "dir": d, "module": f"PVT.{d.name}.{pid}_recheck"}


def _is_density_method(m: str) -> bool:
    return m in ("probability_density", "probability", "cumulative_probability", "inverse_cumulative_probability",
                 "cumulative_probability_not_truncated", "inverse_cumulative_probability_not_truncated")


def groups_methods(g: str):
    return ["__init__", "draw"] if g == "draw" else ["probability_density", "probability", "cumulative_probability",
                                                     "inverse_cumulative_probability"]


def check_proofs(run: C.Run, tree: DistTree, static_targets, extra_tb=None) -> bool:
    """What common.Run.check_proofs does, with the part that depends on the source text (Gen_Dist, GenAgree,
    the last section of Props/<pid>.v) taken from the run's own tree directory."""
    gate = C.source_gate()
    ok, log = C.build_coq(static_targets)
    thorough = run.tier == "thorough" and not os.environ.get("VERIF_NO_COQCHK")
    rep = tree.props_report(run.pid, keep=thorough)
    n = len(rep["theorems"])
    run.cov["obligations"] = max(n, 1)
    run.cov["discharged"] = n if (ok and rep["ok"] and not gate) else 0
    run.cov["theorems"] = rep["theorems"]
    run.cov["axioms_per_theorem"] = rep["assumptions"]
    run.cov["source_translation"] = tree.coverage(run.pid)
    rel = f".scratch/dist/trees/{tree.key}"
    run.cov["checker_cmd"] = (f"python3 {TRANSLATOR} --out {rel} && python3 tools/build.py {' '.join(static_targets)} && "
                              f"coqc -R coq PV -R {rel} PVT <Gen_Dist.v, coq/Dist/GenAgree.v, coq/Props/{run.pid}.v> "
                              "(generated module imported from PVT; full .vo; Print Assumptions under every theorem)")
    axioms = sorted({a for v in rep["assumptions"].values() for a in v})
    tb = [C.KERNEL_TB,
          "axioms reported by Print Assumptions: " + (", ".join(axioms) if axioms else "none (all theorems closed under the global context)"),
          "hand-written Gallina model tied to /repo (a) by the per-run correspondence check (harness/%s.py) and (b) by "
          "equality with the model regenerated from the source text on every run (translator/py2gallina_dist.py + "
          "coq/Dist/GenAgree.v)" % run.pid.lower(),
          "the translator translator/py2gallina_dist.py: its Python subset and the meaning it gives to it (every / ** math.* call "
          "is a bind in Python's evaluation order, loops on explicit fuel, self.m() / super().m() resolved statically along the "
          "single-inheritance chain, constructor parameters range over the model's value universe float / int / other, an int "
          "stored in a float-typed record field is converted), and its table saying which record field stands for which attribute; "
          "pydsol.core.utils.beta / erf_inv and MersenneTwister.next_int enter as hand-written primitives"]
    run.cov["trusted_base"] = tb + list(extra_tb or [])
    good = ok and rep["ok"] and not gate
    if good and thorough:
        run.coqchk([rep["module"]], extra_roots=["-R", str(tree.dir), "PVT"])
    if thorough:
        shutil.rmtree(rep["dir"], ignore_errors=True)
    if gate:
        run.violation("forbidden-construct", "forbidden construct in the Coq development: " + "; ".join(gate[:5]),
                      {"lines": gate}, found_input=False)
        return False
    if not good:
        run.proof_log = (log[-2000:] if not ok else "") + rep["log"][-2000:]
        return False
    return True


def report_broken_tie(run: C.Run, tree: DistTree, oracle_name: str, extra: dict | None = None):
    """the regenerated model no longer equals the proved one and no explored input violates the property itself"""
    b = tree.broken_for(run.pid)
    if not b:
        return
    names = [t for t in b["theorems"] if t] or ["(none compiled: " + b["stage"] + ")"]
    first = b.get("first") or names[0]
    where = tree.source_lines_of(first)
    what = ("the model regenerated from src/pydsol/core/distributions.py is no longer proved equal to the model the "
            f"{run.pid} theorems are about ({b['stage']}): " +
            (b["detail"][:300] if b["stage"] != "agreement proof" else
             "agreement theorem " + first + " of coq/Dist/GenAgree.v no longer checks" + (f" (source {where})" if where else "") +
             (", and with it " + ", ".join(n for n in names if n != first)[:400] if len(names) > 1 else "")) +
            f"; {oracle_name} found no input on which the changed code violates the property")
    body = {"relation": "coq/Dist/GenAgree.v: " + ", ".join(names), "stage": b["stage"], "detail": b["detail"],
            "first_unchecked_theorem": first, "source_of_first_unchecked_theorem": where,
            "unchecked_theorems": names, "classes": b.get("classes", []), "generated_file": str(tree.dir / "Gen_Dist.v"),
            "how": f"VERIF_REPO={C.REPO} python3 {TRANSLATOR} --out <dir>; coqc -R coq PV -R <dir> PVT "
                   "<dir>/Gen_Dist.v, then coq/Dist/GenAgree.v with the generated module imported from PVT"}
    if b.get("failures"):
        body["translation_failures"] = b["failures"]
    body.update(extra or {})
    run.violation("translated-model-differs", what, body, found_input=False)
