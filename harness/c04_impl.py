"""Implementation-side driver for C04 (simulator lifecycle).

Reads a JSON list of cases on stdin, runs each on the real DEVS simulators of
the pydsol-core tree on sys.path (fresh interpreter, see common.child_env) and
prints a JSON list of observations.

Two kinds of cases:

* kind "seq": commands issued by the main thread, each one only after the
  simulator is *strictly* quiescent: every live run thread of this simulator is
  blocked in its wait with the wake-up flag down (or has terminated).  Looking
  at run_state alone is not enough: STOPPED is written a few bytecodes before
  the run thread clears its wake-up flag, and a command issued in between is an
  overlap case, not a sequential one.
* kind "overlap": a run is started, a *gate* (a listener or a model handler
  that blocks the thread it is called on until a condition on the shared state
  holds) stops the run thread at a chosen point, the main thread issues the
  overlapping command (which may pass gates of its own), everything is
  released and the quiescent outcome is recorded.

Times are integers in quarter time units ("nan" = not a number).
"""
import io
import json
import logging
import math
import sys
import threading
import time

QUIET = ("NOT_INITIALIZED", "INITIALIZED", "STOPPED", "ENDED")


def main():
    cases = json.load(sys.stdin)
    real_out = sys.stdout
    sys.stdout = io.StringIO()
    sys.stderr = io.StringIO()
    logging.disable(logging.CRITICAL)
    res = []
    for idx, case in enumerate(cases):
        sys.stdout.seek(0); sys.stdout.truncate(0)
        sys.stderr.seek(0); sys.stderr.truncate(0)
        try:
            res.append(run_case(case, f"c04sim{idx}"))
        except Exception as exc:  # harness-level failure
            import traceback
            res.append({"error": f"{type(exc).__name__}: {exc}", "tb": traceback.format_exc()[-1500:]})
    real_out.write(json.dumps(res))


def run_case(case, name):
    from pydsol.core.experiment import SingleReplication
    from pydsol.core.interfaces import SimulatorInterface, ReplicationInterface
    from pydsol.core.model import DSOLModel
    from pydsol.core.pubsub import EventListener
    from pydsol.core.simulator import (DEVSSimulatorFloat, DEVSSimulatorInt, DEVSSimulatorDuration,
                                       ErrorStrategy, SimulatorWorkerThread)
    from pydsol.core.units import Duration
    from pydsol.core.utils import DSOLError

    ck = case.get("clock", "float")

    def to_time(q):
        if q == "nan":
            return Duration(float("nan")) if ck == "dur" else float("nan")
        if ck == "int":
            assert q % 4 == 0, q
            return q // 4
        if ck == "float":
            return q / 4.0
        if ck == "dur":
            return Duration(q / 4.0, "s")
        raise ValueError(ck)

    def to_q(t):
        x = float(t) * 4
        if x != x or math.isinf(x) or x != int(x):
            return ["nonint", repr(t)]
        return int(x)

    sim = {"int": DEVSSimulatorInt, "float": DEVSSimulatorFloat, "dur": DEVSSimulatorDuration}[ck](name)
    sim.set_error_strategy({"log": ErrorStrategy.LOG_AND_CONTINUE, "warn": ErrorStrategy.WARN_AND_CONTINUE,
                            "pause": ErrorStrategy.WARN_AND_PAUSE,
                            "end": ErrorStrategy.WARN_AND_END}[case.get("strategy", "pause")])

    rec = {"trace": [], "outs": [], "ntfs": [], "snaps": [], "notes": [], "log": []}
    prog = case["prog"]
    construct_fails = set(case.get("construct_fails", []))     # 1-based numbers of the construct_model calls that raise
    nconstruct = [0]
    cur_cmd = [None]                              # the command the main thread issued last
    lcmds = case.get("lcmds", [])                 # commands issued from listeners
    lcount = [0] * len(lcmds)
    tls = threading.local()
    slow_ms = case.get("slow_handler_ms", 0)      # each handler takes that long (keeps a free-running model slow)
    lock = threading.Lock()

    NT = [(ReplicationInterface.START_REPLICATION_EVENT, "startrepl"),
          (SimulatorInterface.STARTING_EVENT, "starting"),
          (SimulatorInterface.START_EVENT, "start"),
          (SimulatorInterface.TIME_CHANGED_EVENT, "time"),
          (ReplicationInterface.WARMUP_EVENT, "warmup"),
          (SimulatorInterface.STOPPING_EVENT, "stopping"),
          (SimulatorInterface.STOP_EVENT, "stop"),
          (ReplicationInterface.END_REPLICATION_EVENT, "endrepl")]
    names = {id(et): nm for et, nm in NT}

    # ------------------------------------------------------------------ shared-state probes
    def workers():
        return [t for t in threading.enumerate() if isinstance(t, SimulatorWorkerThread) and t._job is sim]

    def flag_of(w):
        return w._SimulatorWorkerThread__wakeup_flag

    def blocked(w):
        return w.is_waiting() and not flag_of(w).is_set()

    def cur_worker():
        return getattr(sim, "_Simulator__worker", None)

    def strictly_quiet():
        return all(blocked(w) for w in workers() if w.is_alive())

    def settle(timeout=4.0):
        """wait until every live run thread of this simulator is blocked in its wait (twice in a row)"""
        t0 = time.time()
        hits = 0
        while time.time() - t0 < timeout:
            if strictly_quiet():
                hits += 1
                if hits >= 2:
                    return True
            else:
                hits = 0
            time.sleep(0.0003)
        return False

    def on_worker_thread():
        return isinstance(threading.current_thread(), SimulatorWorkerThread)

    # ------------------------------------------------------------------ gates (overlap cases)
    gates = case.get("gates", [])
    gstate = [{"reached": False, "passed": False, "count": 0, "timeout": False, "seen": None} for _ in gates]
    progress = {"main_returned": False, "release_all": False}

    def cond_holds(c):
        k = c[0]
        if k == "rs":
            return sim.run_state.name == c[1]
        if k == "ps":
            return sim.replication_state.name == c[1]
        if k == "flag":
            w = cur_worker()
            return w is not None and flag_of(w).is_set()
        if k == "wdead":
            return all(not w.is_alive() for w in workers())
        if k == "reached":
            return gstate[c[1]]["reached"]
        if k == "passed":
            return gstate[c[1]]["passed"]
        if k == "main_returned":
            return progress["main_returned"]
        if k == "never":                       # the gate holds for its whole timeout (a slow subscriber)
            return False
        if k == "and":
            return all(cond_holds(x) for x in c[1:])
        if k == "or":
            return any(cond_holds(x) for x in c[1:])
        raise ValueError(c)

    def gate_point(kind, key):
        """called at every potential gate point; blocks the calling thread if a gate is registered here"""
        for gi, g in enumerate(gates):
            at = g["at"]
            if at[0] != kind or at[1] != key:
                continue
            st = gstate[gi]
            st["count"] += 1
            if st["count"] != at[2] or st["reached"]:
                continue
            if g.get("thread") and (g["thread"] == "worker") != on_worker_thread():
                st["count"] -= 1
                continue
            st["seen"] = [sim.run_state.name, sim.replication_state.name, "w" if on_worker_thread() else "m"]
            st["reached"] = True
            t0 = time.time()
            lim = g.get("timeout", 4.0)
            while not progress["release_all"] and not cond_holds(g["until"]):
                if time.time() - t0 > lim:
                    st["timeout"] = True
                    break
                time.sleep(0.0002)
            if g.get("delay") and not progress["release_all"]:
                time.sleep(g["delay"])      # lets the other thread finish the few bytecodes up to its wait loop
            st["passed"] = True

    class Collector(EventListener):
        def notify(self, event):
            nm = names.get(id(event.event_type), "other")
            ts = getattr(event, "timestamp", None)
            q = None if ts is None else to_q(ts)
            with lock:
                rec["ntfs"].append([nm, q])
                # ... with the states a listener sees at this moment and the command of the main thread in progress
                rec["log"].append(["ntf", nm, q, "w" if on_worker_thread() else "m", sim.run_state.name,
                                   sim.replication_state.name, cur_cmd[0]])
            if gates:
                gate_point("ntf", nm)
            if lcmds and not getattr(tls, "busy", False):
                # commands issued from inside a listener (on whichever thread delivers the notification),
                # only in the states the case asks for
                for li, lc in enumerate(lcmds):
                    if lc["ntf"] != nm or lcount[li] >= lc.get("max", 3):
                        continue
                    if lc.get("when_rs") and sim.run_state.name not in lc["when_rs"]:
                        continue
                    if lc.get("when_cmd") and cur_cmd[0] not in lc["when_cmd"]:
                        continue
                    if lc.get("when_ps") and sim.replication_state.name not in lc["when_ps"]:
                        continue
                    lcount[li] += 1
                    tls.busy = True
                    try:
                        before = [sim.run_state.name, sim.replication_state.name, to_q(sim.simulator_time),
                                  sim.eventlist().size(), len(rec["ntfs"])]
                        r = issue(lc["cmd"])
                        after = [sim.run_state.name, sim.replication_state.name, to_q(sim.simulator_time),
                                 sim.eventlist().size(), len(rec["ntfs"])]
                    finally:
                        tls.busy = False
                    with lock:
                        rec["log"].append(["lcmd", lc["cmd"], r, before, after, nm, "w" if on_worker_thread() else "m"])

    coll = Collector()

    def subscribe():
        for et, _ in NT:
            sim.add_listener(et, coll)

    def issue(c):
        """issue a command; returns 'ok' | 'refused' | 'exc:<Type>'"""
        try:
            k = c[0]
            if k == "init":
                st, wm, en = c[1], c[2], c[3]
                r = SingleReplication("rep", to_time(st), to_time(wm - st), to_time(en - st))
                sim.initialize(model, r)
            elif k == "initbad":
                sim.initialize("not a model", SingleReplication("rep", to_time(0), to_time(0), to_time(40)))
            elif k == "start":
                sim.start()
            elif k == "step":
                sim.step()
            elif k == "stop":
                sim.stop()
            elif k == "runupto":
                sim.run_up_to(to_time(c[1]))
            elif k == "runuptoincl":
                sim.run_up_to_including(to_time(c[1]))
            elif k == "endrepl":
                sim.end_replication()
            elif k == "cleanup":
                sim.cleanup()
            else:
                raise ValueError(k)
            return "ok"
        except DSOLError:
            return "refused"
        except Exception as exc:  # noqa
            return "exc:" + type(exc).__name__

    class ProgModel(DSOLModel):
        def __init__(self, simulator):
            super().__init__(simulator)
            self.created = []

        def construct_model(self):
            self.created = []
            self.interp(0)
            nconstruct[0] += 1
            if nconstruct[0] in construct_fails:
                # the model's own construction fails (after the simulator has created its run thread)
                raise RuntimeError("construct_model failed")

        def handle(self, h, k):
            with lock:
                rec["trace"].append([k, to_q(sim.simulator_time)])
                rec["log"].append(["exec", k, to_q(sim.simulator_time)])
            if gates:
                gate_point("exec", k)
            if slow_ms:
                time.sleep(slow_ms / 1000.0)
            self.interp(h)

        def interp(self, h):
            for a in (prog[h] if h < len(prog) else []):
                kind = a[0]
                if kind == "sched":
                    mode, prio, hh = a[1], a[2], a[3]
                    kw = {"h": hh, "k": len(self.created)}
                    try:
                        if mode[0] == "now":
                            e = sim.schedule_event_now(self, "handle", prio, **kw)
                        elif mode[0] == "rel":
                            e = sim.schedule_event_rel(to_time(mode[1]), self, "handle", prio, **kw)
                        else:
                            e = sim.schedule_event_abs(to_time(mode[1]), self, "handle", prio, **kw)
                        self.created.append(e)
                        rec["outs"].append("acc")
                    except DSOLError:
                        rec["outs"].append("ref")
                    except Exception as exc:  # noqa
                        rec["outs"].append("exc:" + type(exc).__name__)
                elif kind == "cancel":
                    if a[1] < len(self.created):
                        sim.cancel_event(self.created[a[1]])
                elif kind == "fail":
                    raise RuntimeError("injected fault")
                elif kind == "cmd":
                    before = [sim.run_state.name, sim.replication_state.name, to_q(sim.simulator_time),
                              sim.eventlist().size(), len(rec["ntfs"])]
                    r = issue(a[1])
                    after = [sim.run_state.name, sim.replication_state.name, to_q(sim.simulator_time),
                             sim.eventlist().size(), len(rec["ntfs"])]
                    rec["outs"].append({"ok": "cmdok", "refused": "cmdref"}.get(r, r))
                    with lock:
                        rec["log"].append(["icmd", a[1], r, before, after])
                elif kind == "obs":
                    pass
                else:
                    raise ValueError(kind)

    model = ProgModel(sim)
    subscribe()

    def snapshot(c, r, quiet):
        live = sum(1 for w in workers() if w.is_alive())
        sn = [r, sim.run_state.name, sim.replication_state.name, to_q(sim.simulator_time),
              sim.eventlist().size(), live, None if quiet is None else bool(quiet)]
        rec["snaps"].append(sn)
        first = sim.eventlist().peek_first()
        with lock:
            rec["log"].append(["cmd", c] + sn)
            rec["log"].append(["pmin", None if first is None else to_q(first.time)])

    rapid = bool(case.get("rapid"))

    def issue_top(c):
        """a command issued by the main thread; the moment it returns is marked in the log"""
        with lock:
            rec["log"].append(["call", c])
        cur_cmd[0] = c[0]
        t1 = time.time()
        r = issue(c)
        with lock:
            rec["log"].append(["ret", c, r, round(time.time() - t1, 3), sim.run_state.name,
                               sim.replication_state.name])
        return r

    def run_seq(cmds):
        for c in cmds:
            r = issue_top(c)
            # "rapid" cases issue the next command as soon as start() has returned
            quiet = None if (rapid and c[0] == "start" and r == "ok") else settle()
            if c[0] in ("init", "cleanup", "initbad"):
                subscribe()
            snapshot(c, r, quiet)

    if case.get("kind", "seq") == "seq":
        run_seq(case["cmds"])
    else:
        run_seq(case.get("setup", []))
        hold = case["hold_gate"]                  # index of the gate the run thread is held at
        r0 = issue_top(case["runcmd"])
        rec["runcmd_outcome"] = r0
        t0 = time.time()
        while not gstate[hold]["reached"] and time.time() - t0 < 3.0:
            time.sleep(0.0002)
        rec["hold_reached"] = gstate[hold]["reached"]
        rec["held_state"] = gstate[hold]["seen"]
        if case.get("issue_when"):
            # a window that no listener marks (e.g. the run thread waiting inside its own cleanup()):
            # wait for the condition on the shared state, then a fixed delay into the window
            t0 = time.time()
            while not cond_holds(case["issue_when"]) and time.time() - t0 < 3.0:
                time.sleep(0.0005)
            rec["issue_when_met"] = cond_holds(case["issue_when"])
            time.sleep(case.get("issue_delay", 0.0))
        # the shared state at the moment the overlapping command is issued, and whether the gate still holds
        rec["at_issue"] = [sim.run_state.name, sim.replication_state.name, not gstate[hold]["passed"]]
        with lock:
            rec["log"].append(["overlap-begin", case["cmd"], sim.run_state.name, sim.replication_state.name])
        t1 = time.time()
        r = issue_top(case["cmd"])
        rec["cmd_wall"] = round(time.time() - t1, 3)
        progress["main_returned"] = True
        time.sleep(0.002)
        progress["release_all"] = True
        quiet = settle()
        snapshot(case["cmd"], r, quiet)
        rec["gates"] = gstate
        # what happens next: the follow-up commands are issued at strict quiescence
        run_seq(case.get("after", []))

    # run-thread liveness once the replication has ended / after cleanup
    # (a simulator whose initialize was aborted by the model is NOT_INITIALIZED but still holds its new run thread)
    if (sim.run_state.name == "ENDED" or sim.replication_state.name == "ENDED"
            or (sim.run_state.name == "NOT_INITIALIZED" and cur_worker() is None)):
        t0 = time.time()
        while any(w.is_alive() for w in workers()) and time.time() - t0 < 1.0:
            time.sleep(0.001)
    rec["alive"] = sum(1 for w in workers() if w.is_alive())
    progress["release_all"] = True
    try:
        sim.cleanup()
    except Exception as exc:  # noqa
        rec["notes"].append("final cleanup raised " + type(exc).__name__)
    t0 = time.time()
    while any(w.is_alive() for w in workers()) and time.time() - t0 < 2.0:
        time.sleep(0.001)
    # every run thread this history created must be gone after the final cleanup(); count by identity
    left = [w for w in workers() if w.is_alive()]
    rec["leaked"] = len(left)
    for w in left:              # do not let a leaked non-daemon thread keep this interpreter alive
        w._finalized = True
        w.wakeup()
    return rec


if __name__ == "__main__":
    main()
