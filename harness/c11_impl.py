"""Implementation-side driver for C11 (simulation statistics).

Reads a JSON list of cases on stdin, runs each on the real DEVS simulators,
Sim* statistics, EventProducer and DSOLModel of the pydsol-core tree on
sys.path, prints a JSON list of observations.  Fresh interpreter per batch.

case = {"clock": "int"|"float"|"dur"|"durmin", "strategy": "log"|"warn"|"pause",
        "prog": [[action, ...], ...]   (as sim_driver; ["obs", chan, idx] fires
                                        payload idx as a data event on channel chan),
        "cmds": [cmd, ...],
        "chans": [{"fam": "int"|"num"|"pair", "std": bool}, ...],
        "payloads": [{"c": int|None, "w": hex|"nan"|"str"|"notuple"|"len3", "v": hex|"nan"|"str",
                      "as_int": bool}, ...],
        "stats": [{"kind": "counter"|"tally"|"weighted"|"persistent", "key": int, "chans": [..],
                   "lsub": [event index, ...], "extra": bool, "react": [None|payload idx, ...]}, ...],
        "hooks": [{"ev": "warmup"|"endrepl"|["chan", c], "pos": k, "removes": index of a hook}, ...]}
Times are integers in quarter time units.  A hook is a one-shot listener of the model: subscribed in
construct_model to the simulator's WARMUP / END_REPLICATION event (or to a channel of the model's producer)
right before statistic number pos is created (pos = number of statistics: after all of them); inside its
first notification it unsubscribes the hook `removes` (itself, or another one) from that hook's event.
        "ghosts": [{"pos": k, "kind": kind, "how": "name"|"key"|"sim"}, ...]   constructions the constructor must
            refuse (name / key not a str, simulator not a simulator), attempted -- and the TypeError caught -- right
            before statistic number pos is created: nothing of the refused object may stay behind
        "model_variant": "plain"|"len0"|"boolfalse"   the model class also defines __len__ -> 0 / __bool__ -> False
"""
import io
import json
import logging
import math
import sys
import threading
import time

QUIET = {"NOT_INITIALIZED", "INITIALIZED", "STOPPED", "ENDED"}

EVENT_NAMES = {
    "counter": ["INITIALIZED_EVENT", "OBSERVATION_ADDED_EVENT", "N_EVENT", "COUNT_EVENT"],
    "tally": ["INITIALIZED_EVENT", "OBSERVATION_ADDED_EVENT", "N_EVENT", "MIN_EVENT", "MAX_EVENT", "SUM_EVENT",
              "MEAN_EVENT", "POPULATION_STDEV_EVENT", "POPULATION_VARIANCE_EVENT", "POPULATION_SKEWNESS_EVENT",
              "POPULATION_KURTOSIS_EVENT", "POPULATION_EXCESS_K_EVENT", "SAMPLE_STDEV_EVENT",
              "SAMPLE_VARIANCE_EVENT", "SAMPLE_SKEWNESS_EVENT", "SAMPLE_KURTOSIS_EVENT", "SAMPLE_EXCESS_K_EVENT"],
    "weighted": ["INITIALIZED_EVENT", "OBSERVATION_ADDED_EVENT", "N_EVENT", "MIN_EVENT", "MAX_EVENT",
                 "WEIGHTED_SUM_EVENT", "WEIGHTED_MEAN_EVENT", "WEIGHTED_POPULATION_STDEV_EVENT",
                 "WEIGHTED_POPULATION_VARIANCE_EVENT", "WEIGHTED_SAMPLE_STDEV_EVENT",
                 "WEIGHTED_SAMPLE_VARIANCE_EVENT"],
}
EVENT_NAMES["persistent"] = EVENT_NAMES["weighted"]


def getters_for(kind, o):
    """index j -> getter called on the statistic (None: the event carries no query value)."""
    if kind == "counter":
        return [None, None, o.n, o.count]
    if kind == "tally":
        return [None, None, o.n, o.min, o.max, o.sum, o.mean, o.stdev, o.variance, o.skewness, o.kurtosis,
                o.excess_kurtosis, lambda: o.stdev(False), lambda: o.variance(False), lambda: o.skewness(False),
                lambda: o.kurtosis(False), lambda: o.excess_kurtosis(False)]
    g = [None, (o.last_value if kind == "persistent" else None), o.n, o.min, o.max, o.weighted_sum,
         o.weighted_mean, o.weighted_stdev, o.weighted_variance, lambda: o.weighted_stdev(False),
         lambda: o.weighted_variance(False)]
    return g


def canon(v, stat=None):
    if stat is not None and v is stat:
        return ["self"]
    if isinstance(v, bool):
        return ["other", repr(v)]
    if isinstance(v, int):
        return ["int", v]
    if isinstance(v, float):
        return ["fl", float(v).hex()]
    return ["other", type(v).__name__]


def gcall(f):
    try:
        return canon(f())
    except Exception as exc:  # noqa
        return ["exc", type(exc).__name__]


def num_of(s):
    if s == "nan":
        return float("nan")
    return float.fromhex(s)


def main():
    cases = json.load(sys.stdin)
    real_out = sys.stdout
    sys.stdout = io.StringIO()
    sys.stderr = io.StringIO()
    logging.disable(logging.CRITICAL)
    import warnings
    warnings.simplefilter("ignore")
    res = []
    for idx, case in enumerate(cases):
        sys.stdout.seek(0); sys.stdout.truncate(0)
        sys.stderr.seek(0); sys.stderr.truncate(0)
        try:
            res.append(run_case(case, f"vst{idx}"))
        except Exception as exc:  # harness-level failure
            import traceback
            res.append({"error": f"{type(exc).__name__}: {exc}", "tb": traceback.format_exc()[-1500:]})
    real_out.write(json.dumps(res))


def run_case(case, name):
    from pydsol.core.experiment import SingleReplication
    from pydsol.core.interfaces import SimulatorInterface, ReplicationInterface, StatEvents
    from pydsol.core.model import DSOLModel
    from pydsol.core.pubsub import EventListener, EventProducer, EventType
    from pydsol.core.simulator import (DEVSSimulatorFloat, DEVSSimulatorInt, DEVSSimulatorDuration,
                                       ErrorStrategy)
    from pydsol.core import statistics as ST
    from pydsol.core.units import Duration
    from pydsol.core.utils import DSOLError

    ck = case["clock"]

    def to_time(q):
        if q == "nan":
            return Duration(float("nan")) if ck in ("dur", "durmin") else float("nan")
        if ck == "int":
            assert q % 4 == 0, q
            return q // 4
        if ck == "float":
            return q / 4.0
        if ck == "dur":
            return Duration(q / 4.0, "s")
        if ck == "durmin":
            return Duration(float(q // 240), "min") if q % 240 == 0 else Duration(q / 4.0, "s")
        raise ValueError(ck)

    def to_q(t):
        x = float(t) * 4
        if x != x or math.isinf(x) or x != int(x):
            return ["nonint", repr(t)]
        return int(x)

    if ck == "int":
        sim = DEVSSimulatorInt(name)
    elif ck == "float":
        sim = DEVSSimulatorFloat(name)
    elif ck == "dur":
        sim = DEVSSimulatorDuration(name)
    else:
        sim = DEVSSimulatorDuration(name, "min")
    sim.set_error_strategy({"log": ErrorStrategy.LOG_AND_CONTINUE, "warn": ErrorStrategy.WARN_AND_CONTINUE,
                            "pause": ErrorStrategy.WARN_AND_PAUSE}[case["strategy"]])

    rec = {"trace": [], "outs": [], "ntfs": [], "obs": [], "snaps": [], "notes": [], "log": [], "canc": []}
    prog = case["prog"]
    chans = case["chans"]
    payloads = case["payloads"]
    sdecls = case["stats"]

    NT = [(ReplicationInterface.START_REPLICATION_EVENT, "startrepl"),
          (SimulatorInterface.STARTING_EVENT, "starting"),
          (SimulatorInterface.START_EVENT, "start"),
          (SimulatorInterface.TIME_CHANGED_EVENT, "time"),
          (ReplicationInterface.WARMUP_EVENT, "warmup"),
          (SimulatorInterface.STOPPING_EVENT, "stopping"),
          (SimulatorInterface.STOP_EVENT, "stop"),
          (ReplicationInterface.END_REPLICATION_EVENT, "endrepl")]
    names = {id(et): nm for et, nm in NT}

    class Collector(EventListener):
        def notify(self, event):
            nm = names.get(id(event.event_type), "other")
            ts = getattr(event, "timestamp", None)
            rec["ntfs"].append([nm, None if ts is None else to_q(ts)])
            rec["log"].append(["ntf", nm, None if ts is None else to_q(ts)])
            if nm in ("warmup", "endrepl"):
                model.cur_prio = nm      # context of what the statistics do next

    coll = Collector()

    def subscribe():
        for et, _ in NT:
            sim.add_listener(et, coll)

    # channel event types: the standard data event of the family, or an own type
    STD = {"int": StatEvents.DATA_EVENT, "num": StatEvents.DATA_EVENT, "pair": StatEvents.WEIGHT_DATA_EVENT}
    CH_ET = []
    for c, ch in enumerate(chans):
        if ch.get("timed"):
            CH_ET.append(StatEvents.TIMESTAMP_DATA_EVENT)
        else:
            CH_ET.append(STD[ch["fam"]] if ch.get("std") else EventType(f"VCH_{name}_{c}"))

    def content_for(chan, idx):
        p = payloads[idx]
        fam = chans[chan]["fam"]
        if fam == "int":
            return p["c"] if p["c"] is not None else 1.5
        if fam == "num":
            if p["v"] == "str":
                return "seven"
            x = num_of(p["v"])
            if p.get("as_int") and x == x and not math.isinf(x) and x == int(x):
                return int(x)
            return x
        if p["w"] == "notuple":
            return 3.0
        if p["w"] == "len3":
            return (1.0, 2.0, 3.0)
        w = "w" if p["w"] == "str" else num_of(p["w"])
        v = "v" if p["v"] == "str" else num_of(p["v"])
        if p.get("as_int"):
            if isinstance(w, float) and w == w and w == int(w):
                w = int(w)
        return (w, v)

    class Sub(EventListener):
        """subscriber of a statistic's own events: compares every payload with a
        fresh query made inside notify, then performs its next reaction"""

        def __init__(self, sid, kind, stat, react):
            self.sid, self.kind, self.stat = sid, kind, stat
            self.react = list(react)
            self.deliveries = []
            self.in_init = 0
            self.index = {id(getattr(StatEvents, nm)): j for j, nm in enumerate(EVENT_NAMES[kind])}

        def notify(self, event):
            st = self.stat
            j = self.index.get(id(event.event_type), 99)
            ts = getattr(event, "timestamp", None)
            ts_ok = ts is not None and float(ts) == float(sim.simulator_time)
            pay = canon(event.content, st)
            fresh = None
            if j == 0:
                # the freshly initialised statistic: n() == 0 (and for the persistent: active again)
                ok = (event.content is st) and st.n() == 0 and (self.kind != "persistent" or st.isactive())
                fresh = ["self"] if ok else ["notinit"]
            elif j != 99:
                g = getters_for(self.kind, st)[j]
                if g is not None:
                    fresh = gcall(g)
            self.deliveries.append([j, pay, fresh, ts_ok])
            if j == 0:
                self.in_init += 1
            try:
                self.react_now()
            finally:
                if j == 0:
                    self.in_init -= 1

        def react_now(self):
            st = self.stat
            if self.react:
                r = self.react.pop(0)
                if r is not None:
                    p = payloads[r]
                    rec["log"].append(["rereg", self.sid, r, to_q(sim.simulator_time),
                                       "warmup" if self.in_init else model.cur_prio])
                    if self.kind == "counter":
                        st.register(p["c"])
                    elif self.kind == "tally":
                        st.register(num_of(p["v"]))
                    elif self.kind == "weighted":
                        st.register(num_of(p["w"]), num_of(p["v"]))
                    else:
                        st.register(float(sim.simulator_time), num_of(p["v"]))

    class Hook(EventListener):
        """one-shot listener of the model: unsubscribes a hook (itself or another one) inside its first notification"""

        def __init__(self, producer, et):
            self.producer, self.et, self.target, self.done = producer, et, None, False

        def notify(self, event):
            if not self.done:
                self.done = True
                t = self.target
                if t is not None:
                    t.producer.remove_listener(t.et, t)

    def issue(c):
        try:
            k = c[0]
            if k == "init":
                st, wm, en = c[1], c[2], c[3]
                r = SingleReplication("rep", to_time(st), to_time(wm - st), to_time(en - st))
                sim.initialize(model, r)
            elif k == "initbad":
                sim.initialize("not a model", SingleReplication("rep", to_time(0), to_time(0), to_time(40)))
            elif k == "start":
                sim.start()
            elif k == "step":
                sim.step()
            elif k == "stop":
                sim.stop()
            elif k == "runupto":
                sim.run_up_to(to_time(c[1]))
            elif k == "runuptoincl":
                sim.run_up_to_including(to_time(c[1]))
            elif k == "endrepl":
                sim.end_replication()
            elif k == "cleanup":
                sim.cleanup()
            else:
                raise ValueError(k)
            return "ok"
        except DSOLError:
            return "refused"
        except Exception as exc:  # noqa
            return "exc:" + type(exc).__name__

    class ProgModel(DSOLModel):
        def __init__(self, simulator):
            super().__init__(simulator)
            self.created = []
            self.stat_objs = []
            self.subs = []
            self.cur_prio = None

        def construct_model(self):
            self.created = []
            self.cur_prio = None
            rec["log"].append(["construct"])
            subscribe()     # the collector hears WARMUP / END_REPLICATION before the statistics do
            self.producer = EventProducer()
            self.stat_objs = []
            self.subs = []
            hdecls = case.get("hooks") or []
            hooks = [None] * len(hdecls)

            def add_hooks(pos):
                for hi, h in enumerate(hdecls):
                    if h["pos"] == pos:
                        if h["ev"] == "warmup":
                            hk = Hook(sim, ReplicationInterface.WARMUP_EVENT)
                        elif h["ev"] == "endrepl":
                            hk = Hook(sim, ReplicationInterface.END_REPLICATION_EVENT)
                        else:
                            hk = Hook(self.producer, CH_ET[h["ev"][1]])
                        hooks[hi] = hk
                        hk.producer.add_listener(hk.et, hk)

            def add_ghosts(pos):
                for gi, g in enumerate(case.get("ghosts") or []):
                    if g["pos"] != pos:
                        continue
                    gcls = {"counter": ST.SimCounter, "tally": ST.SimTally, "weighted": ST.SimWeightedTally,
                            "persistent": ST.SimPersistent}[g["kind"]]
                    args = {"name": (f"kghost{gi}", 12345, sim), "key": (777, f"ghost {gi}", sim),
                            "sim": (f"kghost{gi}", f"ghost {gi}", "not a simulator")}[g["how"]]
                    try:
                        gcls(*args)
                        rec["notes"].append(f"construction of a {g['kind']} with a bad {g['how']} was not refused")
                    except TypeError:
                        pass

            for sid, d in enumerate(sdecls):
                add_hooks(sid)
                add_ghosts(sid)
                kind = d["kind"]
                cls = {"counter": ST.SimCounter, "tally": ST.SimTally, "weighted": ST.SimWeightedTally,
                       "persistent": ST.SimPersistent}[kind]
                key = f"k{d['key']}"
                if d["chans"]:
                    o = cls(key, f"stat {sid}", sim, producer=self.producer, event_type=CH_ET[d["chans"][0]])
                    for c in d["chans"][1:]:
                        o.listen_to(self.producer, CH_ET[c])
                else:
                    o = cls(key, f"stat {sid}", sim)
                sub = Sub(sid, kind, o, d.get("react") or [])
                for j in d.get("lsub") or []:
                    o.add_listener(getattr(StatEvents, EVENT_NAMES[kind][j]), sub)
                if d.get("extra") and d.get("lsub"):
                    # event types this kind of statistic never fires: nothing may arrive
                    for nm in dir(StatEvents):
                        if nm.endswith("_EVENT") and nm not in EVENT_NAMES[kind] and "DATA" not in nm:
                            o.add_listener(getattr(StatEvents, nm), sub)
                self.stat_objs.append(o)
                self.subs.append(sub)
            add_hooks(len(sdecls))
            add_ghosts(len(sdecls))
            for hi, h in enumerate(hdecls):
                if hooks[hi] is not None and 0 <= h["removes"] < len(hooks):
                    hooks[hi].target = hooks[h["removes"]]
            self.interp(0)

        def handle(self, h, k, prio):
            rec["trace"].append([k, to_q(sim.simulator_time)])
            rec["log"].append(["exec", k, to_q(sim.simulator_time), h, prio])
            self.cur_prio = prio
            self.interp(h)

        def interp(self, h):
            for a in (prog[h] if h < len(prog) else []):
                kind = a[0]
                if kind == "sched":
                    mode, prio, hh = a[1], a[2], a[3]
                    kw = {"h": hh, "k": len(self.created), "prio": prio}
                    try:
                        if mode[0] == "now":
                            e = sim.schedule_event_now(self, "handle", prio, **kw)
                        elif mode[0] == "rel":
                            e = sim.schedule_event_rel(to_time(mode[1]), self, "handle", prio, **kw)
                        else:
                            e = sim.schedule_event_abs(to_time(mode[1]), self, "handle", prio, **kw)
                        self.created.append(e)
                        rec["outs"].append("acc")
                    except DSOLError:
                        rec["outs"].append("ref")
                    except Exception as exc:  # noqa
                        rec["outs"].append("exc:" + type(exc).__name__)
                elif kind == "cancel":
                    if a[1] < len(self.created):
                        was = sim.eventlist().contains(self.created[a[1]])
                        sim.cancel_event(self.created[a[1]])
                        if was:
                            rec["canc"].append(a[1])
                elif kind == "fail":
                    raise RuntimeError("injected fault")
                elif kind == "cmd":
                    r = issue(a[1])
                    rec["outs"].append({"ok": "cmdok", "refused": "cmdref"}.get(r, r))
                elif kind == "obs":
                    chan, idx = a[1], a[2]
                    tq = to_q(sim.simulator_time)
                    rec["obs"].append([chan, idx, tq])
                    rec["log"].append(["obs", chan, idx, tq, self.cur_prio])
                    content = content_for(chan, idx)
                    # a persistent also accepts the standard timestamped data event directly
                    if chans[chan].get("timed"):
                        self.producer.fire_timed(sim.simulator_time, CH_ET[chan], content)
                    else:
                        self.producer.fire(CH_ET[chan], content)
                else:
                    raise ValueError(kind)

    variant = case.get("model_variant") or "plain"
    if variant == "len0":
        class LenModel(ProgModel):
            def __len__(self):          # a model that is a (still empty) container
                return 0
        model = LenModel(sim)
    elif variant == "boolfalse":
        class FalsyModel(ProgModel):
            def __bool__(self):
                return False
        model = FalsyModel(sim)
    else:
        model = ProgModel(sim)
    subscribe()

    def worker_idle():
        """the run thread is back in its wait (or gone): only then is the command really over --
        STOPPED is written before the thread clears its wake-up flag, and a command issued in
        between overlaps the run thread's own transitions (C04's overlap clause, not this property)"""
        w = getattr(sim, "_Simulator__worker", None)
        if w is None:
            return True
        try:
            return w.is_waiting() or w.is_finalized() or not w.is_alive()
        except Exception:  # noqa
            return True

    def wait_quiet():
        t0 = time.time()
        while ((sim.run_state.name not in QUIET or sim.replication_state.name == "ENDING" or not worker_idle())
               and time.time() - t0 < 6.0):
            time.sleep(0.0005)
        if sim.run_state.name not in QUIET or sim.replication_state.name == "ENDING":
            rec["notes"].append("not quiescent after 6 s: " + sim.run_state.name + "/" + sim.replication_state.name)

    for c in case["cmds"]:
        rec["log"].append(["cmd", c])
        r = issue(c)
        wait_quiet()
        # the worker thread finishes END_REPLICATION notifications before it is finalized
        if sim.run_state.name == "ENDED":
            t0 = time.time()
            while any(t.name == name and t.is_alive() for t in threading.enumerate()) and time.time() - t0 < 2.0:
                time.sleep(0.0005)
        if c[0] in ("init", "cleanup", "initbad"):
            subscribe()
        rec["snaps"].append([r, sim.run_state.name, sim.replication_state.name,
                             to_q(sim.simulator_time), sim.eventlist().size()])
        rec["log"].append(["cmdres", c, r, sim.run_state.name, sim.replication_state.name,
                           to_q(sim.simulator_time)])

    def alive():
        return any(t.name == name and t.is_alive() for t in threading.enumerate())
    if sim.run_state.name in ("ENDED", "NOT_INITIALIZED"):
        t0 = time.time()
        while alive() and time.time() - t0 < 1.0:
            time.sleep(0.001)
    rec["alive"] = alive()
    rec["stderr"] = sys.stderr.getvalue()[-600:] if "Exception in thread" in sys.stderr.getvalue() else ""

    # ---- read the statistics
    stats_out = []
    for sid, d in enumerate(sdecls):
        if sid >= len(model.stat_objs):
            stats_out.append(None)
            continue
        o = model.stat_objs[sid]
        kind = d["kind"]
        if kind == "counter":
            snap = {"count": gcall(o.count), "n": gcall(o.n)}
        elif kind == "tally":
            snap = {"n": gcall(o.n), "min": gcall(o.min), "max": gcall(o.max), "sum": gcall(o.sum),
                    "mean": gcall(o.mean), "var_b": gcall(o.variance), "var_u": gcall(lambda: o.variance(False)),
                    "sd_b": gcall(o.stdev), "sd_u": gcall(lambda: o.stdev(False)),
                    "skew_b": gcall(o.skewness), "skew_u": gcall(lambda: o.skewness(False)),
                    "kurt_b": gcall(o.kurtosis), "kurt_u": gcall(lambda: o.kurtosis(False)),
                    "ek_b": gcall(o.excess_kurtosis), "ek_u": gcall(lambda: o.excess_kurtosis(False))}
        else:
            snap = {"n": gcall(o.n), "min": gcall(o.min), "max": gcall(o.max), "sum": gcall(o.weighted_sum),
                    "mean": gcall(o.weighted_mean), "var_b": gcall(o.weighted_variance),
                    "var_u": gcall(lambda: o.weighted_variance(False)), "sd_b": gcall(o.weighted_stdev),
                    "sd_u": gcall(lambda: o.weighted_stdev(False))}
            if kind == "persistent":
                snap["active"] = bool(o.isactive())
                snap["last"] = gcall(o.last_value)
                snap["sumw"] = canon(o._sum_of_weights)
        try:
            found = model.get_output_statistic(f"k{d['key']}") is o
        except Exception:  # noqa
            found = False
        stats_out.append({"snap": snap, "pub": model.subs[sid].deliveries, "lookup": found,
                          "key_prop": getattr(o, "key", None) == f"k{d['key']}"})
    rec["stats"] = stats_out
    try:
        rec["nkeys"] = len(model.output_statistics())
    except Exception:  # noqa
        rec["nkeys"] = -1
    try:
        sim.cleanup()
    except Exception as exc:  # noqa
        rec["notes"].append("final cleanup raised " + type(exc).__name__)
    return rec


if __name__ == "__main__":
    main()
