"""C07 — end-to-end reproducibility: a run is a function of model, seeds and settings.

Tie (the part of C07 no Gallina model can express is carried by this tie
alone): stochastic model programs with pub/sub fan-out -- at least three
listeners on one event type, listeners that unsubscribe / subscribe mid-run,
schedule events and draw from streams shared with the handlers; SimTally /
SimPersistent / SimCounter statistics -- are executed in SEPARATE interpreter
processes (harness/c07_child.py) with PYTHONHASHSEED in {0, 1, 2, a drawn value, random},
after different amounts of unrelated prior activity in the process (event ids
consumed, event types, listeners and objects created and dropped, another
simulation run), and with pauses at different points (run_up_to /
run_up_to_including / step pieces, stop() from a handler followed by start).
Each child prints the digest of (executed trace, deliveries to listeners,
replication notifications, observations, draws, scheduling outcomes, every
getter of every statistic as float.hex()).  All digests of one program must be
identical, and every child's complete observation must equal what the composed
Gallina model (Sim/Repro.v) computes for its command sequence.

Oracle independent of the Coq model: equality of the children among each
other, and the subscription-order clause replayed on each child's own log.
"""
from __future__ import annotations

import copy
import json
import os
import random
import subprocess
import sys
from concurrent.futures import ThreadPoolExecutor
from pathlib import Path

sys.path.insert(0, str(Path(__file__).resolve().parent))
import common as C
import simlib as S
import c06

PID = "C07"
CHILD = Path(__file__).resolve().parent / "c07_child.py"
TARGETS = ["Sim/Case.vo", "Sim/ReproProofs.vo", "Sim/ReproEmbed.vo", "Props/C07.vo", "Streams/Stream.vo", "Streams/Seeds.vo"]


# ----------------------------------------------------------------------------- children
def run_child(job, hashseed, timeout=60):
    env = C.child_env({"PYTHONHASHSEED": str(hashseed)})
    p = subprocess.run([C.PY, str(CHILD)], input=json.dumps(job), capture_output=True, text=True,
                       timeout=timeout, env=env)
    if p.returncode != 0:
        return {"error": "child failed: " + p.stderr[-1500:]}
    try:
        return json.loads(p.stdout)
    except json.JSONDecodeError:
        return {"error": "child printed no JSON: " + p.stdout[-300:] + p.stderr[-300:]}


def run_children(jobs, nproc=14):
    def one(j):
        try:
            return run_child(j["job"], j["hashseed"], timeout=40 + 6 * len(j["job"]["case"].get("stop_at") or []))
        except subprocess.TimeoutExpired:
            return {"error": "timeout"}
    with ThreadPoolExecutor(max_workers=nproc) as ex:
        return list(ex.map(one, jobs))


# ----------------------------------------------------------------------------- generation
def gen_fan_model(rng: random.Random, clock: str, with_pre: bool = False, updater: bool = False, simlst: bool = False):
    """Active handlers reschedule themselves with a drawn positive delay and fire event types; listeners schedule
    only leaf handlers (which observe / cancel), so every run is finite.  Listener l has a level lv[l]: it is only
    ever subscribed to types <= lv[l] and only fires types > lv[l] (no recursion)."""
    u = S.unit_of(clock)
    n_act = rng.randint(2, 3)
    n_leaf = rng.randint(2, 3)
    n_h = n_act + n_leaf
    n_l = rng.randint(3, 6)
    n_et = rng.randint(1, 3)
    streams = [["a", rng.randint(1, 10 ** 9)], ["b", rng.randint(1, 10 ** 9)], ["c", rng.randint(1, 10 ** 9)]]
    if rng.random() < 0.4:
        streams[rng.randrange(3)][1] = 0          # 0 is a legal seed like any other
    sids = [0, 2] if clock in ("dur", "durmin") else [0, 1, 2]
    lv = [rng.randrange(n_et) for _ in range(n_l)]

    def st():
        return rng.choice("abc")

    def obs_action():
        sid = rng.choice(sids)
        r = rng.random()
        if r < 0.45:
            return ["obsd", sid, st(), -2, 9]
        if r < 0.75 and sid != 2:
            return ["obsf", sid, st()]
        return ["obs", sid, rng.randint(-3, 9)]

    leaf = list(range(n_act + 1, n_h + 1))
    prog = [[] for _ in range(n_h + 1)]
    for h in range(1, n_act + 1):
        prog[0].append(["sched", ["reld", st(), 0, 4, u], rng.choice(S.PRIOS), h])
    prog[0].append(["sched", ["abs", u * rng.randint(0, 6)], rng.choice(S.PRIOS), rng.choice(leaf)])
    if rng.random() < 0.5:
        prog[0].append(obs_action())
    for h in range(1, n_act + 1):
        body = [["sched", ["reld", st(), 1, 5, u * rng.choice([1, 1, 2])], rng.choice(S.PRIOS), h]]
        for _ in range(rng.randint(1, 3)):
            r = rng.random()
            if r < 0.45:
                body.append(["fire", rng.randrange(n_et)])
            elif r < 0.60:
                body.append(obs_action())
            elif r < 0.68:
                body.append(["sched", ["now"], rng.choice(S.PRIOS), rng.choice(leaf)])
            elif r < 0.76:
                body.append(["sched", ["rel", u * rng.choice([0, 0, 1, 2])], rng.choice(S.PRIOS), rng.choice(leaf)])
            elif r < 0.86:
                body.append(["cancel", rng.randint(0, 12)])
            else:
                body.append(["sched", ["reld", st(), 0, 3, u], rng.choice(S.PRIOS), rng.choice(leaf)])
        if not any(a[0] == "fire" for a in body):
            body.append(["fire", 0])
        rng.shuffle(body)
        prog[h] = body
    for h in leaf:
        body = [obs_action() for _ in range(rng.randint(0, 2))]
        if rng.random() < 0.2:
            body.append(["cancel", rng.randint(0, 12)])
        prog[h] = body
    lst = []
    for l in range(n_l):
        body = []
        for _ in range(rng.randint(1, 3)):
            r = rng.random()
            if r < 0.30:
                body.append(["sched", ["reld", st(), 0, 3, u], rng.choice(S.PRIOS), rng.choice(leaf)])
            elif r < 0.42:
                body.append(["sched", ["now"], rng.choice(S.PRIOS), rng.choice(leaf)])
            elif r < 0.68:
                body.append(obs_action())
            elif r < 0.80:
                body.append(["unsub", rng.randrange(n_et), rng.choice([l, rng.randrange(n_l)])])
            elif r < 0.90:
                l2 = rng.randrange(n_l)
                body.append(["sub", rng.randint(0, lv[l2]), l2])
            elif r < 0.96 and lv[l] + 1 < n_et:
                body.append(["fire", rng.randint(lv[l] + 1, n_et - 1)])
            else:
                body.append(["cancel", rng.randint(0, 12)])
        lst.append(body)
    # initial subscriptions, in a random order: at least three listeners on type 0
    order = list(range(n_l))
    rng.shuffle(order)
    subs = [[0, l] for l in order[:rng.randint(3, n_l)]]
    for et in range(1, n_et):
        for l in order:
            if lv[l] >= et and rng.random() < 0.6:
                subs.append([et, l])
    rng.shuffle(subs)
    # make sure some (un)subscription happens mid-run
    if not any(a[0] in ("sub", "unsub") for b in lst for a in b):
        l = subs[0][1]
        lst[l].append(["unsub", 0, l])
    stats = []
    key = 0
    for sid in sids:
        stats.append([key, c06.KIND_OF_SID[sid], sid])
        key += 1
    if rng.random() < 0.3:
        stats.append([key, c06.KIND_OF_SID[sids[0]], sids[0]])
    model = {"prog": prog, "lst": lst, "subs": subs, "stats": stats, "streams": streams,
             "stream_mode": rng.choice(["new", "setseed"])}
    if any(sd == 0 for _, sd in streams) and rng.random() < 0.7:
        model["stream_mode"] = "new"              # MersenneTwister(0) is then constructed in construct_model
    if simlst:
        # model components built in construct_model that listen to the SIMULATOR and, when notified, draw from the
        # shared streams and / or schedule an event.  Only notifications that do not depend on the pause points
        # (WARMUP, START_REPLICATION) may act in a program whose run must not depend on them.
        model["simlst"] = []
        for _ in range(rng.randint(2, 3)):
            ntf = rng.choice(["warmup", "warmup", "startrepl"])
            body = [["obsd", rng.choice(sids), st(), -2, 9]]
            if rng.random() < 0.7:
                body.append(["sched", ["reld", st(), 0, 3, u], rng.choice(S.PRIOS), rng.choice(leaf)])
            rng.shuffle(body)
            model["simlst"].append([ntf, body])
    if updater:
        # the library's seed management instead: streams kept for the life of the model (dict / StreamInformation),
        # StreamSeedUpdater (some streams listed, the others through its SimpleStreamUpdater fallback) or
        # SimpleStreamUpdater, update_seeds(streams, replication number) at the start of construct_model
        nr = rng.choice([0, 0, 1, 3])
        kind = rng.choice(["seed", "seed", "simple"])
        up = {"kind": kind, "nr": nr, "container": rng.choice(["dict", "si"]), "explicit_fallback": rng.random() < 0.3}
        if kind == "seed":
            listed = rng.sample(["a", "b", "c"], rng.randint(1, 3))
            up["seeds"] = {nm: [rng.randint(0, 10 ** 9) for _ in range(nr + 1 + rng.randint(0, 2))] for nm in sorted(listed)}
        model["stream_mode"] = "updater"
        model["updater"] = up
    if with_pre:
        # SimEvent objects built before initialize() (some even before the unrelated prior activity of the process)
        # and handed to schedule_event(event) from construct_model / handlers; they tie in time and priority with
        # ordinarily scheduled events, so only the rank of their ids decides
        pre = []
        for j in range(rng.randint(2, 4)):
            pre.append([u * rng.randint(8, 16), rng.choice([5, 5, 5, rng.choice(S.PRIOS)]), rng.choice(leaf + [rng.choice(leaf)]),
                        rng.choice(["early", "late"])])
            if rng.random() < 0.5:
                prog[0].insert(rng.randint(0, len(prog[0])), ["schedpre", j])
            else:
                h = rng.randint(1, n_act)
                prog[h].insert(rng.randint(0, len(prog[h])), ["schedpre", j])
        # ordinary events at the same times and priority 5, scheduled in construct_model after / before them
        for pe in pre[:2]:
            prog[0].insert(rng.randint(0, len(prog[0])), ["sched", ["abs", pe[0]], pe[1], rng.choice(leaf)])
        model["pre"] = pre
    return model


PRIORS = [
    {},
    {"events": 17, "types": 3, "listeners": 2, "objects": 50, "sims": 0, "tag": "s"},
    {"events": 1203, "types": 40, "listeners": 25, "objects": 4000, "sims": 2, "tag": "L"},
    {"events": 211, "types": 9, "listeners": 5, "objects": 777, "sims": 1, "tag": "m"},
    {"events": 5000, "types": 2, "listeners": 0, "objects": 12345, "sims": 3, "tag": "X"},
]


def variants(rng, model, clock, with_stop):
    u = S.unit_of(clock)
    start = rng.choice([0, 0, 8]) if clock == "int" else rng.choice([0, 0, 2 * u, 8 * u])
    length = u * rng.randint(10, 40) if clock != "int" else 4 * rng.randint(6, 14)
    end = start + length
    warm = start + u * rng.randint(0, length // (2 * u))
    init = ["init", start, warm, end, 0]

    def cut():
        # strictly before the end: an exclusive cut AT the end ends the replication without the events at the end (C03)
        return start + u * rng.randint(0, length // u - 1)
    t1, t2, t3 = sorted([cut(), cut(), cut()])
    base = {"clock": clock, "strategy": "log", "models": [model]}
    # a pilot run of the same replication on the same simulator, model and stream objects before the real one
    pilot_a = [init, ["runupto", t2]]
    pilot_b = [init, ["start"]]
    out = [
        (0, PRIORS[0], dict(base, cmds=[init, ["start"]])),
        (1, PRIORS[1], dict(base, cmds=[init, ["runupto", t2], ["start"]])),
        (2, PRIORS[2], dict(base, pilot=pilot_a, cmds=[init, ["runuptoincl", t1], ["runupto", t2], ["runuptoincl", t3], ["start"]])),
        (rng.randint(3, 2 ** 32 - 1), PRIORS[3], dict(base, cmds=[init, ["start"]])),
        # steps anywhere, also onto an event exactly at the replication end (a legal pause point since /repo 06e1929)
        ("random", PRIORS[4], dict(base, pilot=pilot_b, cmds=[init, ["step"], ["step"], ["runupto", t2], ["step"], ["runuptoincl", t3], ["step"], ["start"]])),
    ]
    if with_stop:
        out.append((1, PRIORS[1], dict(base, cmds=[init, ["start"], ["start"]], stop_at=[rng.randint(1, 6)])))
    return out


# ----------------------------------------------------------------------------- oracle
def subscription_order(log):
    """replays the subscribe / unsubscribe / fire entries of one child's log with the reference semantics of the
    property (a list per event type: subscribing appends unless present, unsubscribing removes, a firing notifies
    the listeners subscribed at that moment, in subscription order, each once) and compares the deliveries"""
    subs = {}
    open_fires = []                     # stack of [et, ser, expected remaining]
    n = 0
    for ent in log:
        k = ent[0]
        if k == "newproducer":
            subs = {}
            open_fires = []
        elif k == "sub":
            l = subs.setdefault(ent[1], [])
            if ent[2] not in l:
                l.append(ent[2])
        elif k == "unsub":
            l = subs.get(ent[1], [])
            if ent[2] in l:
                l.remove(ent[2])
        elif k == "fire":
            open_fires.append([ent[1], ent[2], list(subs.get(ent[1], []))])
            n += 1
        elif k == "dlv":
            et, l, ser = ent[1], ent[2], ent[3]
            fr = next((f for f in reversed(open_fires) if f[1] == ser), None)
            if fr is None:
                return f"delivery of event {ser} (type {et}) to listener {l} without a firing", n
            if not fr[2] or fr[2][0] != l:
                return (f"event {ser} of type {et}: listener {l} notified, expected next in subscription order "
                        f"{fr[2][:1]} (remaining {fr[2]})"), n
            fr[2].pop(0)
        elif k == "fired":
            fr = next((f for f in reversed(open_fires) if f[1] == ent[2]), None)
            if fr and fr[2]:
                return f"event {ent[2]} of type {ent[1]}: listeners {fr[2]} were subscribed at firing but not notified", n
            open_fires = [f for f in open_fires if f[1] != ent[2]]
    return None, n


def first_diff(a, b):
    for k in a:
        if a[k] != b.get(k):
            x, y = a[k], b.get(k)
            if isinstance(x, list) and isinstance(y, list):
                d = next((i for i in range(min(len(x), len(y))) if x[i] != y[i]), min(len(x), len(y)))
                return k, f"{k}[{d}]: {json.dumps(x[d:d + 2])[:300]} vs {json.dumps(y[d:d + 2])[:300]} (lengths {len(x)}/{len(y)})"
            return k, f"{k}: {str(x)[:200]} vs {str(y)[:200]}"
    return None, ""


# ----------------------------------------------------------------------------- Coq emission (shared with c06.py)
def coq_compare(items):
    return c06.ycoq_compare(PID, items, shard=20)


RULE = ("stochastic model programs with pub/sub fan-out: 2-3 self-rescheduling handlers with delays drawn from three shared "
        "MersenneTwister streams, 1-3 event types, 3-6 listener programs of which at least 3 subscribe to one type; listeners "
        "schedule events (drawn and zero delays), draw observed values (next_int, next_float) from the shared streams, "
        "unsubscribe themselves or others, subscribe others, fire further types, cancel events; SimTally, SimPersistent, SimCounter "
        "(also two statistics on one data stream) built in construct_model; every second program hands 2-4 SimEvent objects built "
        "before initialize (some before, some after the unrelated prior activity of the process) to schedule_event(event) from "
        "construct_model / handlers, tied in time and priority with ordinary events; every third program leaves the seeds to the "
        "library (streams kept in a dict / StreamInformation for the life of the model, StreamSeedUpdater incl. fallback or "
        "SimpleStreamUpdater, update_seeds(streams, replication number) in construct_model) and two of the children first make a "
        "pilot run of the same replication on the same simulator, model and stream objects; every fourth program builds 2-3 "
        "components in construct_model that listen to the simulator (WARMUP, START_REPLICATION) and react by drawing from the shared "
        "streams and scheduling events (these programs are compared between children only); each program is executed by 5-6 child interpreters: "
        "PYTHONHASHSEED 0 / 1 / 2 / a drawn 32-bit value / random; prior activity none / small / large / medium / very large (17 to 5000 event ids "
        "consumed, 0-40 event types, 0-25 listeners, 50-12345 objects allocated and half dropped, 0-3 other simulations run); "
        "uninterrupted, one cut, three cuts, steps and cuts mixed, and (every 6th program) stop() from a handler followed by start. "
        "non-trivial = program executing >= 10 events with >= 1 firing that notified >= 3 listeners and >= 1 mid-run "
        "(un)subscription, whose children all ran")


def main(tier: str) -> int:
    run = C.Run(PID, tier)
    proofs_ok = run.check_proofs(TARGETS, extra_tb=[
        "independence of PYTHONHASHSEED, of object addresses / creation counters inherited from the process and of wall-clock speed is NOT a theorem: it is carried by the multi-process tie of this check alone (no Gallina model has those inputs)",
        "random.Random (CPython) is trusted: the harness feeds the model the raw outputs of random.Random(seed) computed in the parent process",
        "pending set at specification level (C01), exact dyadic times, worker thread executed synchronously (as for C02-C06)",
    ])
    rng = random.Random(run.seed * 150001 + 7)
    n_prog = 24 if tier == "quick" else 300
    clocks = ["float", "int", "float", "dur"]
    programs = []
    corpus = C.VERIF / "corpus" / f"{PID}.json"
    if corpus.exists():
        for ent in json.loads(corpus.read_text()):
            programs.append((ent["clock"], ent["model"], ent.get("seed", 1)))
    for i in range(n_prog):
        clock = clocks[i % len(clocks)]
        programs.append((clock, gen_fan_model(rng, clock, with_pre=(i % 2 == 1), updater=(i % 3 == 2), simlst=(i % 4 == 3)), rng.randint(0, 10 ** 9)))
    jobs = []
    index = []
    for pi, (clock, model, vseed) in enumerate(programs):
        vr = random.Random(vseed)
        for vi, (hs, prior, case) in enumerate(variants(vr, model, clock, with_stop=(pi % 6 == 0))):
            jobs.append({"job": {"prior": prior, "case": case, "full": True}, "hashseed": hs})
            index.append((pi, vi))
    try:
        outs = run_children(jobs)
    except Exception as exc:  # noqa
        run.violation("harness-cannot-run-implementation", f"{type(exc).__name__}: {exc}"[:600], {}, found_input=False)
        return run.finish()

    by_prog = {}
    for (pi, vi), job, out in zip(index, jobs, outs):
        by_prog.setdefault(pi, []).append((vi, job, out))
    nontriv = 0
    n_children = 0
    n_firings = 0
    hist = {"hashseed_random_children": 0, "distinct_hash_probes": set(), "with_stop_from_handler": 0}
    bads = {}
    groups = []
    for pi, lst in by_prog.items():
        clock, model, vseed = programs[pi]
        errs = [(vi, o) for vi, job, o in lst if "error" in o or o.get("notes")]
        if errs:
            # a child that failed or timed out (machine load) is given a second chance before anything is reported
            redo = run_children([job for vi, job, o in lst if "error" in o or o.get("notes")])
            it = iter(redo)
            lst = [(vi, job, (next(it) if ("error" in o or o.get("notes")) else o)) for vi, job, o in lst]
            errs = [(vi, o) for vi, job, o in lst if "error" in o or o.get("notes")]
            by_prog[pi] = lst
        if errs:
            vi, o = errs[0]
            sig = "implementation-does-not-return" if o.get("error") == "timeout" else "child-error"
            bads.setdefault(sig, (pi, f"child {vi}: {o.get('error') or o.get('notes')} {o.get('tb', '')[-300:]}", lst[vi][1]))
            continue
        n_children += len(lst)
        ref = lst[0][2]
        lst_all = lst
        for vi, job, o in lst:
            hist["distinct_hash_probes"].add(o.get("probe"))
            if job["hashseed"] not in (0, 1, 2):
                hist["hashseed_random_children"] += 1
            if job["job"]["case"].get("stop_at"):
                hist["with_stop_from_handler"] += 1
            why, nf = subscription_order(o["full"]["log"])
            n_firings += nf
            if why:
                bads.setdefault("listeners-not-notified-in-subscription-order",
                                (pi, f"child {vi} (PYTHONHASHSEED={job['hashseed']}): {why}", job))
            if o["digest"] != ref["digest"]:
                part, what = first_diff(ref["parts"], o["parts"])
                bads.setdefault(f"run-differs-between-processes-{part}",
                                (pi, f"child {vi} (PYTHONHASHSEED={job['hashseed']}, prior activity {job['job']['prior']}, "
                                     f"pilot run {job['job']['case'].get('pilot')}, commands {job['job']['case']['cmds'][1:]}, stop_at {job['job']['case'].get('stop_at')}) differs "
                                     f"from child 0 (PYTHONHASHSEED=0, no prior activity, uninterrupted): {what}", job))
        full0 = ref["full"]
        big_fan = False
        cur = {}
        for ent in full0["log"]:
            if ent[0] == "dlv":
                cur[ent[3]] = cur.get(ent[3], 0) + 1
        big_fan = any(v >= 3 for v in cur.values())
        midrun = any(ent[0] in ("sub", "unsub") for ent in full0["log"][next((i for i, e in enumerate(full0["log"]) if e[0] == "cmd"), 0):])
        if len(full0["trace"]) >= 10 and big_fan and midrun:
            nontriv += 1
        ndraws = {}
        for vi, job, o in lst_all:
            for nm in "abc":
                ndraws[nm] = max(ndraws.get(nm, 0), sum(1 for d in o["full"]["draws"] if d[0] == nm))
        pairs = [(dict(job["job"]["case"], _early_built=True,
                       cmds=[list(c) for c in (job["job"]["case"].get("pilot") or [])] + job["job"]["case"]["cmds"]), o["full"])
                 for vi, job, o in lst_all if not job["job"]["case"].get("stop_at")]
        groups.append((pi, model, ndraws, pairs))
    hist["distinct_hash_probes"] = len(hist["distinct_hash_probes"])
    run.cov["evaluations"] = n_children
    run.cov["programs"] = len(programs)
    run.cov["distinct_nontrivial"] = nontriv
    run.cov["rule"] = RULE
    run.cov["firings_checked_for_subscription_order"] = n_firings
    run.cov["feature_histogram"] = hist
    if by_prog.get(0):
        o = by_prog[0][0][2]
        if "parts" in o:
            run.add_sample({"model": programs[0][1], "digest": o["digest"], "trace_len": len(o["parts"]["trace"]),
                            "deliveries": len(o["parts"]["deliveries"])})

    for sig, (pi, what, job) in list(bads.items())[:3]:
        clock, model, vseed = programs[pi]
        run.violation(sig, what, {"clock": clock, "model": model, "variant_seed": vseed, "child_job": job,
                                  "how": "echo '<child_job.job>' | PYTHONHASHSEED=<hashseed> PYTHONPATH=/repo/src python harness/c07_child.py; "
                                         "compare with the same case run with PYTHONHASHSEED=0 and no prior activity"})

    items = [(case, obs) for _, _, _, pairs in groups for case, obs in pairs]
    codes, err = coq_compare(items) if items else ([], None)
    if err:
        run.violation("correspondence-not-evaluable", err, {}, found_input=False)
        return run.finish()
    n_ok = sum(1 for v in codes if v == 0)
    n_dis = sum(1 for v in codes if v == 1)
    run.cov["traces_validated_against_impl"] = n_ok
    run.cov["model_impl_mismatches"] = n_dis
    run.cov["cases_outside_model"] = sum(1 for v in codes if v == 2)
    run.cov["cases_not_representable"] = sum(1 for v in codes if v == 3)
    if n_dis and not bads:
        case, obs = items[codes.index(1)]
        view = c06.ycoq_view(PID, case, obs)
        run.violation("model-impl-disagree",
                      "the composed model Sim.Repro.ycase_code no longer predicts the implementation's run, but all child "
                      "processes agree with each other and with the subscription-order clause",
                      {"case": case, "impl_observation": {k: obs.get(k) for k in ("snaps", "trace", "ntfs", "outs", "obs", "canc", "dlv", "draws")},
                       "model_view": view, "relation": "Sim.Repro.ycase_code"}, found_input=False)
    if not proofs_ok and not run.violations:
        run.violation("proof-broken", f"a {PID} proof obligation no longer checks: " + getattr(run, "proof_log", "")[-800:],
                      {"theorems": run.cov.get("theorems")}, found_input=False)
    return run.finish()


def judge_program(clock, model, vseed, with_stop=True):
    """run all children of one program; returns (signature, text, job) of the first violated clause or None"""
    vr = random.Random(vseed)
    jobs = [{"job": {"prior": prior, "case": case, "full": True}, "hashseed": hs}
            for hs, prior, case in variants(vr, model, clock, with_stop=with_stop)]
    outs = run_children(jobs)
    ref = outs[0]
    for vi, (job, o) in enumerate(zip(jobs, outs)):
        if "error" in o or o.get("notes"):
            return ("child-error", f"child {vi}: {o.get('error') or o.get('notes')}", job)
    for vi, (job, o) in enumerate(zip(jobs, outs)):
        why, _ = subscription_order(o["full"]["log"])
        if why:
            return ("listeners-not-notified-in-subscription-order", f"child {vi} (PYTHONHASHSEED={job['hashseed']}): {why}", job)
        if o["digest"] != ref["digest"]:
            part, what = first_diff(ref["parts"], o["parts"])
            return (f"run-differs-between-processes-{part}", f"child {vi} (PYTHONHASHSEED={job['hashseed']}, prior activity "
                    f"{job['job']['prior']}, pilot run {job['job']['case'].get('pilot')}, commands {job['job']['case']['cmds'][1:]}) differs from child 0: {what}", job)
    return None


def replay(path: str) -> int:
    """./check C07 --replay <file>: run the recorded program again in its child interpreters (all hash seeds, prior
    activities and pause patterns) and judge it with the model-independent clauses."""
    body = json.loads(Path(path).read_text())
    if "model" not in body:
        print(f"nothing replayable in {path} (no concrete input was found for this violation: {body.get('what', '')[:200]})")
        return 1 if body.get("property") == PID else 2
    bad = judge_program(body["clock"], body["model"], body.get("variant_seed", 1))
    if bad:
        print(f"VIOLATION property={PID} replay={path}")
        print(f"  {bad[0]}: {bad[1]}")
        return 1
    print(f"replay passes on this tree: property={PID} program={json.dumps(body['model'])[:300]}")
    return 0


if __name__ == "__main__":
    sys.exit(main(sys.argv[1] if len(sys.argv) > 1 else "quick"))
