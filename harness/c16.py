"""C16 -- quantity arithmetic is dimensionally sound and type safe.

Tie to /repo on every run:
 (T) translator/dump_units.py regenerates Gen_Tables.v from the imported module (into a directory keyed
     by the content of the tree's units.py, see c16_units.Tree; runs on different trees share nothing); the
     table theorems (Units/GenFacts16.v: mul_table_sound, div_table_sound, tables_closed, ...)
     are recompiled against it, Props/C16.v is re-checked.
 (C) dispatch on ALL ordered pairs of the discovered quantity classes x {*, /}, number-by-quantity,
     quantity-by-SI, SI-by-SI, mixed and same-type + - and comparisons, as_quantity on all pairs,
     printer/parser on random signatures x 8 formats and on damaged strings: executed on the real
     classes and on Units.Dispatch.eval (vm_compute in coqc), outcomes compared bit-exactly.
An oracle that does not use the Coq model (signature arithmetic recomputed from sisig(), float
products recomputed in Python) classifies disagreements and finds the failing input.
"""
from __future__ import annotations

import json
import random
import sys
from pathlib import Path

sys.path.insert(0, str(Path(__file__).resolve().parent))
import common as C
import c16_units as UU

PID = "C16"
TABLE_CHECKS = ["classes_plain", "mul_closed", "div_closed", "sidict", "sisig_agrees", "mul_table", "div_table",
                "base_factor", "dimensionless", "siunits"]
CMPS = ["==", "!=", "<", "<=", ">", ">="]
OPW = {"*": "*", "/": "-over-", "+": "+", "-": "-minus-", "==": "-eq-", "!=": "-ne-", "<": "-lt-", "<=": "-le-", ">": "-gt-", ">=": "-ge-"}


# ------------------------------------------------------------------ generation
def rnd_value(rng: random.Random) -> dict:
    r = rng.random()
    if r < 0.15:
        return {"t": "num", "v": UU.fhex(rng.choice([1, 2, 3, 5, 7, 10, 12, 100, -4])), "int": True}
    if r < 0.25:
        return {"t": "num", "v": UU.fhex(rng.choice([0.5, 2.0, -1.0, 1000.0, 0.25, 1e6]))}
    mag = rng.choice([1e-3, 0.1, 1.0, 10.0, 1e3, 1e6])
    v = (rng.random() + 0.05) * mag * rng.choice([1, 1, 1, -1])
    return {"t": "num", "v": UU.fhex(v)}


def q_spec(ctx, rng, cls: str, value: dict | None = None, base: bool = False) -> dict:
    v = value or rnd_value(rng)
    units = ctx.units_of(cls)
    unit = ctx.dump["classes"][ctx.index[cls]]["base"] if base else rng.choice(units)
    s = {"t": "q", "cls": cls, "v": v["v"], "unit": unit}
    if v.get("int"):
        s["int"] = True
    return s


def rnd_sig(rng: random.Random, lim: int = 3, dense: bool = False) -> list:
    p = 0.7 if dense else 0.35
    return [rng.randint(-lim, lim) if rng.random() < p else 0 for _ in range(9)]


def si_spec(rng, sig, value: dict | None = None) -> dict:
    v = value or rnd_value(rng)
    s = {"t": "si", "v": v["v"], "sig": list(sig)}
    if v.get("int"):
        s["int"] = True
    return s


ZERO = {"t": "num", "v": UU.fhex(0.0)}


def gen_cases(ctx, rng: random.Random, tier: str):
    names = ctx.names
    specs = []

    def add(group, spec, **extra):
        spec = dict(spec)
        spec["group"] = group
        spec.update(extra)
        specs.append(spec)

    n_val = 2 if tier == "quick" else 12
    # 1. all ordered pairs x {*, /}
    for a in names:
        for b in names:
            for op in ("*", "/"):
                for j in range(n_val):
                    add("pair", {"k": "bin", "op": op, "x": q_spec(ctx, rng, a, base=(j == 1)),
                                 "y": q_spec(ctx, rng, b, base=(j == 1))})
                if rng.random() < 0.15:
                    add("pair-zero", {"k": "bin", "op": op, "x": q_spec(ctx, rng, a), "y": q_spec(ctx, rng, b, ZERO)})
    # 2. number by quantity, quantity by number (float, int, zero), str on either side
    for a in names:
        for op in ("*", "/"):
            for _ in range(n_val):
                add("num", {"k": "bin", "op": op, "x": q_spec(ctx, rng, a), "y": rnd_value(rng)})
                add("num", {"k": "bin", "op": op, "x": rnd_value(rng), "y": q_spec(ctx, rng, a)})
            add("num-zero", {"k": "bin", "op": op, "x": q_spec(ctx, rng, a), "y": ZERO})
            add("num-zero", {"k": "bin", "op": op, "x": ZERO, "y": q_spec(ctx, rng, a)})
            add("num-zero", {"k": "bin", "op": op, "x": rnd_value(rng), "y": q_spec(ctx, rng, a, ZERO)})
            add("str", {"k": "bin", "op": op, "x": q_spec(ctx, rng, a), "y": {"t": "str"}})
            add("str", {"k": "bin", "op": op, "x": {"t": "str"}, "y": q_spec(ctx, rng, a)})
    # 3. quantity by SI, SI by quantity
    for a in names:
        for op in ("*", "/"):
            for _ in range(n_val):
                add("q-si", {"k": "bin", "op": op, "x": q_spec(ctx, rng, a), "y": si_spec(rng, rnd_sig(rng))})
                add("q-si", {"k": "bin", "op": op, "x": si_spec(rng, rnd_sig(rng)), "y": q_spec(ctx, rng, a)})
    # 4. SI by SI / number / str: * / + - comparisons, equal and different signatures
    n_si = 120 if tier == "quick" else 3000
    for _ in range(n_si):
        s1 = rnd_sig(rng)
        s2 = list(s1) if rng.random() < 0.5 else rnd_sig(rng)
        for op in ("*", "/", "+", "-", rng.choice(CMPS), rng.choice(CMPS)):
            add("si-si", {"k": "bin", "op": op, "x": si_spec(rng, s1), "y": si_spec(rng, s2)})
        v = rnd_value(rng)
        add("si-si", {"k": "bin", "op": rng.choice(CMPS), "x": si_spec(rng, s1, v), "y": si_spec(rng, s1, v)})
        op = rng.choice(["*", "/", "+", "-"] + CMPS)
        other = rng.choice([rnd_value(rng), ZERO, {"t": "str"}])
        if rng.random() < 0.5:
            add("si-num", {"k": "bin", "op": op, "x": si_spec(rng, s1), "y": other})
        else:
            add("si-num", {"k": "bin", "op": op, "x": other, "y": si_spec(rng, s1)})
        add("si-un", {"k": "un", "op": rng.choice(["neg", "abs", "pos"]), "x": si_spec(rng, s1)})
    # 5. mixed + - comparison on all ordered pairs of different classes; same-type ops
    for a in names:
        for b in names:
            if a == b:
                continue
            ops = ["+", "-", rng.choice(CMPS)] if tier == "quick" else ["+", "-"] + CMPS
            for op in ops:
                add("mixed", {"k": "bin", "op": op, "x": q_spec(ctx, rng, a), "y": q_spec(ctx, rng, b)})
    for a in names:
        for op in ["+", "-"] + CMPS:
            add("same", {"k": "bin", "op": op, "x": q_spec(ctx, rng, a), "y": q_spec(ctx, rng, a)})
        v = rnd_value(rng)
        add("same", {"k": "bin", "op": rng.choice(CMPS), "x": q_spec(ctx, rng, a, v, base=True),
                     "y": q_spec(ctx, rng, a, v, base=True)})
        # quantity against SI of the same signature, numbers, str
        sig = ctx.dump["classes"][ctx.index[a]]["sisig"]
        for op in ("+", "-", rng.choice(CMPS)):
            add("mixed-si", {"k": "bin", "op": op, "x": q_spec(ctx, rng, a), "y": si_spec(rng, sig)})
            add("mixed-si", {"k": "bin", "op": op, "x": si_spec(rng, sig), "y": q_spec(ctx, rng, a)})
            add("mixed-num", {"k": "bin", "op": op, "x": q_spec(ctx, rng, a), "y": rnd_value(rng)})
            add("mixed-num", {"k": "bin", "op": op, "x": rnd_value(rng), "y": q_spec(ctx, rng, a)})
        op = rng.choice(["+", "-"] + CMPS)
        add("mixed-str", {"k": "bin", "op": op, "x": q_spec(ctx, rng, a), "y": {"t": "str"}})
        add("mixed-str", {"k": "bin", "op": op, "x": {"t": "str"}, "y": q_spec(ctx, rng, a)})
    # 6. as_quantity on all ordered pairs (signature of A offered to class B), asSI, sisig, class siunit
    for a in names:
        sig = ctx.dump["classes"][ctx.index[a]]["sisig"]
        for b in names:
            add("as_quantity", {"k": "as_quantity", "x": si_spec(rng, sig), "target": b})
        add("as_quantity", {"k": "as_quantity", "x": si_spec(rng, sig), "target": None})
        add("as_quantity", {"k": "as_quantity", "x": si_spec(rng, rnd_sig(rng)), "target": a})
        add("asSI", {"k": "get", "g": "asSI", "x": q_spec(ctx, rng, a)})
        add("asSI", {"k": "get", "g": "sisig", "x": q_spec(ctx, rng, a)})
        for d, h, t in UU.FORMATS:
            add("class-siunit", {"k": "siunit", "x": q_spec(ctx, rng, a, base=True), "div": d, "hat": h, "dot": t})
    # 7. SI construction from text, unit text of results, printer
    n_sig = 160 if tier == "quick" else 10000
    for i in range(n_sig):
        lim = rng.choice([1, 3, 9])
        sig = rnd_sig(rng, lim, dense=(i % 3 == 0))
        x = si_spec(rng, sig)
        add("si-unit", {"k": "get", "g": "unit", "x": x})
        add("si-unit", {"k": "get", "g": "str", "x": x})
        for d, h, t in UU.FORMATS:
            add("print", {"k": "siunit", "x": x, "div": d, "hat": h, "dot": t, "roundtrip": sig})
    return specs


def damage(rng: random.Random, s: str) -> str:
    alphabet = "radskgmAKolc0123456789^-./ x1"
    r = rng.random()
    if not s or r < 0.3:
        i = rng.randint(0, len(s))
        return s[:i] + rng.choice(alphabet) + s[i:]
    i = rng.randrange(len(s))
    if r < 0.6:
        return s[:i] + s[i + 1:]
    if r < 0.85:
        return s[:i] + rng.choice(alphabet) + s[i + 1:]
    j = rng.randrange(len(s))
    return s[:i] + s[j:] + s[i:j] if i < j else s[:j] + s[i:] + s[j:i]


# ------------------------------------------------------------------ oracle (no Coq model involved)
def kind_name(v) -> str:
    return v["cls"] if v["t"] == "q" else {"si": "SI", "num": "number", "str": "str"}.get(v["t"], v["t"])


def opsig(ctx, v):
    if v["t"] == "q":
        return list(getattr(ctx.U, v["cls"]).sisig())
    if v["t"] == "si":
        return list(v["sig"])
    return [0] * 9


def oracle(ctx, spec, out, ops):
    """Returns None or (signature, description). Evaluates the clauses of C16 on the
    implementation's own outputs."""
    k = spec["k"]
    if "setup_failed" in out:
        return ("operand-construction-fails", f"could not build the operands of {spec}: {out['setup_failed']}")
    if "bad" in out:
        return ("malformed-result", f"{spec}: result {out['bad']}")
    if k in ("bin", "un") and ("operand_changed" in out or "second_differs" in out):
        names = "".join(kind_name(o) + (OPW[spec["op"]] if i == 0 and k == "bin" else "") for i, o in enumerate(ops))
        if "operand_changed" in out:
            return (f"operation-changes-its-operand:{spec['op'] if k == 'un' else ''}{names}",
                    f"{spec['op']} on {ops} left an operand (or a copy of it made earlier by scaling with a number) "
                    f"different from what it was: {out['operand_changed']}")
        return (f"repeated-operation-differs:{spec['op'] if k == 'un' else ''}{names}",
                f"{spec['op']} on the same objects {ops} gave {out.get('val') or {a: b for a, b in out.items() if a != 'second_differs'}} "
                f"the first time and {out['second_differs']} the second time")
    if k == "bin":
        x, y = ops
        op = spec["op"]
        kx, ky = kind_name(x), kind_name(y)
        opw = OPW[op]
        if "str" in (x["t"], y["t"]):
            if "raise" in out or (op in ("==", "!=") and out.get("bool") == (op == "!=")):
                return None
            return (f"str-operand-accepted:{kx}{opw}{ky}", f"{kx} {op} {ky} returned {out} instead of being refused")
        fx, fy = UU.unhex(x["si"]), UU.unhex(y["si"])
        if op in ("*", "/"):
            if op == "/" and fy == 0.0:
                return None
            tag = "mul" if op == "*" else "div"
            if "val" not in out:
                return (f"{tag}-raises:{kx}{opw}{ky}", f"{kx} {op} {ky} gave {out} on {x} , {y}")
            r = out["val"]
            es = [a + b for a, b in zip(opsig(ctx, x), opsig(ctx, y))] if op == "*" else \
                 [a - b for a, b in zip(opsig(ctx, x), opsig(ctx, y))]
            ev = fx * fy if op == "*" else fx / fy
            rn = kind_name(r)
            if r["t"] not in ("q", "si"):
                return (f"{tag}-result-not-a-quantity:{kx}{opw}{ky}", f"{kx} {op} {ky} returned {r}")
            if opsig(ctx, r) != es:
                return (f"{tag}-signature-wrong:{kx}{opw}{ky}->{rn}",
                        f"{kx} {op} {ky} returned a {rn} with SI signature {opsig(ctx, r)}; the operands' signatures "
                        f"{opsig(ctx, x)} and {opsig(ctx, y)} give {es}")
            if r["si"] != UU.fhex(ev) and not (ev != ev and UU.unhex(r["si"]) != UU.unhex(r["si"])):
                return (f"{tag}-si-value-wrong:{kx}{opw}{ky}->{rn}",
                        f"{kx} {op} {ky}: SI value {UU.unhex(r['si'])!r}, operands' SI values {fx!r} {op} {fy!r} = {ev!r}")
            if "number" in (kx, ky) and not (op == "/" and kx == "number"):
                q = y if kx == "number" else x
                if r["t"] != q["t"] or r.get("cls") != q.get("cls") or r.get("unit") != q.get("unit"):
                    return (f"scaling-changes-type:{kx}{opw}{ky}", f"{kx} {op} {ky} returned {r}")
            return None
        same = (x["t"] == "q" and y["t"] == "q" and x["cls"] == y["cls"]) or \
               (x["t"] == "si" and y["t"] == "si" and x["sig"] == y["sig"])
        if op in ("+", "-"):
            tag = "add" if op == "+" else "sub"
            if same:
                ev = fx + fy if op == "+" else fx - fy
                ok = "val" in out and out["val"]["t"] == x["t"] and out["val"].get("cls") == x.get("cls") and \
                     out["val"]["si"] == UU.fhex(ev) and \
                     (out["val"].get("unit") == x.get("unit") if x["t"] == "q" else out["val"]["sig"] == x["sig"])
                return None if ok else (f"same-type-{tag}-wrong:{kx}", f"{x} {op} {y} gave {out}, expected SI value {ev!r} "
                                                                       "with the left operand's type and unit")
            if "raise" in out:
                return None
            if x["t"] == "si" and y["t"] == "si":
                return (f"si-{tag}-mixed-signature-accepted",
                        f"SI {op} SI with different signatures {x['sig']} and {y['sig']} returned {out['val'] if 'val' in out else out} "
                        "instead of being refused")
            return (f"mixed-{tag}-accepted:{kx}{opw}{ky}", f"{x} {op} {y} returned {out} instead of being refused")
        # comparisons
        if same:
            ev = {"==": fx == fy, "!=": fx != fy, "<": fx < fy, "<=": fx <= fy, ">": fx > fy, ">=": fx >= fy}[op]
            return None if out.get("bool") is ev else (f"same-type-compare-wrong:{kx}", f"{x} {op} {y} gave {out}, SI values give {ev}")
        if op in ("==", "!="):
            return None if out.get("bool") is (op == "!=") else \
                (f"mixed-compare-accepted:{kx}{opw}{ky}", f"{x} {op} {y} gave {out}")
        return None if "raise" in out else (f"mixed-compare-accepted:{kx}{opw}{ky}",
                                            f"ordering {x} {op} {y} returned {out} instead of being refused")
    if k == "as_quantity":
        x = ops[0]
        if spec["target"] is None:
            return None if "raise" in out else ("as-quantity-accepts-non-quantity", f"as_quantity(float) gave {out}")
        ts = list(getattr(ctx.U, spec["target"]).sisig())
        if ts == x["sig"]:
            ok = "val" in out and out["val"].get("cls") == spec["target"] and out["val"]["si"] == x["si"]
            return None if ok else (f"as-quantity-refuses-matching-signature:{spec['target']}",
                                    f"SI {x['sig']} .as_quantity({spec['target']}) gave {out}")
        return None if "raise" in out else (f"as-quantity-accepts-other-signature:{spec['target']}",
                                            f"SI {x['sig']} .as_quantity({spec['target']}) (signature {ts}) gave {out}")
    if k == "parse" and "roundtrip" in spec:
        if out.get("sig") != spec["roundtrip"]:
            return ("si-string-roundtrip-fails", f"signature {spec['roundtrip']} printed as {spec['s']!r} (format {spec['fmt']}) "
                                                 f"parses to {out}")
    if k == "un":
        x = ops[0]
        fx = UU.unhex(x["si"])
        ev = {"neg": -fx, "abs": abs(fx), "pos": fx}[spec["op"]]
        ok = "val" in out and out["val"]["si"] == UU.fhex(ev) and out["val"].get("sig") == x.get("sig")
        return None if ok else (f"unary-{spec['op']}-wrong:SI", f"{spec['op']} {x} gave {out}")
    return None


def simplify(ctx, spec):
    """a smaller variant of a failing binary case: small integers in the base units"""
    def simp(v, val):
        if v["t"] == "q":
            return {"t": "q", "cls": v["cls"], "v": UU.fhex(val), "unit": ctx.dump["classes"][ctx.index[v["cls"]]]["base"]}
        if v["t"] == "si":
            return {"t": "si", "v": UU.fhex(val), "sig": v["sig"]}
        if v["t"] == "num":
            return {"t": "num", "v": UU.fhex(val)}
        return v
    if spec["k"] != "bin":
        return None
    s = dict(spec)
    s["x"] = simp(spec["x"], 3.0)
    s["y"] = simp(spec["y"], 1.0)
    return s


# ------------------------------------------------------------------ table checks
def table_violations(run, ctx, coq_off, py_off, names):
    """Turn failed table checks into violations with the concrete entries."""
    dumpc = ctx.dump["classes"]

    def entry_text(check, ci, ei):
        c = dumpc[ci]
        if check in ("mul_closed", "mul_table"):
            return f"{c['name']}._mul entry #{ei}: {c['mul'][ei]}" if ei < len(c["mul"]) else f"{c['name']}._mul #{ei}"
        if check in ("div_closed", "div_table"):
            return f"{c['name']}._div entry #{ei}: {c['div'][ei]}" if ei < len(c["div"]) else f"{c['name']}._div #{ei}"
        if check == "sidict":
            return f"{c['name']}._sidict entry #{ei}: {c['sidict'][ei]}"
        return f"{c['name']}"
    for check in names:
        co = coq_off.get(check, [])
        po = py_off.get(check, [])
        if not co and not po:
            continue
        if check in ("mul_table", "div_table") and po:
            for o in po[:10]:
                op = "*" if check == "mul_table" else "/"
                tag = "mul" if op == "*" else "div"
                if "other" in o:
                    sig = f"{tag}-signature-wrong:{o['cls']}{OPW[op]}{o['other']}->{o['result']}"
                    what = (f"{o['cls']}._{tag} maps {o['other']} to {o['result']} whose SI signature {o['result_sig']} is not "
                            f"the {'sum' if op == '*' else 'difference'} {o['expected_sig']} of the operands' signatures")
                else:
                    sig = f"{tag}-table-entry-not-a-class:{o['cls']}"
                    what = f"{o['cls']}._{tag} entry {o['entry']} does not name quantity classes"
                run.violation(sig, what, {"table_entry": o, "theorem": f"C16_{check}_sound", "coq_offenders": co,
                                          "how": f"getattr(pydsol.core.units, '{o['cls']}')._{tag} ; compare sisig() of key and value"})
            continue
        if po:
            o = po[0]
            run.violation(f"table-{check}-violated:{o.get('cls', '')}",
                          f"table check {check} fails on the live module: {o}",
                          {"offenders": po[:20], "coq_offenders": co}, found_input=True)
        else:
            run.violation(f"table-{check}-fails-in-coq",
                          f"Coq table check {check} fails over the regenerated Gen_Tables.v but the same clause evaluated on "
                          f"the live module holds: " + "; ".join(entry_text(check, *p) if isinstance(p, tuple) else str(p) for p in co[:5]),
                          {"coq_offenders": co}, found_input=False)


# ------------------------------------------------------------------ main
def main(tier: str) -> int:
    run = UU.SafeRun(PID, tier)
    try:
        tree = UU.Tree()
        dump = tree.prepare()
        U = UU.load_units()
    except Exception as exc:  # noqa
        run.violation("harness-cannot-load-units", f"translator / import failed: {type(exc).__name__}: {exc}", {}, found_input=False)
        return run.finish()
    ctx = UU.Ctx(U, dump, tree)
    import time as _t
    phase = {"translate": round(_t.time() - run.t0, 1)}
    _t0 = _t.time()
    proofs_ok = UU.check_proofs(run, tree, extra_tb=[
        "the names Print Assumptions lists (float, add, sub, mul, div, opp, abs, eqb, ltb, leb) are the kernel's primitive "
        "binary64 type and operations, which Coq reports there; the development declares no axiom and uses none of FloatAxioms",
        "reflective translator translator/dump_units.py (tables regenerated from the imported module on every run; "
        "read back and compared with the live classes)",
        "binary64 arithmetic is executed (PrimFloat in vm_compute), never reasoned about: theorems about SI values are over an "
        "abstract number structure; the law x*1 = x they use is proved for exact rationals and only validated (bit-exact "
        "correspondence) for floats",
        "Python operator dispatch (reflected methods, subclass priority) is transcribed by hand in Units/Dispatch.v "
        "(and mirrored in coq/Units/GenAgree.v: gen_left_method / gen_reflected)",
    ])
    run.cov["translator"] = dump["_log"]
    phase["build_and_recheck_props"] = round(_t.time() - _t0, 1)
    _t0 = _t.time()
    run.cov["phase_s"] = phase

    # ---- table checks: Coq offender lists and the independent Python evaluation
    coq_off, counts, err = UU.coq_table_offenders(PID, UU.C16_CHECKS, tree)
    py_off = UU.python_table_offenders(ctx)
    if err:
        run.violation("table-checks-not-evaluable", "coqc could not evaluate the table checks over Gen_Tables.v: " + err,
                      {}, found_input=False)
        coq_off = {}
    else:
        if counts != UU.live_counts(ctx):
            run.violation("translator-readback-differs", "table sizes read back from Gen_Tables.v differ from the live classes",
                          {"coq": counts, "live": UU.live_counts(ctx)}, found_input=False)
        table_violations(run, ctx, coq_off, py_off, TABLE_CHECKS)
    run.cov["table_checks"] = {k: {"coq_offenders": len(coq_off.get(k, [])), "python_offenders": len(py_off.get(k, []))}
                               for k in TABLE_CHECKS}
    run.cov["table_entries"] = {"classes": len(ctx.names), "mul_entries": sum(len(c["mul"]) for c in dump["classes"]),
                                "div_entries": sum(len(c["div"]) for c in dump["classes"])}

    phase["table_checks"] = round(_t.time() - _t0, 1)
    _t0 = _t.time()
    # ---- cases
    rng = random.Random(run.seed * 104729 + 16)
    specs = []
    corpus = C.VERIF / "corpus" / "C16.json"
    if corpus.exists():
        specs += json.loads(corpus.read_text())
    specs += gen_cases(ctx, rng, tier)
    cases = []
    hist = {}
    fails = {}
    nontrivial = set()
    n_damaged = 200 if tier == "quick" else 6000
    printed = []

    def execute(spec):
        out, ops, _raw = UU.run_call(ctx, spec)
        cs = {"spec": spec, "out": out, "ops": ops}
        cases.append(cs)
        g = spec.get("group", "corpus")
        hist[g] = hist.get(g, 0) + 1
        bad = oracle(ctx, spec, out, ops)
        if bad and bad[0] not in fails:
            fails[bad[0]] = (cs, bad)
        if spec["k"] == "bin" and len(ops) == 2 and all(o["t"] in ("q", "si") for o in ops):
            fx, fy = UU.unhex(ops[0]["si"]), UU.unhex(ops[1]["si"])
            if fx not in (0.0, 1.0) and fy not in (0.0, 1.0):
                nontrivial.add((spec["op"], json.dumps(ops[0].get("cls") or ops[0].get("sig")),
                                json.dumps(ops[1].get("cls") or ops[1].get("sig"))))
        return cs

    for spec in specs:
        cs = execute(spec)
        if spec["k"] == "siunit" and "roundtrip" in spec and "text" in cs["out"]:
            printed.append((spec, cs["out"]["text"]))
    # parse what was printed (round trip), then damaged strings
    for spec, text in printed:
        execute({"k": "parse", "s": text, "roundtrip": spec["roundtrip"], "group": "parse-printed",
                 "fmt": [spec["div"], spec["hat"], spec["dot"]]})
    for _ in range(n_damaged):
        _, text = rng.choice(printed)
        execute({"k": "parse", "s": damage(rng, text), "group": "parse-damaged"})
        execute({"k": "mksi", "v": rnd_value(rng), "unit": damage(rng, text) if rng.random() < 0.5 else text,
                 "group": "si-construct"})
    execute({"k": "mksi", "v": {"t": "str"}, "unit": "m", "group": "si-construct"})

    run.cov["evaluations"] = len(cases)
    run.cov["distinct_nontrivial"] = len(nontrivial)
    run.cov["rule"] = ("all ordered pairs of the discovered quantity classes x {*, /} (operands in random declared units and in base "
                       "units, non-dyadic values, ints, zero divisors), number-by-quantity, quantity-by-SI, SI-by-SI, mixed and "
                       "same-type + - comparisons on all ordered pairs of different classes, as_quantity on all ordered pairs, "
                       "printer x 8 formats and parser on printed and damaged strings; non-trivial = distinct (operator, left "
                       "class or signature, right class or signature) of a binary operation between two quantities / SI values "
                       "whose SI values are both outside {0, 1}")
    run.cov["case_groups"] = hist
    run.cov["outcome_kinds"] = {}
    for cs in cases:
        kk = "raise:" + cs["out"]["raise"] if "raise" in cs["out"] else next(iter(cs["out"]))
        run.cov["outcome_kinds"][kk] = run.cov["outcome_kinds"].get(kk, 0) + 1
    for cs in cases[:2] + cases[len(cases) // 2: len(cases) // 2 + 1]:
        run.add_sample({"call": cs["spec"], "operands": cs["ops"], "observed": cs["out"]})

    # ---- oracle findings (concrete failing inputs on the real code)
    families = {}
    for sig in fails:
        families.setdefault(sig.split(":", 1)[0], []).append(sig)
    for sig, (cs, bad) in fails.items():
        fam = families[sig.split(":", 1)[0]]
        if fam.index(sig) >= 3:          # a systematic failure: three concrete inputs per kind are enough
            continue
        more = f" [{len(fam)} operand-type combinations fail this way]" if len(fam) > 3 and fam.index(sig) == 0 else ""
        bad = (bad[0], bad[1] + more)
        small = simplify(ctx, cs["spec"])
        if small:
            o2, ops2, _ = UU.run_call(ctx, small)
            b2 = oracle(ctx, small, o2, ops2)
            if b2 and b2[0] == sig:
                cs, bad = {"spec": small, "out": o2, "ops": ops2}, (b2[0], b2[1] + more)
        run.violation(sig, bad[1], {"call": cs["spec"], "operands": cs["ops"], "observed": cs["out"],
                                    "how": "build the operands with pydsol.core.units (cls(value, unit) / SI(value, text)) and apply the operator"})

    phase["run_implementation_and_oracle"] = round(_t.time() - _t0, 1)
    _t0 = _t.time()
    # ---- model vs implementation inside coqc
    mism, err = UU.run_correspondence(run, ctx, cases)
    if err:
        run.violation("correspondence-not-evaluable", "coqc could not evaluate the C16 correspondence (Units.Dispatch.eval): " + err,
                      {}, found_input=False)
        return run.finish()
    phase["coqc_correspondence"] = round(_t.time() - _t0, 1)
    run.cov["traces_validated_against_impl"] = len(cases) - len(mism)
    run.cov["model_impl_mismatches"] = len(mism)
    unexplained = [i for i in mism if not oracle(ctx, cases[i]["spec"], cases[i]["out"], cases[i]["ops"])]
    if unexplained:
        cs = cases[unexplained[0]]
        run.violation("model-impl-disagree:" + cs["spec"].get("group", cs["spec"]["k"]),
                      "correspondence Units.Dispatch.eval no longer matches the implementation, but no clause of C16 is violated "
                      f"by the observed outcome ({len(unexplained)} cases)",
                      {"call": cs["spec"], "operands": cs["ops"], "observed": cs["out"], "relation": "Units.Dispatch.case_ok",
                       "other_cases": [cases[i]["spec"] for i in unexplained[1:6]]}, found_input=False)
    # ---- the tie to the source text broke and the clause oracle saw nothing yet: search harder for a failing input
    tie = tree.broken(PID)
    searched = 0
    if tie and not fails:
        rng2 = random.Random(run.seed * 7919 + 1616)
        found = None
        for spec in gen_cases(ctx, rng2, tier):
            out, ops, _raw = UU.run_call(ctx, spec)
            searched += 1
            bad = oracle(ctx, spec, out, ops)
            if bad:
                found = ({"spec": spec, "out": out, "ops": ops}, bad)
                break
        if found:
            cs, bad = found
            run.violation(bad[0], bad[1], {"call": cs["spec"], "operands": cs["ops"], "observed": cs["out"],
                                           "how": "build the operands with pydsol.core.units (cls(value, unit) / SI(value, text)) and apply the operator"})
    run.cov["extra_cases_searched_with_oracle_only"] = searched
    if tie and not run.violations:
        UU.report_broken_tie(run, tree, {"model_impl_mismatching_cases": len(mism), "cases_searched": len(cases) + searched})
    if not proofs_ok and not run.violations:
        run.violation("proof-broken", "a C16 proof obligation no longer checks: " + getattr(run, "proof_log", "")[-800:],
                      {"theorems": run.cov.get("theorems")}, found_input=False)
    return run.finish()


def replay(path: str) -> int:
    """Re-run the call stored in a replay file on the current tree and re-evaluate the oracle."""
    body = json.loads(Path(path).read_text())
    tree = UU.Tree()
    dump = tree.prepare()
    ctx = UU.Ctx(UU.load_units(), dump, tree)
    if "call" not in body:
        # a table finding: evaluate the table clauses on the live module again
        class Probe:
            def __init__(self):
                self.sigs = {}

            def violation(self, signature, what, replay, found_input=True):
                self.sigs[UU.slug(signature)] = what
        probe = Probe()
        table_violations(probe, ctx, {}, UU.python_table_offenders(ctx), TABLE_CHECKS)
        hit = body.get("signature") in probe.sigs
        print(json.dumps({"signature": body.get("signature"), "still_violated": hit,
                          "what": probe.sigs.get(body.get("signature"))}, indent=1))
        if hit:
            print(f"VIOLATION property={PID} replay={path}")
            return 1
        return 0
    out, ops, _ = UU.run_call(ctx, body["call"])
    bad = oracle(ctx, body["call"], out, ops)
    print(json.dumps({"call": body["call"], "observed": out, "violated": bad[0] if bad else None}, indent=1))
    if bad:
        print(f"VIOLATION property={PID} replay={path}")
        return 1
    return 0


if __name__ == "__main__":
    sys.exit(main(sys.argv[1] if len(sys.argv) > 1 else "quick"))
