"""C18 — input parameters always hold a valid value, addressable by their dotted key.

Tie: operation sequences (set_value / add / remove / get / inspect on trees of
all eight parameter classes, through the objects and through
DSOLModel.set_parameter / get_parameter; constructions that fail, also for
wrongly typed arguments) are run on the real classes of /repo and on the
Gallina model Params.Model (step repaired = the line-by-line transcription of
get / remove) inside coqc; every return value / exception kind, every
self-reported declaration and, after every attempt, the dump of the whole tree
(extended key, identity, value, default of every parameter in iteration
order, floats exact) must agree.

Oracle (independent of the Coq model): after every operation the property's
own clauses are evaluated on the live objects - validity per class against
the arguments the parameter was constructed with and against what the object
reports, nothing changed by a raising attempt, read-only / default constancy,
root.get(extended key) identity, order by priority then insertion, duplicate
refusal, removal, model-level round trip - and the tree is compared with a
reference tree kept from the implementation's own accept / reject answers.
It classifies disagreements and is used to find and shrink failing inputs.

Second tie (harness/c18lib.py): on every run the method bodies of parameters.py and
model.py of the tree under test are translated (Python `ast`, fail-closed) into
Gallina and proved equal to the hand-written model (coq/Params/GenAgree.v); the
last section of Props/C18.v restates the main theorems over the generated
functions.  When that tie breaks the same oracle searches for a failing input.
"""
from __future__ import annotations

import json
import math
import random
import sys
from pathlib import Path

sys.path.insert(0, str(Path(__file__).resolve().parent))
import common as C
import c18lib as L

PID = "C18"
# built in coq/ (independent of the source text); Gen_Params / GenAgree / Props are compiled per tree (c18lib.ParamsTree)
TARGETS = ["Params/Model.vo", "Params/Proofs.vo"]
# class tag = index; 3/4, 5/6, 7/8 are pairs of DIFFERENT classes with the SAME SI signature
QCLS = ["Length", "Duration", "Speed", "Torque", "Energy", "Frequency", "RadioActivity", "AbsorbedDose", "EquivalentDose"]
TWIN = {3: 4, 4: 3, 5: 6, 6: 5, 7: 8, 8: 7}
EXN = ["TypeError", "ValueError", "KeyError", "NotImplementedError", "AttributeError"]
KINDS = ["map", "int", "float", "str", "bool", "qty", "sel", "unit"]

_mods = {}


def mods():
    """Late import of the implementation under test."""
    if not _mods:
        from pydsol.core import parameters as P
        from pydsol.core import units as U
        from pydsol.core.model import DSOLModel
        from pydsol.core.simulator import DEVSSimulatorFloat

        class _Model(DSOLModel):
            def construct_model(self):
                pass

        _mods.update(P=P, U=U, Model=_Model, Sim=DEVSSimulatorFloat,
                     qcls=[getattr(U, n) for n in QCLS])
    return _mods


# ------------------------------------------------------------------ value descriptors
def fhex(x: float) -> str:
    if x != x:
        return "nan"
    return float(x).hex()


def mk_value(d):
    """descriptor -> fresh Python object"""
    t = d[0]
    if t == "int":
        return int(d[1])
    if t == "bool":
        return bool(d[1])
    if t == "float":
        return float("nan") if d[1] == "nan" else float.fromhex(d[1])
    if t == "str":
        return d[1]
    if t == "none":
        return None
    if t == "qtymk":                      # (class index, display value, unit | None)
        cls = mods()["qcls"][d[1]]
        v = mk_value(d[2])
        return cls(v) if d[3] is None else cls(v, d[3])
    if t == "other":
        return {0: lambda: [1], 1: lambda: (1, 2), 2: lambda: mods()["U"].SI(1.0, "m"), 3: lambda: {}}[d[1]]()
    raise ValueError(d)


def canon(v):
    """Python object -> canonical observable (never an address)."""
    U = mods()["U"]
    if v is None:
        return ["none"]
    if type(v) is bool:
        return ["bool", v]
    if type(v) is int:
        return ["int", v]
    if type(v) is float:
        return ["float", fhex(v)]
    if type(v) is str:
        return ["str", v]
    if isinstance(v, U.Quantity) and type(v) in mods()["qcls"]:
        return ["qty", mods()["qcls"].index(type(v)), fhex(v.si), v.unit]
    if type(v) is list:
        return ["other", 0]
    if type(v) is tuple:
        return ["other", 1]
    if type(v) is U.SI:
        return ["other", 2]
    if type(v) is dict:
        return ["other", 3]
    return ["other", 9, type(v).__name__]


def decl_of(p):
    """what a parameter reports about its own declaration through public properties"""
    P = mods()["P"]

    def bound(x):
        return ["int", x] if type(x) is int else (["float", fhex(x)] if type(x) is float else ["other", 9, type(x).__name__])
    if isinstance(p, P.InputParameterMap):
        c = None
    elif isinstance(p, P.InputParameterInt):
        c = ["int", bound(p.min_value), bound(p.max_value)]
    elif isinstance(p, P.InputParameterFloat):
        c = ["float", bound(p.min_value), bound(p.max_value)]
    elif isinstance(p, P.InputParameterStr):
        c = ["str"]
    elif isinstance(p, P.InputParameterBool):
        c = ["bool"]
    elif isinstance(p, P.InputParameterQuantity):
        c = ["qty", mods()["qcls"].index(p.type), bound(p.min_si), bound(p.max_si)]
    elif isinstance(p, P.InputParameterUnit):
        c = ["unit", mods()["qcls"].index(p.unittype), list(p.options)]
    elif isinstance(p, P.InputParameterSelectionList):
        c = ["sel", list(p.options)]
    else:
        c = ["unknown", type(p).__name__]
    return [bool(p.read_only), fhex(p.display_priority), c]


# ------------------------------------------------------------------ implementation driver + oracle
def doc_valid(p, v) -> bool:
    """Validity of value v for parameter p, written from the class documentation
    (public properties only); anything that raises counts as invalid."""
    P, U = mods()["P"], mods()["U"]
    try:
        if isinstance(p, P.InputParameterMap):
            return isinstance(v, dict)
        if isinstance(p, P.InputParameterInt):
            return isinstance(v, int) and bool(p.min_value <= v <= p.max_value)
        if isinstance(p, P.InputParameterFloat):
            return isinstance(v, (int, float)) and bool(p.min_value <= v <= p.max_value)
        if isinstance(p, P.InputParameterStr):
            return isinstance(v, str)
        if isinstance(p, P.InputParameterBool):
            return isinstance(v, bool)
        if isinstance(p, P.InputParameterQuantity):
            return isinstance(v, U.Quantity) and isinstance(v, p.type) and bool(p.min_si <= v.si <= p.max_si)
        if isinstance(p, P.InputParameterUnit):
            return isinstance(v, str) and v in p.options and v in p.unittype._units
        if isinstance(p, P.InputParameterSelectionList):
            return isinstance(v, str) and v in p.options
        return True
    except Exception:
        return False


def spec_valid(spec, v) -> bool:
    """Validity of value v against what was DECLARED when the parameter was
    constructed (the arguments of the constructor call the harness made), so a
    parameter that forgets or alters its own bounds is still judged correctly."""
    U = mods()["U"]
    k = spec["kind"]
    try:
        if k == "map":
            return isinstance(v, dict)
        if k in ("int", "float"):
            lo = -math.inf if spec.get("mn") is None else mk_value(spec["mn"])
            hi = math.inf if spec.get("mx") is None else mk_value(spec["mx"])
            if k == "int" and not isinstance(v, int):
                return False
            if k == "float" and (not isinstance(v, (int, float)) or isinstance(v, (U.Quantity, U.SI))):
                return False
            return bool(lo <= v <= hi)
        if k == "str":
            return isinstance(v, str)
        if k == "bool":
            return isinstance(v, bool)
        if k == "qty":
            lo = -math.inf if spec.get("mn") is None else mk_value(spec["mn"])
            hi = math.inf if spec.get("mx") is None else mk_value(spec["mx"])
            return type(v) is type(mk_value(spec["default"])) and bool(lo <= v.si <= hi)
        if k == "sel":
            return isinstance(v, str) and v in spec["opts"]
        if k == "unit":
            return isinstance(v, str) and v in mods()["qcls"][spec["qcls"]]._units
    except Exception:
        return False
    return False


def vtype(desc) -> str:
    """coarse type tag of a value descriptor, for the measured input histogram"""
    t = desc[0]
    if t == "float":
        x = mk_value(desc)
        return "nan" if x != x else ("inf" if math.isinf(x) else "float")
    if t == "int" and abs(desc[1]) > 2 ** 53:
        return "bigint"
    if t == "qtymk":
        return "qty"
    return t


class Exec:
    """Runs operations on a fresh DSOLModel and checks the property's clauses
    on the live objects after every one of them."""

    def __init__(self, oracle=True):
        m = mods()
        self.model = m["Model"](m["Sim"]("sim"))
        self.root = self.model.input_parameters
        self.ids = {id(self.root): 0}
        self.keep = [self.root]            # keeps objects alive so id() stays unique
        self.first = {}                    # id -> (default canon, value canon, seq)
        self.seq = 0
        self.oracle_on = oracle
        self.bad = None                    # first violated clause (signature, what, op index)
        self.nops = 0
        self.free = {}                     # identity -> object that is in no map: parent-less (bottom-up construction) or
                                           # retired (handed back by remove()), in the order they became free
        self.retired = set()               # identities of the retired ones (HEAD leaves their _parent pointing at the old
                                           # map, so their extended_key() is stale by design and is not observed)
        self.last_removed = None           # (target, parent path, key, identity) of the last successful remove
        self.retired_from = {}             # identity -> (the map it was removed from, its key)
        self.reffree = {}                  # identity -> its reference tree
        self.ins = {}                      # id(obj) -> number of the op that inserted it into the map that lists it
        self.T = self.root                 # the tree the current operation works on (the model's root or a parent-less object)
        self.prev = self.dump(None)
        # reference tree, kept by the oracle from the implementation's own
        # accept / reject answers: what the tree must look like
        self.ref = {"key": self.root.key, "id": 0, "prio": 1.0, "spec": {"kind": "map"}, "kids": [],
                    "value": None, "default": ["none"]}
        self.Tref = self.ref
        self.set_hist = {}
        self.outside = False
        self.stats = {"readd_ref": 0, "readd_acc": 0, "retired_readded": 0, "retired_readded_successor": 0, "new": 0, "free_ops": 0, "attach_ok": 0, "attach_ref": 0, "attached_nodes": 0, "set_ok": 0, "set_rej": 0, "add_ok": 0, "add_rej": 0, "rm_ok": 0, "depth": 1, "ties": 0}
        self._note_new()

    # ---- walking the real tree
    def roots(self):
        """the model's root map, then the parent-less objects in creation order"""
        return [self.root] + list(self.free.values())

    def walk(self, m=None, depth=1, _path=()):
        P = mods()["P"]
        if m is None:
            for r in self.roots():
                yield from self.walk(r, 1)
            return
        yield m, depth
        if isinstance(m, P.InputParameterMap) and id(m) not in _path and depth < 40:     # (an accepted re-add can close a cycle)
            for k, c in list(m.value.items()):
                yield from self.walk(c, depth + 1, _path + (id(m),))

    def resolve(self, path):
        """oracle's own lookup in the current target tree: split on '.', walk the dicts"""
        P = mods()["P"]
        cur = self.T
        for seg in path.split("."):
            if not isinstance(cur, P.InputParameterMap) or seg not in cur.value:
                return None
            cur = cur.value[seg]
        return cur

    def struct_keys(self, R):
        """id(p) -> key path from R (R's own key first), from the dict structure"""
        P = mods()["P"]
        res = {id(R): R.key}

        def go(m, prefix, d):
            if isinstance(m, P.InputParameterMap) and d < 40:
                for k, c in list(m.value.items()):
                    res.setdefault(id(c), prefix + "." + k)
                    go(c, prefix + "." + k, d + 1)
        go(R, R.key, 1)
        return res

    def dump(self, new_id):
        P = mods()["P"]
        out = []
        struct = {}
        for ident in self.retired:
            if ident in self.free:
                struct.update(self.struct_keys(self.free[ident]))
        for p, _d in self.walk():
            if id(p) not in self.ids:
                self.ids[id(p)] = new_id if new_id is not None else -1
                self.keep.append(p)
            try:
                ek = struct[id(p)] if id(p) in struct else p.extended_key()
            except Exception as exc:      # noqa: BLE001 - e.g. a parent cycle: an observable, and never what the model says
                ek = f"<extended_key() raises {type(exc).__name__}>"
            if isinstance(p, P.InputParameterMap):
                out.append([ek, self.ids[id(p)], None, canon(p.default_value)])
            else:
                out.append([ek, self.ids[id(p)], canon(p.value), canon(p.default_value)])
        return out

    def _note_new(self):
        for p, d in self.walk():
            if id(p) not in self.first:
                self.seq += 1
                self.first[id(p)] = (canon(p.default_value), None if isinstance(p.value, dict) else canon(p.value), self.seq)
            self.stats["depth"] = max(self.stats["depth"], d)

    # ---- construction
    def construct(self, spec, parent):
        P = mods()["P"]
        fl = spec.get("flaws") or {}
        kw = {"read_only": 1 if fl.get("ro") else spec["ro"]}
        if parent is not None:
            kw["parent"] = parent
        prio = "high" if fl.get("prio") else mk_value(spec["prio"])
        key = 5 if fl.get("key") else spec["key"]
        name = {0: "n", 1: 7, 2: ""}[fl.get("name", 0)]
        k = spec["kind"]
        if k == "map":
            kw.pop("read_only")
            return P.InputParameterMap(key, name, prio, **kw)
        d = mk_value(spec["default"])
        if fl.get("fmt"):
            kw["format_str"] = 5
        if k in ("int", "float"):
            if spec.get("mn") is not None:
                kw["min_value"] = mk_value(spec["mn"])
            if spec.get("mx") is not None:
                kw["max_value"] = mk_value(spec["mx"])
            if fl.get("min"):
                kw["min_value"] = "0"
            if fl.get("max"):
                kw["max_value"] = "9"
            cls = P.InputParameterInt if k == "int" else P.InputParameterFloat
            return cls(key, name, d, prio, **kw)
        if k == "str":
            return P.InputParameterStr(key, name, d, prio, **kw)
        if k == "bool":
            return P.InputParameterBool(key, name, d, prio, **kw)
        if k == "qty":
            if spec.get("mn") is not None:
                kw["min_si"] = mk_value(spec["mn"])
            if spec.get("mx") is not None:
                kw["max_si"] = mk_value(spec["mx"])
            if fl.get("min"):
                kw["min_si"] = "0"
            if fl.get("max"):
                kw["max_si"] = "9"
            return P.InputParameterQuantity(key, name, d, prio, **kw)
        if k == "sel":
            opts = list(spec["opts"])
            if fl.get("opts") == 1:
                opts = tuple(opts)
            elif fl.get("opts") == 2:
                opts = opts + [3]
            return P.InputParameterSelectionList(key, name, opts, d, prio, **kw)
        if k == "unit":
            return P.InputParameterUnit(key, name, mods()["qcls"][spec["qcls"]], d, prio, **kw)
        raise ValueError(k)

    # ---- reference tree
    def ref_node(self, path):
        cur = self.Tref
        if path is None:
            return cur
        for seg in path.split("."):
            nxt = None
            if cur["spec"]["kind"] == "map":
                for k in cur["kids"]:
                    if k["key"] == seg:
                        nxt = k
                        break
            if nxt is None:
                return None
            cur = nxt
        return cur

    def ref_update(self, op, out):
        """apply a SUCCESSFUL operation to the reference tree"""
        t = op[0]
        if out[0] == "raise":
            return
        if t in ("addc", "addm"):
            par = self.ref_node(op[1])
            if par is None or par["spec"]["kind"] != "map":
                return
            sp = op[2]
            dv = ["none"] if sp["kind"] == "map" else arg_canon(sp["default"])
            node = {"key": sp["key"], "id": self.nops + 1, "prio": float(mk_value(sp["prio"])), "spec": sp, "kids": [],
                    "value": None if sp["kind"] == "map" else dv, "default": dv}
            i = 0
            while i < len(par["kids"]) and par["kids"][i]["prio"] <= node["prio"]:
                i += 1                                  # behind every child of priority <= its own
            par["kids"].insert(i, node)
        elif t == "remove":
            segs = op[1].split(".")
            par = self.ref_node(".".join(segs[:-1])) if len(segs) > 1 else self.Tref
            if par is not None:
                gone = [k for k in par["kids"] if k["key"] == segs[-1]]
                par["kids"] = [k for k in par["kids"] if k["key"] != segs[-1]]
                if gone:
                    self.reffree[gone[0]["id"]] = gone[0]          # retired, not gone
        elif t in ("set", "mset"):
            n = self.ref_node(op[1])
            if n is not None:
                n["value"] = arg_canon(op[2])
        elif t == "new":
            sp = op[1]
            dv = ["none"] if sp["kind"] == "map" else arg_canon(sp["default"])
            self.reffree[self.nops + 1] = {"key": sp["key"], "id": self.nops + 1, "prio": float(mk_value(sp["prio"])), "spec": sp,
                                           "kids": [], "value": None if sp["kind"] == "map" else dv, "default": dv}
        elif t == "attach":
            par = self.ref_node(op[2])
            node = self.reffree.pop(op[1], None)
            if par is None or node is None or par["spec"]["kind"] != "map":
                return
            i = 0
            while i < len(par["kids"]) and par["kids"][i]["prio"] <= node["prio"]:
                i += 1
            par["kids"].insert(i, node)

    def ref_dump(self, node=None, prefix=""):
        if node is None:
            out = self.ref_dump(self.ref)
            for r in self.reffree.values():
                out += self.ref_dump(r)
            return out
        ek = prefix + node["key"]
        out = [[ek, node["id"], node["value"], node["default"]]]
        for k in node["kids"]:
            out += self.ref_dump(k, ek + ".")
        return out

    def ref_walk(self, node=None, obj=None):
        """pairs (reference node, live object) along the live tree"""
        P = mods()["P"]
        if node is None:
            yield from self.ref_walk(self.ref, self.root)
            for ident, r in self.reffree.items():
                if ident in self.free:
                    yield from self.ref_walk(r, self.free[ident])
            return
        yield node, obj
        if isinstance(obj, P.InputParameterMap):
            kids = {k["id"]: k for k in node["kids"]}           # paired by identity, not by key
            for _key, c in list(obj.value.items()):
                ident = self.ids.get(id(c))
                if ident in kids:
                    yield from self.ref_walk(kids[ident], c)

    # ---- one operation
    def _do(self, op):
        t = op[0]
        T = self.T
        at_root = T is self.root
        if t == "set":
            T.get(op[1]).set_value(mk_value(op[2]))
            return ["none"]
        if t == "mset":
            self._mset_obj = mk_value(op[2])
            self.model.set_parameter(op[1], self._mset_obj)
            return ["none"]
        if t == "get":
            return ["param", T.get(op[1])]
        if t == "mget":
            v = self.model.get_parameter(op[1])
            if isinstance(v, dict):
                return ["keys", list(v.keys())]
            return ["value", canon(v)]
        if t == "inspect":
            return ["decl", decl_of(T.get(op[1]))]
        if t == "remove":
            return ["param", T.remove(op[1])]
        if t == "readd":                      # an object that already lives in this tree is offered to a map
            p = T.get(op[1])
            if op[2] is None:
                self.model.add_parameter(p) if at_root else T.add(p)
            else:
                T.get(op[2]).add(p)
            return ["outside"]                # accepted: one object in two maps, outside the tree model
        if t == "addc":
            parent = T if op[1] is None else T.get(op[1])
            p = self.construct(op[2], parent)
            self.ids[id(p)] = self.nops + 1; self.keep.append(p)
            self.ins[id(p)] = self.nops + 1
            return ["none"]
        if t == "addm":
            parent = T if op[1] is None else T.get(op[1])
            p = self.construct(op[2], None)
            self.ids[id(p)] = self.nops + 1; self.keep.append(p)
            if op[1] is None and at_root:
                self.model.add_parameter(p)
            else:
                parent.add(p)
            self.ins[id(p)] = self.nops + 1
            return ["none"]
        if t == "new":                        # a parent-less object: the start of a bottom-up construction
            p = self.construct(op[1], None)
            self.ids[id(p)] = self.nops + 1; self.keep.append(p)
            self.free[self.nops + 1] = p
            return ["none"]
        if t == "attach":                     # the parent-less object op[1] is added to a map of the target tree
            obj = self.free[op[1]]
            parent = T if op[2] is None else T.get(op[2])
            if op[2] is None and at_root:
                self.model.add_parameter(obj)
            else:
                parent.add(obj)
            del self.free[op[1]]
            self.ins[id(obj)] = self.nops + 1
            return ["none"]
        raise ValueError(op)

    def apply(self, op0):
        """-> (out, dump | None)  (None: the dump is what it was before)"""
        P = mods()["P"]
        self._op0 = op0
        refs = ([op0[1]] if op0[0] in ("free", "attach") else []) + \
               ([op0[2][1]] if op0[0] == "free" and op0[2][0] == "attach" else [])
        if any(r not in self.free for r in refs):
            # a replayed sequence names an object that is not free here (the model answers OOutside too): end of the sequence
            self.outside = True
            self.nops += 1
            return ["outside"], None
        if op0[0] == "free":               # the operation op0[2] on the parent-less object op0[1]
            op = op0[2]
            self.T, self.Tref = self.free[op0[1]], self.reffree[op0[1]]
            self.stats["free_ops"] += 1
        else:
            op = op0
            self.T, self.Tref = self.root, self.ref
        t = op[0]
        # facts the oracle needs from before the operation
        pre_target = self.resolve(op[1]) if t in ("set", "mset", "remove", "get", "mget", "inspect") else None
        pre_parent = None
        if t in ("addc", "addm"):
            pre_parent = self.T if op[1] is None else self.resolve(op[1])
        pre_dup = None
        if isinstance(pre_parent, P.InputParameterMap) and op[2]["key"] in pre_parent.value:
            pre_dup = pre_parent.value[op[2]["key"]]
        pre_parent_of_removed = None
        if t == "remove":
            segs0 = op[1].split(".")
            pre_parent_of_removed = self.T if len(segs0) == 1 else self.resolve(".".join(segs0[:-1]))
        if t == "attach":
            pre_parent = self.T if op[2] is None else self.resolve(op[2])
            k = self.free[op[1]].key
            if isinstance(pre_parent, P.InputParameterMap) and k in pre_parent.value:
                pre_dup = pre_parent.value[k]
            n_att = sum(1 for _ in self.walk(self.free[op[1]], 1))
        exc_name = None
        try:
            out = self._do(op)
        except Exception as exc:            # noqa: BLE001 - exceptions are observables here
            exc_name = type(exc).__name__
            out = ["raise", exc_name if exc_name in EXN else "OtherError:" + exc_name]
        ret_obj = None
        if out[0] == "param":
            ret_obj = out[1]
            out = ["param", self.ids.get(id(ret_obj), -1)]
        if out[0] == "outside":
            # the sequence ends here (see gen_and_run / run_ops); the model only has to agree that the add is accepted
            self.outside = True
            self.stats["readd_acc"] += 1
            self.nops += 1
            return out, None
        if t == "readd":
            self.stats["readd_ref"] += 1
        new_id = self.nops + 1 if t in ("addc", "addm", "new") else None
        if t == "remove" and out[0] == "param" and ret_obj is not None and out[1] >= 0:
            self.free[out[1]] = ret_obj                  # the object handed back is retired: it can be added again
            self.retired.add(out[1])
            self.retired_from[out[1]] = (pre_parent_of_removed, ret_obj.key)
            segs = op[1].split(".")
            self.last_removed = (op0[1] if op0[0] == "free" else None, ".".join(segs[:-1]) or None, segs[-1], out[1])
        if t == "attach" and out[0] == "none" and op[1] in self.retired:
            self.retired.discard(op[1])
            self.stats["retired_readded"] += 1
            old_map, k = self.retired_from.pop(op[1], (None, None))
            if isinstance(old_map, P.InputParameterMap) and k in old_map.value and old_map is not pre_parent:
                self.stats["retired_readded_successor"] += 1
        if t == "new" and out[0] == "none":
            self.stats["new"] += 1
        if t == "attach":
            self.stats["attach_ok" if out[0] == "none" else "attach_ref"] += 1
            if out[0] == "none":
                self.stats["attached_nodes"] += n_att
        now = self.dump(new_id)
        self.ref_update(op, out)
        if self.oracle_on and self.bad is None:
            b = self.check(op, out, exc_name, now, pre_target, pre_parent, pre_dup, ret_obj)
            if b:
                self.bad = (b[0], b[1], self.nops)
        self._note_new()
        # statistics for the non-triviality rule
        if t in ("set", "mset") and pre_target is not None and not isinstance(pre_target, P.InputParameterMap):
            self.stats["set_ok" if out[0] == "none" else "set_rej"] += 1
            hk = (f"{type(pre_target).__name__[14:]}{'(ro)' if pre_target.read_only else ''}<-{vtype(op[2])}:"
                  f"{'accepted' if out[0] == 'none' else out[1]}")
            self.set_hist[hk] = self.set_hist.get(hk, 0) + 1
        if t in ("addc", "addm"):
            self.stats["add_ok" if out[0] == "none" else "add_rej"] += 1
            if out[0] == "none" and isinstance(pre_parent, P.InputParameterMap):
                pr = [c.display_priority for c in pre_parent.value.values()]
                if len(pr) != len(set(pr)):
                    self.stats["ties"] += 1
        if t == "remove" and out[0] == "param":
            self.stats["rm_ok"] += 1
        self.nops += 1
        changed = now != self.prev
        self.prev = now
        return out, (now if changed else None)

    # ---- the property's clauses, evaluated on the live objects
    def check(self, op, out, exc_name, now, pre_target, pre_parent, pre_dup, ret_obj):
        P = mods()["P"]
        t = op[0]
        raised = out[0] == "raise"
        # a rejected attempt leaves everything unchanged
        if raised and now != self.prev:
            if t == "addc":
                return ("rejected-child-stays-registered",
                        f"constructing {op[2]['kind']} parameter {op[2]['key']!r} with parent raised {exc_name} "
                        "but the parameter is registered in the parent map afterwards")
            if t == "readd":
                diff = next((i for i, (a, b) in enumerate(zip(now, self.prev)) if a != b), min(len(now), len(self.prev)))
                return ("refused-add-changed-state",
                        f"adding the existing parameter {op[1]!r} to {'the root map' if op[2] is None else 'map ' + repr(op[2])} was refused "
                        f"({exc_name}) but the tree changed: entry {diff} was {self.prev[diff] if diff < len(self.prev) else None} and is now "
                        f"{now[diff] if diff < len(now) else None} (extended key, identity, value, default)")
            return (f"rejected-attempt-changed-state:{t}", f"{op[:2]} raised {exc_name} but the parameter tree changed")
        for rn, p in self.ref_walk():
            if rn["spec"]["kind"] != "map" and not isinstance(p, P.InputParameterMap):
                if not spec_valid(rn["spec"], p.value):
                    return (f"invalid-value-held:{type(p).__name__}",
                            f"{p.extended_key()} holds {canon(p.value)} which does not satisfy the type/bounds/options it was declared with "
                            f"({ {k: rn['spec'].get(k) for k in ('kind', 'mn', 'mx', 'opts', 'qcls') if k in rn['spec']} }"
                            + (f", declared class {QCLS[rn['spec']['default'][1]]}" if rn['spec']['kind'] == 'qty'
                               and rn['spec']['default'][0] == 'qtymk' else "") + ")")
        for R in self.roots():
          for p, _d in self.walk(R, 1):
            cls = type(p).__name__
            f = self.first.get(id(p))
            if not doc_valid(p, p.value):
                return (f"invalid-value-held:{cls}", f"{p.extended_key()} holds {canon(p.value)} which does not satisfy its declared type/bounds/options")
            if not isinstance(p, P.InputParameterMap) and not doc_valid(p, p.default_value):
                return (f"invalid-default-held:{cls}", f"{p.extended_key()} has default {canon(p.default_value)} outside its declared type/bounds/options")
            if f is not None:
                if canon(p.default_value) != f[0]:
                    return (f"default-value-changed:{cls}", f"default of {p.extended_key()} changed from {f[0]} to {canon(p.default_value)}")
                if p.read_only and f[1] is not None and canon(p.value) != f[1]:
                    return (f"read-only-value-changed:{cls}", f"read-only {p.extended_key()} changed from {f[1]} to {canon(p.value)} by {op[0]}")
            if self.ids.get(id(R)) in self.retired:
                pass        # a retired object: HEAD leaves its _parent (hence its extended key) pointing at the old map
            elif p is R and R is not self.root and (R.parent is not None or R.extended_key() != R.key):
                return ("parentless-object-has-a-parent",
                        f"the parent-less object {R.key!r} (identity {self.ids.get(id(R))}) reports parent "
                        f"{R.parent.extended_key() if R.parent is not None else None} and extended key {R.extended_key()!r} after {self._op0[:3]}")
            elif p is not R:
                ek = p.extended_key()
                pre = R.key + "."
                try:
                    okk = ek.startswith(pre) and R.get(ek[len(pre):]) is p
                except Exception:
                    okk = False
                if not okk:
                    where = "root" if R is self.root else f"the parent-less map {R.key!r}"
                    return ("not-retrievable-by-extended-key",
                            f"the parameter with identity {self.ids.get(id(p))} (key {p.key!r}) reports the extended key {ek!r}, and "
                            f"{where}.get of it ({R.key!r} stripped) does not return that parameter (after {self._op0[:3]})")
            if isinstance(p, P.InputParameterMap):
                kids = list(p.value.items())
                for k, c in kids:
                    if k != c.key:
                        return ("map-key-mismatch", f"map {p.extended_key()} lists {c.key!r} under {k!r}")
                    if c.parent is not p:
                        return ("parent-is-not-the-listing-map",
                                f"{k!r} is listed in map {p.extended_key()} but its parent is "
                                f"{c.parent.extended_key() if c.parent is not None else None} (after {op[:3] if t == 'readd' else op[:2]})")
                order = [(c.display_priority, self.ins.get(id(c), 10 ** 9)) for _k, c in kids]
                if order != sorted(order):
                    return ("children-order-wrong", f"children of {p.extended_key()} are not listed by priority then insertion: {[k for k, _ in kids]} {order}")
        if t in ("addc", "addm") and pre_dup is not None:
            if not raised or pre_parent.value.get(op[2]["key"]) is not pre_dup:
                return ("duplicate-key-accepted", f"adding a second {op[2]['key']!r} to {pre_parent.extended_key()} was not refused")
        if t == "attach" and pre_dup is not None and (not raised or pre_parent.value.get(pre_dup.key) is not pre_dup):
            return ("duplicate-key-accepted", f"attaching a second {pre_dup.key!r} to {pre_parent.extended_key()} was not refused")
        if t == "remove" and pre_target is not None:
            if raised or ret_obj is not pre_target or self.resolve(op[1]) is not None:
                return ("remove-by-key-failed", f"remove({op[1]!r}) did not remove and return the parameter stored under that key ({out})")
        if t == "get" and pre_target is not None and ret_obj is not pre_target:
            return ("get-by-key-failed", f"get({op[1]!r}) did not return the parameter stored under that key ({out})")
        if t == "mset" and pre_target is not None and not isinstance(pre_target, P.InputParameterMap):
            v = self._mset_obj
            if not raised:
                try:
                    back = self.model.get_parameter(op[1])
                except Exception as exc:   # noqa: BLE001
                    back = exc
                if back is not v:
                    return ("model-set-get-roundtrip-broken", f"get_parameter({op[1]!r}) after set_parameter returned {back!r}, not the value set")
            elif doc_valid(pre_target, v) and not pre_target.read_only:
                return (f"model-set-parameter-raises:{exc_name}",
                        f"DSOLModel.set_parameter({op[1]!r}, {canon(v)}) raised {exc_name} for a valid value of a writable {type(pre_target).__name__}")
        # nothing ever leaves the forest (a removed parameter is retired): whoever was listed is still listed
        here = {e[1] for e in now}
        for e in self.prev:
            if e[1] not in here:
                return (f"listed-parameter-vanished:{t}",
                        f"the parameter with identity {e[1]} (listed as {e[0]!r} before) is listed nowhere after {self._op0[:3]}: "
                        "it was never removed, yet it is no longer retrievable / removable by its key")
        rd = self.ref_dump()
        if now != rd:
            diff = next((i for i, (a, b) in enumerate(zip(now, rd)) if a != b), min(len(now), len(rd)))
            return (f"tree-differs-from-reference:{t}",
                    f"after {op[:2]} the parameter tree is not what the accepted operations so far imply: entry {diff} is "
                    f"{now[diff] if diff < len(now) else None}, expected {rd[diff] if diff < len(rd) else None} "
                    "(extended key, identity, value, default; pre-order)")
        return None


def run_ops(ops, oracle=True):
    ex = Exec(oracle)
    obs = []
    for op in ops:
        out, d = ex.apply(op)
        obs.append((op, out, d))
        if ex.outside or ex.bad is not None:
            break              # an accepted re-add: what follows is outside the tree model / a clause is violated already
    return ex, obs


# ------------------------------------------------------------------ generation (on-line: paths come from the live tree)
INTS = [0, 1, -1, 2, 3, 5, 7, 10, 42, 100, -5, 11, 2 ** 53 + 1, 10 ** 30, -10 ** 30, 10 ** 400]
FLOATS = [0.0, -0.0, 0.5, 1.0, 1.5, 2.0, 2.5, 3.0, 0.1, 9.75, -1.25, 10.0, 1e10, 1e308, 5e-324, -2.5,
          math.inf, -math.inf, math.nan, 2.0 ** 53, 10.000000000000002, 0.49999999999999994]
STRS = ["a", "b", "abc", "x y", "km", "m/s", "", "CA", "MD", "dot.ted", "h", "mm", "μm"]
QUNITS = {0: [None, "m", "km", "mm", "ft"], 1: [None, "s", "min", "h", "ms"], 2: [None, "m/s", "km/h", "kt"],
          3: [None, "N.m", "lbf.ft"], 4: [None, "J", "kJ"], 5: [None, "Hz", "kHz"], 6: [None, "Bq", "kBq"],
          7: [None, "Gy", "mGy"], 8: [None, "Sv", "mSv"]}
KEYS = ["a", "b", "c", "d", "p1", "k2", "sub", "m", "x"]
BADKEYS = ["", "a.b", ".", "x."]
PRIOS = [["int", 1], ["int", 2], ["int", 3], ["int", 4], ["float", (0.5).hex()], ["float", (1.5).hex()],
         ["float", (2.0).hex()], ["float", (2.25).hex()], ["float", (-1.0).hex()], ["int", 2], ["int", 1]]
BOUNDS = [(None, None), (["int", 0], ["int", 10]), (["float", (0.5).hex()], ["float", (2.5).hex()]),
          (["int", -5], ["int", 5]), (["int", 0], ["float", (1e308).hex()]), (["float", (-math.inf).hex()], ["float", math.inf.hex()]),
          (["int", 0], None), (None, ["float", (100.0).hex()]), (["float", (0.1).hex()], ["int", 3])]
BADBOUNDS = [(["int", 5], ["int", 5]), (["int", 10], ["int", 0]), (["float", "nan"], ["int", 1]), (["int", 0], ["float", "nan"])]
OPTS = [["CA", "MD", "AZ"], ["a", "b"], ["x y", "", "abc", "a"], ["MD", "CA", "MD"]]


def vint(rng):
    return ["int", rng.choice(INTS)]


def vfloat(rng):
    return ["float", fhex(rng.choice(FLOATS))]


def vqty(rng, cls=None):
    cls = rng.randrange(len(QCLS)) if cls is None else cls
    num = rng.choice([["float", fhex(x)] for x in (0.0, 1.0, 2.5, 3.0, 0.1, 7.0, -1.0, 1000.0)] + [["int", 3], ["int", 0], ["int", 12]])
    unit = rng.choice(QUNITS[cls])
    if rng.random() < 0.08:
        num, unit = ["float", rng.choice(["nan", math.inf.hex(), (-0.0).hex()])], None
    return ["qtymk", cls, num, unit]


def vany(rng):
    r = rng.random()
    if r < 0.2:
        return vint(rng)
    if r < 0.4:
        return vfloat(rng)
    if r < 0.5:
        return ["bool", rng.random() < 0.5]
    if r < 0.68:
        return ["str", rng.choice(STRS)]
    if r < 0.84:
        return vqty(rng)
    if r < 0.9:
        return ["none"]
    return ["other", rng.randrange(4)]


def bound_num(b, default):
    if b is None:
        return default
    v = mk_value(b)
    return v


def value_for(rng, p):
    """a value for parameter object p: mostly one the class should accept"""
    r = rng.random()
    try:
        return _value_for(rng, p) if r >= 0.3 else vany(rng)
    except Exception:          # a half-built or otherwise broken object: anything will do
        return vany(rng)


def _value_for(rng, p):
    P = mods()["P"]
    if isinstance(p, P.InputParameterInt):
        lo, hi = p.min_value, p.max_value
        cands = [x for x in INTS if lo <= x <= hi]
        if rng.random() < 0.12:
            return ["bool", rng.random() < 0.5]
        return ["int", rng.choice(cands)] if cands and rng.random() < 0.85 else vint(rng)
    if isinstance(p, P.InputParameterFloat):
        lo, hi = p.min_value, p.max_value
        cands = [x for x in FLOATS if lo <= x <= hi]
        if rng.random() < 0.2:
            return rng.choice([vint(rng), ["bool", True]])
        return ["float", fhex(rng.choice(cands))] if cands and rng.random() < 0.8 else vfloat(rng)
    if isinstance(p, P.InputParameterStr):
        return ["str", rng.choice(STRS)]
    if isinstance(p, P.InputParameterBool):
        return ["bool", rng.random() < 0.5]
    if isinstance(p, P.InputParameterQuantity):
        try:
            cls = mods()["qcls"].index(p.type)
        except Exception:
            cls = None
        u = rng.random()
        if cls in TWIN and u >= 0.65 and u < 0.9:
            return vqty(rng, TWIN[cls])          # a different class with the same SI signature: must be refused
        return vqty(rng, cls if u < 0.85 else None)
    if isinstance(p, P.InputParameterSelectionList):
        try:
            o = list(p.options)
        except Exception:
            o = []
        return ["str", rng.choice(o)] if o and rng.random() < 0.8 else ["str", rng.choice(STRS)]
    return vany(rng)


FLAWS_FOR = {"map": ["key", "name", "prio"], "str": ["key", "name", "prio", "ro"], "bool": ["key", "name", "prio", "ro"],
             "unit": ["key", "name", "prio", "ro"], "sel": ["key", "name", "prio", "ro", "opts"],
             "int": ["key", "name", "prio", "ro", "min", "max", "fmt"], "float": ["key", "name", "prio", "ro", "min", "max", "fmt"],
             "qty": ["key", "name", "prio", "ro", "min", "max", "fmt"]}


def gen_spec(rng, depth_ok, taken, pflaw=0.05):
    kind = rng.choice(KINDS if depth_ok else KINDS[1:])
    if kind == "map" and rng.random() < 0.25:
        kind = rng.choice(KINDS[1:])
    free = [k for k in KEYS if k not in taken] or KEYS
    key = rng.choice(free)
    r = rng.random()
    if r < 0.07:
        key = rng.choice(BADKEYS)
    elif r < 0.15 and taken:
        key = rng.choice(sorted(taken))               # duplicate
    spec = {"key": key, "prio": rng.choice(PRIOS), "ro": rng.random() < 0.22, "kind": kind,
            "default": ["none"]}
    bad = rng.random() < 0.2                       # make the constructor reject something
    if kind in ("int", "float", "qty"):
        mn, mx = rng.choice(BOUNDS)
        if bad and rng.random() < 0.3:
            mn, mx = rng.choice(BADBOUNDS)
        spec["mn"], spec["mx"] = mn, mx
        lo = bound_num(mn, -math.inf)
        hi = bound_num(mx, math.inf)
        if kind == "int":
            c = [x for x in INTS if lo <= x <= hi]
            spec["default"] = ["int", rng.choice(c)] if c else vint(rng)
            if rng.random() < 0.06:
                spec["default"] = ["bool", True]
        elif kind == "float":
            c = [x for x in FLOATS if lo <= x <= hi]
            spec["default"] = ["float", fhex(rng.choice(c))] if c else vfloat(rng)
            if rng.random() < 0.15:
                ci = [x for x in INTS if lo <= x <= hi]
                spec["default"] = ["int", rng.choice(ci)] if ci else vint(rng)
        else:
            for _ in range(20):
                d = vqty(rng)
                si = mk_value(d).si
                if lo <= si <= hi:
                    break
            spec["default"] = d
        if bad and rng.random() < 0.75:
            spec["default"] = rng.choice([vany(rng), vint(rng), vfloat(rng), vqty(rng)])
    elif kind == "str":
        spec["default"] = ["str", rng.choice(STRS)] if not bad else vany(rng)
    elif kind == "bool":
        spec["default"] = ["bool", rng.random() < 0.5] if not bad else vany(rng)
    elif kind == "sel":
        spec["opts"] = rng.choice(OPTS)
        spec["default"] = ["str", rng.choice(spec["opts"])] if not bad else rng.choice([["str", rng.choice(STRS)], vany(rng)])
    elif kind == "unit":
        spec["qcls"] = rng.randrange(3)
        units = list(mods()["qcls"][spec["qcls"]]._units.keys())
        spec["default"] = ["str", rng.choice(units)] if not bad else rng.choice([["str", rng.choice(STRS)], vany(rng)])
    if rng.random() < pflaw:                       # a constructor argument of the wrong Python type
        fl = {}
        for name in rng.sample(FLAWS_FOR[kind], rng.choice([1, 1, 2])):
            fl[name] = rng.choice([1, 2]) if name in ("name", "opts") else True
        spec["flaws"] = fl
    return spec


def bogus_path(rng, leafs, maps):
    c = ["zz", "", ".", "a..b", "zz.a", "root", "root.a"]
    if leafs:
        c += [rng.choice(leafs) + ".x", rng.choice(leafs) + "."]
    if maps:
        c += [rng.choice(maps) + ".zz", rng.choice(maps) + ".", "." + rng.choice(maps)]
    return rng.choice(c)


def rel_paths(R):
    """(leaf paths, map paths, depth of each) below R, from the dict structure (not from extended_key())"""
    P = mods()["P"]
    leafs, maps, depth_of = [], [], {}

    def go(m, prefix, d):
        if not isinstance(m, P.InputParameterMap) or d > 8:
            return
        for k, c in list(m.value.items()):
            rel = prefix + k
            depth_of[rel] = d + 1
            (maps if isinstance(c, P.InputParameterMap) else leafs).append(rel)
            go(c, rel + ".", d + 1)
    go(R, "", 1)
    return leafs, maps, depth_of


def gen_and_run(rng, n_ops, malformed=False):
    """Generate one sequence while running it (path choices look at the live tree)."""
    P = mods()["P"]
    ex = Exec(True)
    obs = []
    pbad = 0.35 if malformed else 0.12
    bottom_up = rng.random() < 0.4          # sequences that also build parent-less sub-maps and attach them later
    for i in range(n_ops):
        free_maps = [j for j, o in ex.free.items() if isinstance(o, P.InputParameterMap)]
        tgt = None
        if free_maps and rng.random() < 0.45:
            tgt = rng.choice(free_maps)      # this operation works on a parent-less map
        T = ex.root if tgt is None else ex.free[tgt]
        leafs, maps, depth_of = rel_paths(T)
        r = rng.random()
        grow = i < 5 or len(leafs) < 2
        u = rng.random()
        if bottom_up and u < 0.12 and len(ex.free) < 4:
            # a new parent-less object: mostly a map that will be filled before it is attached
            sp = gen_spec(rng, True, set(), 0.1 if malformed else 0.03)
            if rng.random() < 0.75:
                sp.update({"kind": "map", "default": ["none"]})
                for k in ("mn", "mx", "opts", "qcls"):
                    sp.pop(k, None)
                if sp.get("flaws"):
                    sp["flaws"] = {k: v for k, v in sp["flaws"].items() if k in FLAWS_FOR["map"]}
            op = ["new", sp]
            tgt = None
        elif ex.last_removed is not None and ex.last_removed[0] == tgt and rng.random() < 0.5:
            # a successor under the key that was just vacated
            _tg, pp, key, _ident = ex.last_removed
            ex.last_removed = None
            ex.T = T
            sp = gen_spec(rng, False, set(), 0.0)
            sp["key"] = key
            op = [rng.choice(["addc", "addm"]), pp, sp]
        elif ex.free and u < (0.24 if bottom_up else 0.10):
            # attach a parent-less object: to the model's tree or to another parent-less map
            cand = list(ex.free)
            ret = [j for j in cand if j in ex.retired]
            i_att = rng.choice(ret) if ret and rng.random() < 0.6 else rng.choice(cand)
            tgts = [None] + [j for j in free_maps if j != i_att]
            tgt = rng.choice(tgts) if rng.random() < 0.4 else None
            T = ex.root if tgt is None else ex.free[tgt]
            leafs, maps, depth_of = rel_paths(T)
            dst = rng.choice([None] + maps) if rng.random() > pbad * 0.5 else rng.choice(leafs + [bogus_path(rng, leafs, maps)])
            op = ["attach", i_att, dst]
            # HEAD's remove() leaves the retired object's _parent pointing at the old map; adding an object below a
            # map whose (possibly stale) parent chain leads back to that object closes a cycle of parent pointers, on
            # which extended_key() / str() (used in add()'s own error message) recurse for ever: outside the model
            ex.T = T
            q = T if dst is None else ex.resolve(dst)
            for _ in range(200):
                if q is None:
                    break
                if q is ex.free[i_att]:
                    op = ["get", bogus_path(rng, leafs, maps)]
                    break
                q = getattr(q, "parent", None)
        elif r < (0.75 if grow else 0.26):
            variant = "addc" if rng.random() < 0.6 else "addm"
            pp = None
            if maps and rng.random() < 0.55:
                pp = rng.choice(maps)
            if rng.random() < pbad * 0.5:
                pp = bogus_path(rng, leafs, maps) if rng.random() < 0.5 or not leafs else rng.choice(leafs)
            ex.T = T
            par = T if pp is None else ex.resolve(pp)
            taken = set(par.value.keys()) if isinstance(par, P.InputParameterMap) else set()
            depth_ok = (depth_of.get(pp, 1) if pp else 1) < 3
            op = [variant, pp, gen_spec(rng, depth_ok, taken, 0.15 if malformed else 0.04)]
        elif r < 0.66:
            t = "set" if (rng.random() < 0.65 or tgt is not None) else "mset"
            ex.T = T
            if leafs and rng.random() > pbad:
                path = rng.choice(leafs)
                op = [t, path, value_for(rng, ex.resolve(path))]
            elif maps and rng.random() < 0.4:
                op = [t, rng.choice(maps), vany(rng)]
            else:
                op = [t, bogus_path(rng, leafs, maps), vany(rng)]
        elif r < 0.88:
            t = rng.choice(["get", "get", "get", "mget", "mget", "inspect", "inspect"])
            if tgt is not None and t == "mget":
                t = "get"
            allp = leafs + maps
            op = [t, rng.choice(allp)] if allp and rng.random() > pbad else [t, bogus_path(rng, leafs, maps)]
        elif r < 0.95:
            allp = leafs + maps
            op = ["remove", rng.choice(allp)] if allp and rng.random() > pbad else ["remove", bogus_path(rng, leafs, maps)]
        else:
            # offer an existing object to a map; mostly to one that holds its key already (must be refused)
            allp = leafs + maps
            dsts = [None] + maps
            dup = []
            ex.T = T
            for sp in allp:
                k = sp.rsplit(".", 1)[-1]
                for dp in dsts:
                    m = T if dp is None else ex.resolve(dp)
                    if isinstance(m, P.InputParameterMap) and k in m.value:
                        dup.append((sp, dp))
            u2 = rng.random()
            if dup and u2 < 0.8:
                sp, dp = rng.choice(dup)
                op = ["readd", sp, dp]
            elif allp and u2 < 0.9:
                op = ["readd", rng.choice(allp), rng.choice(dsts + leafs)]          # may be accepted: ends the sequence
            elif allp:
                op = rng.choice([["readd", bogus_path(rng, leafs, maps), rng.choice(dsts)],
                                 ["readd", rng.choice(allp), bogus_path(rng, leafs, maps)]])
            else:
                op = ["get", bogus_path(rng, leafs, maps)]
        if tgt is not None:
            op = ["free", tgt, op]
        out, d = ex.apply(op)
        obs.append((op, out, d))
        if ex.bad is not None or ex.outside:
            break              # a clause is violated already / an accepted re-add: the rest adds nothing
    return ex, obs


def shrink(ops, sig):
    def failing(c):
        try:
            ex, _ = run_ops(c)
        except Exception:
            return False
        return ex.bad is not None and ex.bad[0] == sig
    def renum(op, k):
        """op as it reads once the op with number k is gone (identities are op numbers); None: it refers to k itself"""
        if op[0] == "free":
            inner = renum(op[2], k)
            if op[1] == k or inner is None:
                return None
            return ["free", op[1] - 1 if op[1] > k else op[1], inner]
        if op[0] == "attach":
            if op[1] == k:
                return None
            return ["attach", op[1] - 1 if op[1] > k else op[1], op[2]]
        return op

    def drop(c, i):
        tail = [renum(o, i + 1) for o in c[i + 1:]]
        return None if any(o is None for o in tail) else c[:i] + tail

    cur = list(ops)
    changed = True
    while changed:
        changed = False
        for i in range(len(cur) - 1, -1, -1):
            cand = drop(cur, i)
            if cand and failing(cand):
                cur = cand
                changed = True
                break
    return cur


# ------------------------------------------------------------------ Coq emission
def czb(n: int) -> str:
    """Z literal; long numbers in hexadecimal (Coq converts long decimal literals very slowly)"""
    if abs(n) < 10 ** 15:
        return C.cz(n)
    return f"(-{hex(-n)})%Z" if n < 0 else f"{hex(n)}%Z"


def cq(num: int, den: int) -> str:
    d = f"{den}%positive" if den < 10 ** 15 else f"{hex(den)}%positive"
    return f"(Qmake {czb(num)} {d})"


def cflt(h: str) -> str:
    if h == "nan":
        return "FNaN"
    x = float.fromhex(h)
    if math.isinf(x):
        return "FPInf" if x > 0 else "FNInf"
    if x == 0.0 and math.copysign(1.0, x) < 0:
        return "FNZero"
    n, d = x.as_integer_ratio()
    return f"(FFin {cq(n, d)})"


def cstr(s: str) -> str:
    return '"' + s.replace('"', '""') + '"'


def cval(v) -> str:
    t = v[0]
    if t == "int":
        return f"(VInt {czb(v[1])})"
    if t == "bool":
        return f"(VBool {C.cbool(v[1])})"
    if t == "float":
        return f"(VFloat {cflt(v[1])})"
    if t == "str":
        return f"(VStr {cstr(v[1])})"
    if t == "qty":
        return f"(VQty {v[1]}%N {cflt(v[2])} {cstr(v[3])})"
    if t == "none":
        return "VNone"
    if t == "other":
        return f"(VOther {v[1]}%N)"
    raise ValueError(v)


def cnum(b, default_inf: str) -> str:
    if b is None:
        return f"(NF {default_inf})"
    if b[0] == "int":
        return f"(NI {czb(b[1])})"
    return f"(NF {cflt(b[1])})"


def cprio(p) -> str:
    x = mk_value(p)
    n, d = (x, 1) if isinstance(x, int) else float(x).as_integer_ratio()
    return cq(n, d)


class Emitter:
    """interns values / strings of one shard so that the case text stays small"""

    def __init__(self):
        self.defs = []
        self.tab = {}

    def name(self, prefix, term):
        k = (prefix, term)
        if k not in self.tab:
            nm = f"{prefix}{len(self.tab)}"
            self.tab[k] = nm
            ty = {"v": "pyval", "s": "string", "u": "list string"}[prefix]
            self.defs.append(f"Definition {nm} : {ty} := {term}.")
        return self.tab[k]

    def val(self, v):
        """canonical value of an *argument*: what the model receives is the canonical form of the object built"""
        return self.name("v", cval(v))

    def s(self, x):
        return self.name("s", cstr(x))

    def spec(self, sp):
        k = sp["kind"]
        if k == "map":
            kind = "SMap"
        elif k in ("int", "float", "qty"):
            kind = f"({ {'int': 'SInt', 'float': 'SFloat', 'qty': 'SQty'}[k] } {cnum(sp.get('mn'), 'FNInf')} {cnum(sp.get('mx'), 'FPInf')})"
        elif k == "str":
            kind = "SStr"
        elif k == "bool":
            kind = "SBool"
        elif k == "sel":
            kind = f"(SSel {C.clist(self.s(o) for o in sp['opts'])})"
        else:
            units = list(mods()["qcls"][sp["qcls"]]._units.keys())
            kind = f"(SUnit {sp['qcls']}%N {self.name('u', C.clist(cstr(u) for u in units))})"
        d = "VNone" if k == "map" else self.val(arg_canon(sp["default"]))
        ro = "true" if k == "map" else C.cbool(sp["ro"])
        fl = sp.get("flaws")
        if fl:
            b = lambda n: C.cbool(bool(fl.get(n)))                       # noqa: E731
            flaws = (f"(mkFlaws {b('key')} {fl.get('name', 0)}%N {b('prio')} {b('ro')} {b('min')} {b('max')} {b('fmt')} "
                     f"{fl.get('opts', 0)}%N)")
        else:
            flaws = "no_flaws"
        return f"(mkSpec {self.s(sp['key'])} {cprio(sp['prio'])} {ro} {kind} {d} {flaws})"

    def constr(self, c):
        if c is None:
            return "None"

        def b(x):
            return f"(NI {czb(x[1])})" if x[0] == "int" else (f"(NF {cflt(x[1])})" if x[0] == "float" else "(NF FNaN)")
        k = c[0]
        if k == "int":
            return f"(Some (CInt {b(c[1])} {b(c[2])}))"
        if k == "float":
            return f"(Some (CFloat {b(c[1])} {b(c[2])}))"
        if k == "str":
            return "(Some CStr)"
        if k == "bool":
            return "(Some CBool)"
        if k == "qty":
            return f"(Some (CQty {c[1]}%N {b(c[2])} {b(c[3])}))"
        if k == "sel":
            return f"(Some (CSel {C.clist(self.s(o) for o in c[1])}))"
        if k == "unit":
            return f"(Some (CUnit {c[1]}%N {self.name('u', C.clist(cstr(u) for u in c[2]))}))"
        return "None"

    def op(self, op):
        t = op[0]
        if t == "new":
            return f"ONew {self.spec(op[1])}"
        if t == "free":
            return f"OFree {op[1]} ({self.op(op[2])})"
        if t == "attach":
            return f"OAttach {op[1]} {'None' if op[2] is None else '(Some ' + self.s(op[2]) + ')'}"
        if t == "set":
            return f"OSet {self.s(op[1])} {self.val(arg_canon(op[2]))}"
        if t == "mset":
            return f"OModelSet {self.s(op[1])} {self.val(arg_canon(op[2]))}"
        if t == "get":
            return f"OGet {self.s(op[1])}"
        if t == "mget":
            return f"OModelGet {self.s(op[1])}"
        if t == "inspect":
            return f"OInspect {self.s(op[1])}"
        if t == "readd":
            return f"OReAdd {self.s(op[1])} {'None' if op[2] is None else '(Some ' + self.s(op[2]) + ')'}"
        if t == "remove":
            return f"ORemove {self.s(op[1])}"
        pp = "None" if op[1] is None else f"(Some {self.s(op[1])})"
        return f"{'OAddCtor' if t == 'addc' else 'OAddMeth'} {pp} {self.spec(op[2])}"

    def out(self, o):
        if o[0] == "raise":
            return f"ORaise {o[1] if o[1] in EXN else 'OtherError'}"
        if o[0] == "none":
            return "ONone"
        if o[0] == "outside":
            return "OOutside"
        if o[0] == "param":
            return f"OParam {o[1]}" if o[1] >= 0 else "OParam 999999"
        if o[0] == "value":
            return f"OValue {self.val(o[1])}"
        if o[0] == "decl":
            ro, prio, c = o[1]
            n, dd = float.fromhex(prio).as_integer_ratio()
            return f"ODecl {C.cbool(ro)} {cq(n, dd)} {self.constr(c)}"
        return f"OMapKeys {C.clist(self.s(k) for k in o[1])}"

    def dump(self, d):
        if d is None:
            return "None"
        items = []
        for ek, ident, v, dv in d:
            vv = "None" if v is None else f"(Some {self.val(v)})"
            items.append(f"de {self.s(ek)} {ident if ident >= 0 else 999999} {vv} {self.val(dv)}")
        return f"(Some {C.clist(items)})"


_arg_cache = {}


def arg_canon(desc):
    """canonical form of the object a descriptor builds (Quantity descriptors need the class to compute si)"""
    k = json.dumps(desc)
    if k not in _arg_cache:
        _arg_cache[k] = canon(mk_value(desc))
    return _arg_cache[k]


PRELUDE = ["From Coq Require Import ZArith QArith List String.", "From PV Require Import Params.Model.",
           "Import ListNotations.", "Open Scope string_scope.", "Open Scope nat_scope.",
           # fully typed helpers: Coq elaborates a big literal much faster when no pair types have to be inferred
           "Definition de (k : string) (i : nat) (v : option pyval) (d : pyval) : dump_entry := (k, i, v, d).",
           "Definition ob (o : op) (r : out) (d : option (list dump_entry)) : obs := (o, r, d)."]


def emit_file(path: Path, cases, final: str):
    em = Emitter()
    body = []
    for n, obs in enumerate(cases):
        row = [f"ob ({em.op(op)}) ({em.out(out)}) {em.dump(d)}" for op, out, d in obs]
        body.append(f"Definition c{n} : list obs := {C.clist(row)}.")
    lines = list(PRELUDE) + em.defs + body
    lines.append("Definition cases : list (list obs) := " + C.clist(f"c{n}" for n in range(len(cases))) + ".")
    lines.append(final)
    path.write_text("\n".join(lines) + "\n", encoding="utf-8")


def emit_cases(path: Path, cases):
    emit_file(path, cases, "Eval vm_compute in (mismatches_from 0 (case_ok repaired) cases).")


# ------------------------------------------------------------------ main
RULE = ("random operation sequences (10-28 ops; every 5th from a malformed-heavy stream) on a DSOLModel's parameter tree, "
        "all eight parameter classes, depth <= 3, values valid and invalid per class (wrong type, out of bounds, not an option, "
        "wrong quantity class incl. a different class with the same SI signature (Torque/Energy, Frequency/RadioActivity, AbsorbedDose/EquivalentDose), bool for int, SI / Quantity for float, NaN, +-inf, -0.0, 10**400, read-only), paths existing and malformed, "
        "existing objects offered to maps that hold their key (refused re-adds; an accepted re-add ends the sequence); "
        "40% of the sequences also build parent-less objects (mostly maps), fill them, read all extended keys and attach them "
        "to the tree or to each other later; every removed object stays addressable as a retired object and may be added again "
        "(to the same or another map, also after a successor took its key); "
        "non-trivial = distinct sequence with >= 1 accepted and >= 1 rejected set-value on an existing leaf, >= 3 successful adds "
        "and a tree of depth >= 3")
HOW = ("harness/c18.py run_ops(ops): each op is applied to a fresh DSOLModel's input_parameters "
       "(set -> root.get(path).set_value(v); mset/mget -> model.set_parameter/get_parameter; "
       "addc -> Class(..., parent=...); addm -> parent.add(Class(...)); get/remove -> root.get/remove(path); "
       "readd src dst -> (root if dst is None else root.get(dst)).add(root.get(src)); "
       "new spec -> Class(...) without parent (identity = op number); free j op -> op with the parent-less object j in place of root; "
       "attach i dst -> (T if dst is None else T.get(dst)).add(<parent-less object i>)); after every op extended_key() of every parameter is read; "
       "the identity of a parameter is the number of the op that created it (root = 0)")


def nontrivial(ex) -> bool:
    s = ex.stats
    return s["set_ok"] >= 1 and s["set_rej"] >= 1 and s["add_ok"] >= 3 and s["depth"] >= 3


def emit_locate(path: Path, cases):
    emit_file(path, cases, "Eval vm_compute in (first_bad_ops repaired cases).")


def main(tier: str) -> int:
    run = C.Run(PID, tier)
    try:
        tree = L.ParamsTree().prepare()
    except Exception as exc:  # noqa: BLE001
        run.violation("translated-model-not-buildable",
                      f"the model could not be regenerated from the source: {type(exc).__name__}: {exc}",
                      {"unchecked": "coq/Params/GenAgree.v"}, found_input=False)
        return run.finish()
    # the proof re-check (coqc, ~10 s) runs beside the implementation runs below
    from concurrent.futures import ThreadPoolExecutor
    pool = ThreadPoolExecutor(max_workers=1)
    proofs = pool.submit(L.check_proofs, run, tree, TARGETS, extra_tb=[
        "Python floats enter the model as the exact rationals they denote (float.as_integer_ratio) plus NaN, +-inf, -0.0; "
        "parameters.py only stores and compares values and Python compares int with float exactly",
        "sorted() modelled as stable insertion sort (proved a stable sort); display priorities are finite non-NaN numbers",
        "Quantity values are (class, si, unit) triples of nine classes (Length, Duration, Speed and the same-signature pairs "
        "Torque/Energy, Frequency/RadioActivity, AbsorbedDose/EquivalentDose), si computed by the live class; "
        "unit lists of InputParameterUnit are read from the live classes",
        "constructor arguments of the wrong Python type for key/name/priority/read_only/format_str/options and object aliasing "
        "(the same parameter object in two maps, re-adding a removed object) are outside the model",
    ])
    C.use_repo_sources()
    try:
        mods()
    except Exception as exc:   # noqa: BLE001
        proofs.result()
        run.violation("harness-cannot-run-implementation", f"importing the implementation failed: {type(exc).__name__}: {exc}",
                      {}, found_input=False)
        return run.finish()
    rng = random.Random(run.seed * 104729 + 18)
    n_random = 3000 if tier == "quick" else 60000
    cases = []          # list of obs lists
    fails = {}          # signature -> (ops, what)
    hist_ops, hist_exc, set_hist, bottom_up = {}, {}, {}, {}
    cls_sets = {}
    nontriv = set()
    n_corpus = 0
    corpus = C.VERIF / "corpus" / "C18.json"
    todo = []
    if corpus.exists():
        todo = json.loads(corpus.read_text())
        n_corpus = len(todo)

    def account(ex, obs, keep=True):
        for op, out, _d in obs:
            hk = op[0] if op[0] != "free" else "free:" + op[2][0]
            hist_ops[hk] = hist_ops.get(hk, 0) + 1
            if out[0] == "raise":
                hist_exc[out[1]] = hist_exc.get(out[1], 0) + 1
        for k, v in ex.set_hist.items():
            set_hist[k] = set_hist.get(k, 0) + v
        for k in ("new", "free_ops", "attach_ok", "attach_ref", "attached_nodes", "retired_readded", "retired_readded_successor"):
            bottom_up[k] = bottom_up.get(k, 0) + ex.stats[k]
        if ex.stats["attach_ok"] and ex.stats["attached_nodes"] > ex.stats["attach_ok"]:
            bottom_up["sequences_attaching_a_filled_submap"] = bottom_up.get("sequences_attaching_a_filled_submap", 0) + 1
        if nontrivial(ex):
            nontriv.add(json.dumps([o[0] for o in obs], sort_keys=True))
        for p, _ in ex.walk():
            n = type(p).__name__
            cls_sets[n] = cls_sets.get(n, 0) + 1
        if ex.bad and ex.bad[0] not in fails:
            fails[ex.bad[0]] = ([o[0] for o in obs][:ex.bad[2] + 1], ex.bad[1])
        if keep:
            cases.append(obs)

    try:
        for ops in todo:
            ex, obs = run_ops(ops)
            account(ex, obs)
        for i in range(n_random):
            ex, obs = gen_and_run(rng, rng.randint(10, 28), malformed=(i % 5 == 4))
            account(ex, obs)
    except Exception as exc:   # noqa: BLE001
        import traceback
        proofs.result()
        run.violation("harness-cannot-run-implementation",
                      f"running a sequence on the implementation failed: {type(exc).__name__}: {exc}",
                      {"trace": traceback.format_exc()[-1500:]}, found_input=False)
        return run.finish()

    # ---- model vs implementation inside coqc
    d = C.scratch_dir(PID)
    shard = 250 if tier == "quick" else 500
    files = []
    for s in range(0, len(cases), shard):
        f = d / f"cases_c18_{s // shard}.v"
        emit_cases(f, cases[s:s + shard])
        files.append(f)
    results = C.coqc_many(files)
    proofs_ok = proofs.result()
    mism = []
    evaluable = True
    for si, (rc, out) in enumerate(results):
        lst = C.parse_nat_list(out)
        if rc != 0 or lst is None:
            run.violation("correspondence-not-evaluable",
                          "coqc could not evaluate the C18 correspondence (Params.Model.case_ok): " + out[-600:],
                          {"file": str(files[si])}, found_input=False)
            evaluable = False
            break
        mism += [si * shard + i for i in lst]

    # ---- the correspondence or the tie to the source text broke but the clause oracle saw nothing yet:
    #      search harder for a failing input
    searched = 0
    tie = tree.broken()
    if (mism or not proofs_ok or tie) and not fails and evaluable:
        extra = 8000 if tier == "quick" else 40000
        rng2 = random.Random(run.seed * 7919 + 1818)
        for i in range(extra):
            ex, obs = gen_and_run(rng2, rng2.randint(10, 30), malformed=(i % 3 == 2))
            account(ex, obs, keep=False)
            searched += 1
            if fails:
                break

    run.cov["evaluations"] = len(cases) + searched
    run.cov["operations"] = sum(hist_ops.values())
    run.cov["distinct_nontrivial"] = len(nontriv)
    run.cov["rule"] = RULE
    run.cov["op_histogram"] = hist_ops
    run.cov["exception_histogram"] = hist_exc
    run.cov["set_attempts_by_class_valuetype_outcome"] = dict(sorted(set_hist.items()))
    run.cov["parameters_in_final_trees_by_class"] = cls_sets
    run.cov["bottom_up_construction"] = bottom_up
    run.cov["extra_sequences_searched_with_oracle_only"] = searched
    run.cov["source_translation"]["tie"] = ({"status": "broken", **{k: v for k, v in tie.items() if k != "failures"}}
                                            if tie else {"status": "checked"})
    for obs in cases[n_corpus:n_corpus + 2]:
        run.add_sample({"ops": [o[0] for o in obs][:8], "impl_outputs": [o[1] for o in obs][:8]})

    for sig, (ops, what) in sorted(fails.items()):
        small = shrink(ops, sig)
        ex, obs = run_ops(small)
        w = ex.bad[1] if ex.bad and ex.bad[0] == sig else what
        run.violation(sig, w, {"ops": small, "impl_outputs": [o[1] for o in obs], "how": HOW})

    if evaluable:
        run.cov["traces_validated_against_impl"] = len(cases) - len(mism)
        run.cov["model_impl_mismatches"] = len(mism)
    if mism and not fails:
        # where do model and implementation part?  (position of the first disagreeing op of up to 20 cases)
        sub = mism[:20]
        f = d / "locate_c18.v"
        emit_locate(f, [cases[i] for i in sub])
        rc, out = C.coqc_file(f)
        pos = C.parse_nat_list(out) or []
        kinds = {}
        for ci, at in zip(sub, pos):
            if at < len(cases[ci]):
                k = cases[ci][at][0][0]
                kinds[k] = kinds.get(k, 0) + 1
        ci, at = sub[0], (pos[0] if pos else 0)
        obs = cases[ci]
        opk = obs[at][0][0] if at < len(obs) else "?"
        run.violation(f"model-impl-disagree:{opk}",
                      "correspondence Params.Model.case_ok (step repaired) no longer matches the implementation "
                      f"({len(mism)} of {len(cases)} sequences; first disagreeing op kinds {kinds}), "
                      f"but the clause oracle found no violated clause in {len(cases) + searched} sequences",
                      {"ops": [o[0] for o in obs][:at + 1], "impl_outputs": [o[1] for o in obs][:at + 1],
                       "first_disagreeing_op": at, "impl_dump_after_it": next((o[2] for o in reversed(obs[:at + 1]) if o[2] is not None), None),
                       "relation": "Params.Model.case_ok repaired", "how": HOW}, found_input=False)
    if tie and not fails:
        L.report_broken_tie(run, tree, {"model_impl_mismatching_sequences": len(mism), "sequences_searched": len(cases) + searched})
    if not proofs_ok and not run.violations:
        run.violation("proof-broken", "a C18 proof obligation no longer checks: " + getattr(run, "proof_log", "")[-800:],
                      {"theorems": run.cov.get("theorems")}, found_input=False)
    return run.finish()


if __name__ == "__main__":
    sys.exit(main(sys.argv[1] if len(sys.argv) > 1 else "quick"))
