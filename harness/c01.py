"""C01 — event list is a faithful priority queue.

Tie: histories are run on the real EventListHeap/SimEvent of /repo and on the
Gallina model EventList.Model (impl_step over the heapq transcription) inside
coqc; all return values and the final drain must agree.  A model-independent
oracle (sorted-set reference + drain of a replayed copy after every operation)
classifies disagreements and searches for the failing input.
"""
from __future__ import annotations

import itertools
import random
import sys
from pathlib import Path

sys.path.insert(0, str(Path(__file__).resolve().parent))
import common as C

PID = "C01"
TARGETS = ["Props/C01.vo"]
OPS = ["add", "remove", "pop", "peek", "contains", "size", "is_empty", "clear"]


# ------------------------------------------------------------------ generation
def gen_history(rng: random.Random, kind: str):
    m = rng.randint(3, 9)
    tspan = rng.choice([1, 2, 3, 6])           # few distinct times -> many ties
    pool = []
    for _ in range(m):
        t4 = rng.randint(0, tspan * 2)          # time in quarters
        prio = rng.choice([5, 5, 5, 1, 10, rng.randint(1, 10)])
        pool.append((t4, prio))
    n = rng.randint(5, 40)
    ops = []
    live = set()
    for _ in range(n):
        r = rng.random()
        if r < 0.34:
            absent = [i for i in range(m) if i not in live]
            i = rng.choice(absent) if absent and rng.random() < 0.92 else rng.randrange(m)
            ops.append(("add", i)); live.add(i)
        elif r < 0.56:
            i = rng.choice(sorted(live)) if live and rng.random() < 0.85 else rng.randrange(m)
            ops.append(("remove", i)); live.discard(i)
        elif r < 0.80:
            ops.append(("pop",))   # 'live' stays approximate: later removes may then hit popped events
        elif r < 0.85:
            ops.append(("peek",))
        elif r < 0.91:
            ops.append(("contains", rng.randrange(m)))
        elif r < 0.95:
            ops.append(("size",))
        elif r < 0.98:
            ops.append(("is_empty",))
        else:
            ops.append(("clear",)); live = set()
    # which pool entries are events of a SimEvent *subclass* (models subclass
    # SimEvent freely; creation order must still break ties across classes)
    sub = [rng.random() < 0.4 for _ in range(m)]
    return {"kind": kind, "pool": pool, "ops": ops, "sub": sub}


def exhaustive_histories(max_len: int):
    """All histories of the given length over 4 fixed events and the ops
    add/remove/pop/contains (the state-changing alphabet plus one query)."""
    pool = [(2, 5), (0, 5), (2, 7), (1, 5)]
    alphabet = [("add", i) for i in range(4)] + [("remove", i) for i in range(4)] + [("pop",)]
    for ln in range(1, max_len + 1):
        for ops in itertools.product(alphabet, repeat=ln):
            yield {"kind": "int", "pool": pool, "ops": list(ops)}


# ------------------------------------------------------------------ implementation side
def make_time(kind: str, t4: int, idx: int):
    from pydsol.core.units import Duration
    if kind == "int":
        return t4
    if kind == "float":
        return t4 / 4.0
    if kind == "mixed":
        return t4 // 4 if (t4 % 4 == 0 and idx % 2 == 0) else t4 / 4.0
    if kind == "dur_s":
        return Duration(t4 / 4.0, "s")
    if kind == "dur_min":
        return Duration(t4 / 4.0, "min")
    if kind == "dur_mix":
        return Duration(t4 / 4.0, "h") if idx % 2 else Duration(t4 * 900.0, "s")
    raise ValueError(kind)


def time_scaled(kind: str, t4: int) -> int:
    """time * 1024 as an integer (the model's Z time)."""
    if kind == "int":
        return t4 * 1024
    if kind in ("float", "mixed", "dur_s"):
        return t4 * 256
    if kind == "dur_min":
        return t4 * 256 * 60
    if kind == "dur_mix":
        return t4 * 256 * 3600
    raise ValueError(kind)


class _Target:
    def m(self):
        pass


def run_impl(hist, drain_every_step=False):
    """Run one history on the real classes. Returns (outs, final_drain, step_drains)
    with events identified by their pool index."""
    from pydsol.core.eventlist import EventListHeap
    from pydsol.core.simevent import SimEvent
    kind, pool, ops = hist["kind"], hist["pool"], hist["ops"]
    tgt = _Target()
    class _SubEvent(SimEvent):          # an ordinary user subclass of SimEvent
        pass
    sub = hist.get("sub") or [False] * len(pool)
    evs = [(_SubEvent if sub[i] else SimEvent)(make_time(kind, t4, i), tgt, "m", prio)
           for i, (t4, prio) in enumerate(pool)]
    # model time must be exact
    for i, (t4, _) in enumerate(pool):
        assert float(evs[i].time) * 1024 == time_scaled(kind, t4), (kind, t4, evs[i].time)

    def ident(e):
        if e is None:
            return None
        for i, x in enumerate(evs):
            if x is e:
                return i
        return -1

    def apply(el, op):
        if op[0] == "add":
            return ("none", el.add(evs[op[1]]))
        if op[0] == "remove":
            return ("bool", el.remove(evs[op[1]]))
        if op[0] == "pop":
            return ("ev", ident(el.pop_first()))
        if op[0] == "peek":
            return ("ev", ident(el.peek_first()))
        if op[0] == "contains":
            return ("bool", el.contains(evs[op[1]]))
        if op[0] == "size":
            return ("nat", el.size())
        if op[0] == "is_empty":
            return ("bool", el.is_empty())
        if op[0] == "clear":
            return ("none", el.clear())
        raise ValueError(op)

    def canon(o):
        tag, v = o
        if tag == "none":
            return ["none"] if v is None else ["bad", repr(v)]
        if tag == "bool":
            return ["bool", v] if isinstance(v, bool) else ["bad", repr(v)]
        if tag == "nat":
            return ["nat", v] if isinstance(v, int) and not isinstance(v, bool) and v >= 0 else ["bad", repr(v)]
        return ["ev", v]

    def drain(el):
        out = []
        guard = 0
        while not el.is_empty() and guard < 1000:
            out.append(ident(el.pop_first())); guard += 1
        return out

    el = EventListHeap()
    outs = []
    step_drains = []
    for k, op in enumerate(ops):
        try:
            outs.append(canon(apply(el, op)))
        except Exception as exc:  # noqa
            outs.append(["raise", type(exc).__name__])
        if drain_every_step:
            el2 = EventListHeap()
            for op2 in ops[:k + 1]:
                try:
                    apply(el2, op2)
                except Exception:
                    pass
            step_drains.append(drain(el2))
    return outs, drain(el), step_drains


# ------------------------------------------------------------------ oracle (independent of the Coq model)
def key_of(hist, i):
    t4, prio = hist["pool"][i]
    return (time_scaled(hist["kind"], t4), -prio, i)


def oracle(hist, outs, final_drain, step_drains):
    """Sorted-multiset reference. Returns None if all clauses hold, else a
    (signature, description, step) triple. Also returns non-triviality info."""
    s = []   # sorted list of pool indices (by key); duplicates allowed
    interior_removed_at = None
    pops_after_interior = 0
    for k, op in enumerate(hist["ops"]):
        exp = None
        if op[0] == "add":
            s.append(op[1]); s.sort(key=lambda i: key_of(hist, i)); exp = ["none"]
        elif op[0] == "remove":
            if op[1] in s:
                pos = s.index(op[1])
                if pos > 0 and len(s) >= 3:
                    interior_removed_at = k
                s.remove(op[1]); exp = ["bool", True]
            else:
                exp = ["bool", False]
        elif op[0] == "pop":
            exp = ["ev", s.pop(0) if s else None]
            if interior_removed_at is not None and exp[1] is not None:
                pops_after_interior += 1
        elif op[0] == "peek":
            exp = ["ev", s[0] if s else None]
        elif op[0] == "contains":
            exp = ["bool", op[1] in s]
        elif op[0] == "size":
            exp = ["nat", len(s)]
        elif op[0] == "is_empty":
            exp = ["bool", not s]
        elif op[0] == "clear":
            s = []; exp = ["none"]
        if outs[k] != exp:
            sig = {"pop": "pop-not-minimum", "peek": "peek-not-minimum", "remove": "remove-answer-wrong",
                   "contains": "contains-answer-wrong", "size": "size-answer-wrong",
                   "is_empty": "is-empty-answer-wrong"}.get(op[0], op[0] + "-result-wrong")
            if outs[k][0] == "raise":
                sig = op[0] + "-raises"
            return (sig, f"op #{k} {op}: implementation returned {outs[k]}, sorted-set reference {exp}", k), None
        if step_drains and step_drains[k] != s:
            return ("drain-order-disturbed", f"after op #{k} {op}: drain {step_drains[k]} != pending order {s}", k), None
    if final_drain != s:
        return ("drain-order-disturbed", f"final drain {final_drain} != pending order {s}", len(hist['ops'])), None
    return None, (interior_removed_at is not None and pops_after_interior >= 2)


def shrink(hist, failing):
    """Greedy delta debugging on the op list."""
    cur = dict(hist)
    changed = True
    while changed:
        changed = False
        for i in range(len(cur["ops"])):
            cand = dict(cur); cand["ops"] = cur["ops"][:i] + cur["ops"][i + 1:]
            if cand["ops"] and failing(cand):
                cur = cand; changed = True
                break
    return cur


# ------------------------------------------------------------------ Coq emission
def ckey(hist, i):
    t, np_, ident = key_of(hist, i)
    return f"(mkKey {C.cz(t)} {C.cz(np_)} {C.cz(ident)})"


def cop(hist, op):
    if op[0] == "add":
        return f"OpAdd {ckey(hist, op[1])}"
    if op[0] == "remove":
        return f"OpRemove {ckey(hist, op[1])}"
    if op[0] == "contains":
        return f"OpContains {ckey(hist, op[1])}"
    return {"pop": "OpPop", "peek": "OpPeek", "size": "OpSize", "is_empty": "OpIsEmpty", "clear": "OpClear"}[op[0]]


def cout(hist, o):
    if o[0] == "none":
        return "OutNone"
    if o[0] == "bool":
        return f"OutBool {C.cbool(o[1])}"
    if o[0] == "nat":
        return f"OutNat {C.cnat(o[1])}"
    if o[0] == "ev":
        return "OutKey None" if o[1] is None else f"OutKey (Some {ckey(hist, o[1])})"
    return None   # raise / bad: not representable -> certain mismatch


def emit_cases(path: Path, cases):
    lines = ["From Coq Require Import ZArith List.", "From PV Require Import EventList.Key EventList.Model.",
             "Import ListNotations.", "Definition cases : list (list el_op * list el_out * list key) := ["]
    items = []
    for hist, outs, dr in cases:
        ops = C.clist(cop(hist, op) for op in hist["ops"])
        os_ = C.clist(cout(hist, o) for o in outs)
        d = C.clist(ckey(hist, i) for i in dr)
        items.append(f"({ops}, {os_}, {d})")
    lines.append(";\n".join(items))
    lines.append("].")
    lines.append("Eval vm_compute in (mismatches_from 0 (case_ok (impl_step heapq) heapq) cases).")
    path.write_text("\n".join(lines) + "\n")


# ------------------------------------------------------------------ main
def main(tier: str) -> int:
    run = C.Run(PID, tier)
    proofs_ok = run.check_proofs(TARGETS, extra_tb=[
        "CPython heapq modelled by a Gallina transcription of Lib/heapq.py (EventList.Model.heapq): heap_contract is PROVED "
        "for the transcription (EventList/HeapqProofs.v); that CPython's C heapq behaves like the transcription is validated by the correspondence only",
        "times restricted to dyadic values (exact in binary64) represented as Z*2^-10; NaN times excluded",
    ])
    C.use_repo_sources()
    rng = random.Random(run.seed * 7919 + 1)
    kinds = ["int", "float", "mixed", "dur_s", "dur_min", "dur_mix"]
    n_random = 3000 if tier == "quick" else 40000
    hists = []
    # corpus first
    corpus = C.VERIF / "corpus" / "C01.json"
    if corpus.exists():
        import json
        hists += json.loads(corpus.read_text())
    n_corpus = len(hists)
    for i in range(n_random):
        hists.append(gen_history(rng, kinds[i % len(kinds)]))
    n_exh = 0
    for h in exhaustive_histories(4 if tier == "quick" else 5):
        hists.append(h); n_exh += 1

    cases = []
    nontrivial = set()
    hist_ops = {k: 0 for k in OPS}
    impl_fail = None
    for idx, h in enumerate(hists):
        deep = idx < n_corpus + n_random and (tier == "thorough" or idx % 4 == 0)
        try:
            outs, dr, sd = run_impl(h, drain_every_step=deep)
        except Exception as exc:  # import error, assertion, ...
            run.violation("harness-cannot-run-implementation",
                          f"running a history on the implementation failed: {type(exc).__name__}: {exc}",
                          {"history": h}, found_input=False)
            return run.finish()
        for op in h["ops"]:
            hist_ops[op[0]] += 1
        bad, nontriv = oracle(h, outs, dr, sd)
        if bad and impl_fail is None:
            impl_fail = (h, bad)
        if nontriv:
            nontrivial.add(repr((h["kind"], h["pool"], h["ops"])))
        cases.append((h, outs, dr))
    run.cov["evaluations"] = len(cases)
    run.cov["distinct_nontrivial"] = len(nontrivial)
    run.cov["rule"] = ("random histories (len 5-40, 3-9 events, heavy time/priority ties, int/float/mixed/Duration times) "
                       f"+ all histories of length <= {4 if tier == 'quick' else 5} over 4 events and add/remove/pop; "
                       "non-trivial = distinct history containing a removal from an interior position (>=3 pending, not the minimum) "
                       "followed by >= 2 successful pops")
    run.cov["op_histogram"] = hist_ops
    run.cov["exhaustive_small_scope_histories"] = n_exh
    for h, outs, dr in cases[n_corpus:n_corpus + 2]:
        run.add_sample({"history": h, "impl_outputs": outs, "final_drain": dr})

    if impl_fail:
        h, (sig, what, _k) = impl_fail

        def failing(c):
            try:
                o, d, s = run_impl(c, drain_every_step=True)
            except Exception:
                return False
            b, _ = oracle(c, o, d, s)
            return bool(b) and b[0] == sig
        small = shrink(h, failing)
        o, d, s = run_impl(small, drain_every_step=True)
        b, _ = oracle(small, o, d, s)
        run.violation(sig, (b or (sig, what))[1], {"history": small, "impl_outputs": o, "final_drain": d,
                                                   "how": "replay the ops on pydsol.core.eventlist.EventListHeap with SimEvents "
                                                          "(time = pool[i][0]/4 in the given kind, priority = pool[i][1])"})

    # ---- model vs implementation inside coqc
    d = C.scratch_dir(PID)
    shard = 400
    files = []
    for s in range(0, len(cases), shard):
        f = d / f"cases_c01_{s // shard}.v"
        emit_cases(f, cases[s:s + shard])
        files.append(f)
    results = C.coqc_many(files)
    mism = []
    for si, (rc, out) in enumerate(results):
        lst = C.parse_nat_list(out)
        if rc != 0 or lst is None:
            run.violation("correspondence-not-evaluable",
                          "coqc could not evaluate the C01 correspondence (EventList.Model.case_ok): " + out[-600:],
                          {"file": str(files[si])}, found_input=False)
            return run.finish()
        mism += [si * shard + i for i in lst]
    run.cov["traces_validated_against_impl"] = len(cases) - len(mism)
    run.cov["model_impl_mismatches"] = len(mism)
    if mism and not impl_fail:
        h, outs, dr = cases[mism[0]]
        run.violation("model-impl-disagree",
                      "correspondence EventList.Model.case_ok (impl_step over heapq transcription) no longer matches the implementation, "
                      "but the sorted-set oracle found no violated clause",
                      {"history": h, "impl_outputs": outs, "final_drain": dr, "relation": "EventList.Model.case_ok"},
                      found_input=False)
    if not proofs_ok and not run.violations:
        run.violation("proof-broken", "a C01 proof obligation no longer checks: " + getattr(run, "proof_log", "")[-800:],
                      {"theorems": run.cov.get("theorems")}, found_input=False)
    return run.finish()


if __name__ == "__main__":
    sys.exit(main(sys.argv[1] if len(sys.argv) > 1 else "quick"))
