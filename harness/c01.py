"""C01 — event list is a faithful priority queue.

Tie: histories are run on the real EventListHeap/SimEvent of /repo and on the
Gallina model EventList.Model (impl_step over the heapq transcription) inside
coqc; all return values and the final drain must agree.  A model-independent
oracle (sorted-set reference + drain of a replayed copy after every operation;
the six rich comparisons of every pair of events against the key order)
classifies disagreements and searches for the failing input.

Second tie: the model is regenerated from the source text of the tree under
test on every run (translator/py2gallina_eventlist.py) and proved equal to the
hand-written one (coq/EventList/GenAgree.v); see c01lib.EventListTree.
"""
from __future__ import annotations

import itertools
from fractions import Fraction
import random
import sys
from pathlib import Path

sys.path.insert(0, str(Path(__file__).resolve().parent))
import common as C
import c01lib as L1

PID = "C01"
# built in coq/ (independent of the source text); Gen_EventList / GenAgree / Props are compiled per tree (c01lib.EventListTree)
TARGETS = ["EventList/KeyProofs.vo", "EventList/Refine.vo", "EventList/HeapqProofs.vo"]
OPS = ["add", "remove", "pop", "peek", "contains", "size", "is_empty", "clear", "str", "repr"]


# ------------------------------------------------------------------ generation
def gen_history(rng: random.Random, kind: str):
    m = rng.randint(3, 9)
    tspan = rng.choice([1, 2, 3, 6])           # few distinct times -> many ties
    # a third of the histories: six or more events, most of them tied on (time, priority), so that only the
    # creation order tells them apart (and the array layout, after removals and re-adds, is not in that order)
    tied = rng.random() < 0.34
    if tied:
        m = rng.randint(6, 9)
        t_a, t_b = rng.randint(0, 2), rng.randint(0, 4)
    pool = []
    for _ in range(m):
        t4 = rng.randint(0, tspan * 2)          # time in quarters
        # priorities: mostly the default, the documented range 1..10, and the legal values outside it (0, negative, > 10)
        prio = rng.choice([5, 5, 5, 1, 10, rng.randint(1, 10), 0, rng.choice([-3, -1, 0, 11, 40])])
        if tied:
            t4 = t_a if rng.random() < 0.75 else t_b
            prio = 5 if rng.random() < 0.8 else rng.choice([1, 0, 7])
        if kind == "huge":
            t4 -= 3                              # offset from 2**53, also negative (see make_time)
        pool.append((t4, prio))
    n = rng.randint(5, 40)
    ops = []
    live = set()
    for _ in range(n):
        r = rng.random()
        if r < 0.34:
            absent = [i for i in range(m) if i not in live]
            i = rng.choice(absent) if absent and rng.random() < 0.92 else rng.randrange(m)
            ops.append(("add", i)); live.add(i)
        elif r < 0.55:
            i = rng.choice(sorted(live)) if live and rng.random() < 0.85 else rng.randrange(m)
            ops.append(("remove", i)); live.discard(i)
        elif r < 0.76:
            ops.append(("pop",))   # 'live' stays approximate: later removes may then hit popped events
        elif r < 0.80:
            ops.append(("peek",))
        elif r < 0.85:
            ops.append(("contains", rng.randrange(m)))
        elif r < 0.88:
            ops.append(("size",))
        elif r < 0.905:
            ops.append(("is_empty",))
        elif r < 0.955:
            ops.append(("str",))   # observers: looking at the list must not change what it hands out later
        elif r < 0.98:
            ops.append(("repr",))
        else:
            ops.append(("clear",)); live = set()
    # which pool entries are events of a SimEvent *subclass* (models subclass
    # SimEvent freely; creation order must still break ties across classes)
    sub = [rng.random() < 0.4 for _ in range(m)]
    return {"kind": kind, "pool": pool, "ops": ops, "sub": sub}


def exhaustive_histories(max_len: int):
    """All histories of the given length over 4 fixed events and the ops
    add/remove/pop/contains (the state-changing alphabet plus one query)."""
    pool = [(2, 5), (0, 5), (2, 7), (1, 5)]
    alphabet = [("add", i) for i in range(4)] + [("remove", i) for i in range(4)] + [("pop",)]
    for ln in range(1, max_len + 1):
        for ops in itertools.product(alphabet, repeat=ln):
            yield {"kind": "int", "pool": pool, "ops": list(ops)}


# ------------------------------------------------------------------ implementation side
def make_time(kind: str, t4: int, idx: int):
    from pydsol.core.units import Duration
    if kind == "int":
        return t4
    if kind == "float":
        return t4 / 4.0
    if kind == "mixed":
        return t4 // 4 if (t4 % 4 == 0 and idx % 2 == 0) else t4 / 4.0
    if kind == "dur_s":
        return Duration(t4 / 4.0, "s")
    if kind == "dur_min":
        return Duration(t4 / 4.0, "min")
    if kind == "dur_mix":
        return Duration(t4 / 4.0, "h") if idx % 2 else Duration(t4 * 900.0, "s")
    if kind == "huge":
        # legal times beyond 2**53 (e.g. epoch nanoseconds): ints 2**53 + k, where neighbouring ints are no longer
        # distinct as floats, and -- every third event -- a float of that magnitude (exactly representable: the
        # spacing of binary64 is 1 below 2**53 and 2 above).  Python compares int/int and int/float exactly.
        return float(HUGE + huge_offset(t4, idx)) if idx % 3 == 2 else HUGE + t4
    raise ValueError(kind)


HUGE = 2 ** 53


def huge_offset(t4: int, idx: int) -> int:
    if idx % 3 == 2 and t4 > 0:
        return 2 * (t4 // 2)
    return t4


def time_scaled(kind: str, t4: int, idx: int = 0) -> int:
    """time * 1024 as an integer (the model's Z time)."""
    if kind == "huge":
        return (HUGE + huge_offset(t4, idx)) * 1024
    if kind == "int":
        return t4 * 1024
    if kind in ("float", "mixed", "dur_s"):
        return t4 * 256
    if kind == "dur_min":
        return t4 * 256 * 60
    if kind == "dur_mix":
        return t4 * 256 * 3600
    raise ValueError(kind)


class _Target:
    def m(self):
        pass


def run_impl(hist, drain_every_step=False):
    """Run one history on the real classes. Returns (outs, final_drain, step_drains)
    with events identified by their pool index."""
    from pydsol.core.eventlist import EventListHeap
    from pydsol.core.simevent import SimEvent
    kind, pool, ops = hist["kind"], hist["pool"], hist["ops"]
    tgt = _Target()
    class _SubEvent(SimEvent):          # an ordinary user subclass of SimEvent
        pass
    sub = hist.get("sub") or [False] * len(pool)
    evs = [(_SubEvent if sub[i] else SimEvent)(make_time(kind, t4, i), tgt, "m", prio)
           for i, (t4, prio) in enumerate(pool)]
    # model time must be exact
    for i, (t4, _) in enumerate(pool):
        tv = evs[i].time
        exact = Fraction(tv) if isinstance(tv, int) else Fraction(float(tv))       # no rounding on the way
        assert exact * 1024 == time_scaled(kind, t4, i), (kind, t4, evs[i].time)

    def ident(e):
        if e is None:
            return None
        for i, x in enumerate(evs):
            if x is e:
                return i
        return -1

    def apply(el, op):
        if op[0] == "add":
            return ("none", el.add(evs[op[1]]))
        if op[0] == "remove":
            return ("bool", el.remove(evs[op[1]]))
        if op[0] == "pop":
            return ("ev", ident(el.pop_first()))
        if op[0] == "peek":
            return ("ev", ident(el.peek_first()))
        if op[0] == "contains":
            return ("bool", el.contains(evs[op[1]]))
        if op[0] == "size":
            return ("nat", el.size())
        if op[0] == "is_empty":
            return ("bool", el.is_empty())
        if op[0] == "clear":
            return ("none", el.clear())
        if op[0] == "str":
            return ("str", str(el))
        if op[0] == "repr":
            return ("str", repr(el))
        raise ValueError(op)

    def canon(o):
        tag, v = o
        if tag == "none":
            return ["none"] if v is None else ["bad", repr(v)]
        if tag == "bool":
            return ["bool", v] if isinstance(v, bool) else ["bad", repr(v)]
        if tag == "str":
            return ["str"] if isinstance(v, str) else ["bad", repr(v)]
        if tag == "nat":
            return ["nat", v] if isinstance(v, int) and not isinstance(v, bool) and v >= 0 else ["bad", repr(v)]
        return ["ev", v]

    def drain(el):
        out = []
        guard = 0
        while not el.is_empty() and guard < 1000:
            out.append(ident(el.pop_first())); guard += 1
        return out

    el = EventListHeap()
    outs = []
    step_drains = []
    for k, op in enumerate(ops):
        try:
            outs.append(canon(apply(el, op)))
        except Exception as exc:  # noqa
            outs.append(["raise", type(exc).__name__])
        if drain_every_step:
            el2 = EventListHeap()
            for op2 in ops[:k + 1]:
                try:
                    apply(el2, op2)
                except Exception:
                    pass
            step_drains.append(drain(el2))
    return outs, drain(el), step_drains


CMP_OPS = [("<", lambda a, b: a < b), ("<=", lambda a, b: a <= b), (">", lambda a, b: a > b),
           (">=", lambda a, b: a >= b), ("==", lambda a, b: a == b), ("!=", lambda a, b: a != b)]


def run_cmp(hist):
    """The six rich comparisons of every ordered pair of the history's events on the real SimEvent
    (events created in pool order, some of a subclass).  One code per pair, i-major: bit k = answer of
    CMP_OPS[k]; -1 if an operator raised or did not answer a bool."""
    from pydsol.core.simevent import SimEvent
    kind, pool = hist["kind"], hist["pool"]
    tgt = _Target()
    class _SubEvent(SimEvent):
        pass
    sub = hist.get("sub") or [False] * len(pool)
    evs = [(_SubEvent if sub[i] else SimEvent)(make_time(kind, t4, i), tgt, "m", prio)
           for i, (t4, prio) in enumerate(pool)]
    attrs = []
    for e in evs:
        try:
            attrs.append([e.time, e.priority, e.id])
        except Exception as exc:  # noqa
            attrs.append(["raise", type(exc).__name__, None])
    hist["_attrs"] = attrs
    codes = []
    for a in evs:
        for b in evs:
            code = 0
            for k, (_n, f) in enumerate(CMP_OPS):
                try:
                    r = f(a, b)
                except Exception:  # noqa
                    code = -1
                    break
                if not isinstance(r, bool):
                    code = -1
                    break
                code |= int(r) << k
            codes.append(code)
    return codes


def oracle_cmp(hist, codes):
    """The property's own clause: the comparison operators agree with the (time, -priority, creation order)
    order of the event list.  None, or (signature, description, (i, j))."""
    m = len(hist["pool"])
    attrs = hist.pop("_attrs", None)
    if attrs is not None:
        # what was put into an event is what it orders by: time and priority read back as given, ids in creation order
        for i, (t4, prio) in enumerate(hist["pool"]):
            want_t = make_time(hist["kind"], t4, i)
            got_t, got_p, got_id = attrs[i]
            if type(got_p) is not int or got_p != prio or type(got_t) is not type(want_t) or got_t != want_t:
                return ("event-attribute-read-back-differs",
                        f"event #{i} created with time {want_t!r} and priority {prio} reads back time {got_t!r}, priority {got_p!r}", (i, i))
            if i > 0 and not (isinstance(got_id, int) and isinstance(attrs[i - 1][2], int) and attrs[i - 1][2] < got_id):
                return ("event-ids-not-in-creation-order",
                        f"event #{i} (created after event #{i - 1}) has id {got_id!r}, event #{i - 1} has id {attrs[i - 1][2]!r}", (i - 1, i))
    for i in range(m):
        for j in range(m):
            ka, kb = key_of(hist, i), key_of(hist, j)
            exp = [ka < kb, ka <= kb, ka > kb, ka >= kb, ka == kb, ka != kb]
            code = codes[i * m + j]
            for k, (name, _f) in enumerate(CMP_OPS):
                got = None if code < 0 else bool(code >> k & 1)
                if got is not exp[k]:
                    return ("comparison-disagrees-with-list-order",
                            f"event #{i} {name} event #{j} answers {'an exception / a non-bool' if got is None else got}, "
                            f"the (time, -priority, creation order) keys {ka[:2] + (i,)} and {kb[:2] + (j,)} say {exp[k]}", (i, j))
    return None


def pack_codes(codes):
    if any(c < 0 for c in codes):
        return -1
    acc = 0
    for c in codes:
        acc = acc * 64 + c
    return acc


# ------------------------------------------------------------------ oracle (independent of the Coq model)
def key_of(hist, i):
    t4, prio = hist["pool"][i]
    return (time_scaled(hist["kind"], t4, i), -prio, i)


def oracle(hist, outs, final_drain, step_drains):
    """Sorted-multiset reference. Returns None if all clauses hold, else a
    (signature, description, step) triple. Also returns non-triviality info."""
    s = []   # sorted list of pool indices (by key); duplicates allowed
    interior_removed_at = None
    pops_after_interior = 0
    for k, op in enumerate(hist["ops"]):
        exp = None
        if op[0] == "add":
            s.append(op[1]); s.sort(key=lambda i: key_of(hist, i)); exp = ["none"]
        elif op[0] == "remove":
            if op[1] in s:
                pos = s.index(op[1])
                if pos > 0 and len(s) >= 3:
                    interior_removed_at = k
                s.remove(op[1]); exp = ["bool", True]
            else:
                exp = ["bool", False]
        elif op[0] == "pop":
            exp = ["ev", s.pop(0) if s else None]
            if interior_removed_at is not None and exp[1] is not None:
                pops_after_interior += 1
        elif op[0] == "peek":
            exp = ["ev", s[0] if s else None]
        elif op[0] == "contains":
            exp = ["bool", op[1] in s]
        elif op[0] == "size":
            exp = ["nat", len(s)]
        elif op[0] == "is_empty":
            exp = ["bool", not s]
        elif op[0] == "clear":
            s = []; exp = ["none"]
        elif op[0] in ("str", "repr"):
            exp = ["str"]           # some string; the pending set is as before (checked by the drains)
        if outs[k] != exp:
            sig = {"pop": "pop-not-minimum", "peek": "peek-not-minimum", "remove": "remove-answer-wrong",
                   "contains": "contains-answer-wrong", "size": "size-answer-wrong",
                   "is_empty": "is-empty-answer-wrong"}.get(op[0], op[0] + "-result-wrong")
            if outs[k][0] == "raise":
                sig = op[0] + "-raises"
            return (sig, f"op #{k} {op}: implementation returned {outs[k]}, sorted-set reference {exp}", k), None
        if step_drains and step_drains[k] != s:
            return ("drain-order-disturbed", f"after op #{k} {op}: drain {step_drains[k]} != pending order {s}", k), None
    if final_drain != s:
        return ("drain-order-disturbed", f"final drain {final_drain} != pending order {s}", len(hist['ops'])), None
    return None, (interior_removed_at is not None and pops_after_interior >= 2)


def shrink(hist, failing):
    """Greedy delta debugging on the op list."""
    cur = dict(hist)
    changed = True
    while changed:
        changed = False
        for i in range(len(cur["ops"])):
            cand = dict(cur); cand["ops"] = cur["ops"][:i] + cur["ops"][i + 1:]
            if cand["ops"] and failing(cand):
                cur = cand; changed = True
                break
    return cur


# ------------------------------------------------------------------ Coq emission
def ckey(hist, i):
    t, np_, ident = key_of(hist, i)
    return f"(mkKey {C.cz(t)} {C.cz(np_)} {C.cz(ident)})"


def cop(hist, op):
    if op[0] == "add":
        return f"OpAdd {ckey(hist, op[1])}"
    if op[0] == "remove":
        return f"OpRemove {ckey(hist, op[1])}"
    if op[0] == "contains":
        return f"OpContains {ckey(hist, op[1])}"
    return {"pop": "OpPop", "peek": "OpPeek", "size": "OpSize", "is_empty": "OpIsEmpty", "clear": "OpClear",
            "str": "OpStr", "repr": "OpRepr"}[op[0]]


def cout(hist, o):
    if o[0] == "none":
        return "OutNone"
    if o[0] == "bool":
        return f"OutBool {C.cbool(o[1])}"
    if o[0] == "nat":
        return f"OutNat {C.cnat(o[1])}"
    if o[0] == "str":
        return "OutStr"
    if o[0] == "ev":
        return "OutKey None" if o[1] is None else f"OutKey (Some {ckey(hist, o[1])})"
    return None   # raise / bad: not representable -> certain mismatch


def csev(hist, i):
    t, np_, ident = key_of(hist, i)
    return f"(mkSev {C.cz(t)} {C.cz(-np_)} {C.cz(ident)})"


def emit_cases(path: Path, cases, cmps=()):
    lines = ["From Coq Require Import ZArith List.", "From PV Require Import EventList.Key EventList.Model.",
             "Import ListNotations.", "Definition cases : list (list el_op * list el_out * list key) := ["]
    items = []
    for hist, outs, dr in cases:
        ops = C.clist(cop(hist, op) for op in hist["ops"])
        os_ = C.clist(cout(hist, o) for o in outs)
        d = C.clist(ckey(hist, i) for i in dr)
        items.append(f"({ops}, {os_}, {d})")
    lines.append(";\n".join(items))
    lines.append("].")
    lines.append("Eval vm_compute in (mismatches_from 0 (case_ok (impl_step heapq) heapq) cases).")
    lines.append("Definition cmp_cases : list (list sev * Z) := [")
    lines.append(";\n".join(f"({C.clist(csev(h, i) for i in range(len(h['pool'])))}, "
                            + (f"0x{pk:x}%Z" if pk >= 0 else "(-1)%Z") + ")" for h, pk in cmps))
    lines.append("].")
    lines.append("Eval vm_compute in (cmp_mismatches_from 0 cmp_cases).")
    path.write_text("\n".join(lines) + "\n")


# ------------------------------------------------------------------ main
def cmp_hist(h, keep=None):
    """the history reduced to what a comparison needs (optionally only some of its events, creation order kept)"""
    idx = sorted(keep) if keep is not None else list(range(len(h["pool"])))
    sub = h.get("sub") or [False] * len(h["pool"])
    return {"kind": h["kind"], "pool": [h["pool"][i] for i in idx], "sub": [sub[i] for i in idx], "ops": []}


def describe_events(h):
    sub = h.get("sub") or [False] * len(h["pool"])
    return [{"event": i, "class": "a subclass of SimEvent" if sub[i] else "SimEvent", "time": repr(make_time(h["kind"], t4, i)),
             "priority": prio, "created": f"#{i}"} for i, (t4, prio) in enumerate(h["pool"])]


def main(tier: str) -> int:
    run = C.Run(PID, tier)
    try:
        tree = L1.EventListTree().prepare()
    except Exception as exc:  # noqa
        run.violation("translated-model-not-buildable", f"the model could not be regenerated from the source: {type(exc).__name__}: {exc}",
                      {"unchecked": "coq/EventList/GenAgree.v"}, found_input=False)
        return run.finish()
    started = L1.start_proofs(run, tree, TARGETS)     # Props/C01.v is re-checked while the histories run
    run.assumptions = ["CPython's heapq (C accelerator) behaves as the Gallina transcription of Lib/heapq.py (validated on every explored history)",
                       "event times are numbers that are exact multiples of 2^-10 (no NaN)",
                       "translated model: self.m() resolves statically (no overriding subclass of EventListHeap / SimEvent comparison methods); "
                       "events on the list are SimEvent instances with unique ids, so the event component of an entry tuple never decides a comparison "
                       "(translator/py2gallina_eventlist.py)"]
    C.use_repo_sources()
    rng = random.Random(run.seed * 7919 + 1)
    kinds = ["int", "float", "mixed", "dur_s", "dur_min", "dur_mix", "huge"]
    n_random = 3000 if tier == "quick" else 40000
    hists = []
    # corpus first
    corpus = C.VERIF / "corpus" / "C01.json"
    if corpus.exists():
        import json
        hists += json.loads(corpus.read_text())
    n_corpus = len(hists)
    for i in range(n_random):
        hists.append(gen_history(rng, kinds[i % len(kinds)]))
    n_exh = 0
    for h in exhaustive_histories(4 if tier == "quick" else 5):
        hists.append(h); n_exh += 1

    cases = []
    cmps = {}              # index of the history -> comparison codes of its events
    nontrivial = set()
    hist_ops = {k: 0 for k in OPS}
    impl_fail = None       # (history, (signature, what, where), "history" | "comparison")
    n_pairs = 0
    for idx, h in enumerate(hists):
        deep = idx < n_corpus + n_random and (tier == "thorough" or idx % 4 == 0)
        try:
            outs, dr, sd = run_impl(h, drain_every_step=deep)
            codes = run_cmp(h) if idx <= n_corpus + n_random else None      # the exhaustive histories share one pool
        except Exception as exc:  # import error, assertion, ...
            run.violation("harness-cannot-run-implementation",
                          f"running a history on the implementation failed: {type(exc).__name__}: {exc}",
                          {"history": h}, found_input=False)
            return run.finish()
        for op in h["ops"]:
            hist_ops[op[0]] += 1
        bad, nontriv = oracle(h, outs, dr, sd)
        if bad and impl_fail is None:
            impl_fail = (h, bad, "history")
        if codes is not None:
            cmps[idx] = codes
            n_pairs += len(codes)
            badc = oracle_cmp(h, codes)
            if badc and impl_fail is None:
                impl_fail = (h, badc, "comparison")
        if nontriv:
            nontrivial.add(repr((h["kind"], h["pool"], h["ops"])))
        cases.append((h, outs, dr))
    run.cov["evaluations"] = len(cases)
    run.cov["distinct_nontrivial"] = len(nontrivial)
    run.cov["rule"] = ("random histories (len 5-40, 3-9 events, heavy time/priority ties -- a third with >= 6 events mostly tied on (time, priority) --, "
                       "priorities incl. 0 / negative / > 10, int/float/mixed/Duration times and int/float times around 2**53, ops incl. the observers str / repr) "
                       f"+ all histories of length <= {4 if tier == 'quick' else 5} over 4 events and add/remove/pop; "
                       "non-trivial = distinct history containing a removal from an interior position (>=3 pending, not the minimum) "
                       "followed by >= 2 successful pops")
    run.cov["op_histogram"] = hist_ops
    run.cov["exhaustive_small_scope_histories"] = n_exh
    run.cov["event_pairs_compared_with_six_operators"] = n_pairs
    for h, outs, dr in cases[n_corpus:n_corpus + 2]:
        run.add_sample({"history": h, "impl_outputs": outs, "final_drain": dr})

    proofs_ok = L1.check_proofs(run, tree, TARGETS, started=started, extra_tb=[
        "CPython heapq modelled by a Gallina transcription of Lib/heapq.py (EventList.Model.heapq): heap_contract is PROVED "
        "for the transcription (EventList/HeapqProofs.v); that CPython's C heapq behaves like the transcription is validated by the correspondence only",
        "times restricted to dyadic values (exact in binary64) represented as Z*2^-10; NaN times excluded",
    ])
    # ---- the regenerated model no longer equals the proved one: look harder for a concrete failing input
    tie = tree.broken()
    if tie and impl_fail is None:
        rng2 = random.Random(run.seed * 7919 + 101)
        tried = 0
        for i in range(n_random):
            h = gen_history(rng2, kinds[i % len(kinds)])
            tried += 1
            try:
                outs, dr, sd = run_impl(h, drain_every_step=True)
                codes = run_cmp(h)
            except Exception:  # noqa
                continue
            bad, _ = oracle(h, outs, dr, sd)
            if bad:
                impl_fail = (h, bad, "history")
                break
            badc = oracle_cmp(h, codes)
            if badc:
                impl_fail = (h, badc, "comparison")
                break
        run.cov["extra_cases_searched_after_broken_tie"] = tried
    run.cov["source_translation"]["tie"] = {"status": "broken", **{k: v for k, v in tie.items() if k != "failures"}} if tie \
        else {"status": "checked"}

    if impl_fail and impl_fail[2] == "history":
        h, (sig, what, _k), _ = impl_fail

        def failing(c):
            try:
                o, d, s = run_impl(c, drain_every_step=True)
            except Exception:
                return False
            b, _ = oracle(c, o, d, s)
            return bool(b) and b[0] == sig
        small = shrink(h, failing)
        o, d, s = run_impl(small, drain_every_step=True)
        b, _ = oracle(small, o, d, s)
        run.violation(sig, (b or (sig, what))[1], {"history": small, "events": describe_events(small), "impl_outputs": o, "final_drain": d,
                                                   "how": "replay the ops on pydsol.core.eventlist.EventListHeap with SimEvents "
                                                          "(event i as listed under `events`: time = make_time(kind, pool[i][0], i) of harness/c01.py, i.e. pool[i][0]/4 in the given kind, "
                                                          "2**53 + offset for kind huge; priority = pool[i][1])"})
    elif impl_fail:
        h, (sig, what, (i, j)), _ = impl_fail
        small, bad = cmp_hist(h), (sig, what, (i, j))
        try:
            cand = cmp_hist(h, {i, j})
            b2 = oracle_cmp(cand, run_cmp(cand))
            if b2:
                small, bad = cand, b2
        except Exception:  # noqa
            pass
        run.violation(sig, bad[1], {"events": describe_events(small), "pair": list(bad[2]), "case": small,
                                    "how": "create the events in the given order with pydsol.core.simevent.SimEvent (or a subclass of it "
                                           "where stated) and evaluate the comparison named in `what`"})

    # ---- model vs implementation inside coqc
    d = C.scratch_dir(PID)
    shard = 400
    files = []
    cmp_owner = []
    for s in range(0, len(cases), shard):
        f = d / f"cases_c01_{s // shard}.v"
        own = [i for i in range(s, min(s + shard, len(cases))) if i in cmps and i % 4 == 0]   # the oracle saw all of them
        emit_cases(f, cases[s:s + shard], [(hists[i], pack_codes(cmps[i])) for i in own])
        files.append(f)
        cmp_owner.append(own)
    results = C.coqc_many(files)
    mism, cmism = [], []
    for si, (rc, out) in enumerate(results):
        lsts = C.parse_nat_lists(out)
        if rc != 0 or len(lsts) != 2:
            run.violation("correspondence-not-evaluable",
                          "coqc could not evaluate the C01 correspondence (EventList.Model.case_ok / cmp_pack): " + out[-600:],
                          {"file": str(files[si])}, found_input=False)
            return run.finish()
        mism += [si * shard + i for i in lsts[0]]
        cmism += [cmp_owner[si][i] for i in lsts[1]]
    run.cov["traces_validated_against_impl"] = len(cases) - len(mism)
    run.cov["model_impl_mismatches"] = len(mism)
    run.cov["comparison_tables_validated_against_impl"] = sum(len(o) for o in cmp_owner) - len(cmism)
    if mism and not impl_fail:
        h, outs, dr = cases[mism[0]]
        run.violation("model-impl-disagree",
                      "correspondence EventList.Model.case_ok (impl_step over heapq transcription) no longer matches the implementation, "
                      "but the sorted-set oracle found no violated clause",
                      {"history": h, "impl_outputs": outs, "final_drain": dr, "relation": "EventList.Model.case_ok"},
                      found_input=False)
    if cmism and not impl_fail:
        h = hists[cmism[0]]
        run.violation("model-impl-disagree-comparisons",
                      "the six rich comparisons of SimEvent no longer match EventList.Key.sev_lt/le/gt/ge/eq/ne (EventList.Model.cmp_pack), "
                      "but the key-order oracle found no violated clause",
                      {"events": describe_events(h), "codes": cmps[cmism[0]], "relation": "EventList.Model.cmp_pack"}, found_input=False)
    if tie and not impl_fail:
        L1.report_broken_tie(run, tree, {"model_impl_mismatching_cases": len(mism) + len(cmism)})
    if not proofs_ok and not run.violations:
        run.violation("proof-broken", "a C01 proof obligation no longer checks: " + getattr(run, "proof_log", "")[-800:],
                      {"theorems": run.cov.get("theorems")}, found_input=False)
    return run.finish()


if __name__ == "__main__":
    sys.exit(main(sys.argv[1] if len(sys.argv) > 1 else "quick"))
