"""C06 — replications are isolated: re-initialising gives a fresh, reproducible run.

Tie: prior histories {never started, stepped k times, bounded run, paused by a
stop() from a handler, ended, paused by a handler fault, end_replication,
cleanup, another model's replication} followed by a new replication, on the
real DEVS simulators of /repo (harness/c06_impl.py), with and without Sim*
statistics and seeded streams built in construct_model, one or two models
taking turns on the simulator.

  * model-independent oracle: the run after the last initialize must equal, in
    every observable (executed events, scheduling outcomes, simulator
    notifications, listener deliveries, random draws, statistics feed, every
    statistics getter bit for bit, snapshots), the same commands on a brand-new
    simulator and model object; statistics of earlier replications must stay
    exactly as they were; the clauses of C06 on the implementation's own log;
  * deterministic cases are also run on the Gallina model (Sim/Reinit.v,
    xcase_code: whole history incl. the statistics each object was fed).
"""
from __future__ import annotations

import copy
import json
import random
import subprocess
import sys
from concurrent.futures import ThreadPoolExecutor
from pathlib import Path

sys.path.insert(0, str(Path(__file__).resolve().parent))
import common as C
import simlib as S

PID = "C06"
DRIVER = Path(__file__).resolve().parent / "c06_impl.py"
TARGETS = ["Sim/Case.vo", "Sim/ReinitProofs.vo", "Sim/ReproProofs.vo", "Streams/Stream.vo", "Streams/Seeds.vo", "Props/C06.vo"]
KIND_OF_SID = ["tally", "persistent", "counter"]
HIST_KINDS = ["never", "stepped", "bounded", "ended", "fault", "stop", "endrepl", "cleanup", "othermodel", "multi", "asap", "fromend"]
COMPONENTS = ["trace", "outs", "ntfs", "obs", "canc", "dlv", "slv", "draws"]


# ----------------------------------------------------------------------------- running the implementation
def n_stops(case):
    return sum(1 for m in case["models"] for body in m["prog"] + m.get("lst", []) for a in body
               if a[0] == "cmd" and a[1][0] in ("stop", "init")) + len(case.get("stop_at") or []) + (1 if case.get("slow") else 0)


def run_impl(cases, nproc=14, batch=None, env_extra=None):
    """Run the cases on the implementation in fresh interpreters.  A batch that does not come back in time
    is re-run case by case; a case that still does not come back is reported as {"error": "timeout"}."""
    if not cases:
        return []
    nproc = max(1, min(nproc, len(cases)))
    if batch is None:
        batch = max(4, min(40, len(cases) // (nproc * 4) or 1))
    chunks = [cases[i:i + batch] for i in range(0, len(cases), batch)]

    def call(chunk, timeout):
        p = subprocess.run([C.PY, str(DRIVER)], input=json.dumps(chunk), capture_output=True, text=True,
                           timeout=timeout, env=C.child_env(env_extra))
        if p.returncode != 0:
            raise RuntimeError("c06_impl failed: " + p.stderr[-2000:])
        return json.loads(p.stdout)

    def one(chunk):
        budget = 25 + 0.5 * len(chunk) + 5 * sum(n_stops(c) for c in chunk)
        try:
            return call(chunk, budget)
        except subprocess.TimeoutExpired:
            res = []
            for c in chunk:
                try:
                    res += call([c], 20 + 5 * n_stops(c))
                except subprocess.TimeoutExpired:
                    res.append({"error": "timeout", "tb": "the driver did not return within the time limit on this case"})
            return res
    with ThreadPoolExecutor(max_workers=nproc) as ex:
        outs = list(ex.map(one, chunks))
    return [o for chunk_out in outs for o in chunk_out]


# ----------------------------------------------------------------------------- generation
def gen_model(rng, clock, *, stochastic, with_stats, fault=False, stop=False, init_cmd=False):
    u = S.unit_of(clock)
    prog = S.gen_program(rng, clock, p_illegal=0.05, p_cancel=0.10, p_obs=0.30 if with_stats else 0.08, n_stats=3,
                         max_events=60)
    hs = [h for h in range(1, len(prog))]
    if fault and hs:
        h = rng.choice(hs)
        prog[h].insert(rng.randint(0, len(prog[h])), ["fail"])
    if stop and hs:
        h = rng.choice(hs)
        prog[h].insert(rng.randint(0, len(prog[h])), ["cmd", ["stop"]])
    if init_cmd and hs:
        h = rng.choice(hs)
        prog[h].insert(rng.randint(0, len(prog[h])), ["cmd", ["init", 0, 0, 64]])
    model = {"prog": prog, "lst": [], "subs": [], "stats": [], "streams": [], "stream_mode": "new"}
    if with_stats:
        # SimPersistent compares its timestamps with a float: it cannot be used on a Duration clock (C11's ground)
        pool = [0, 2] if clock in ("dur", "durmin") else [0, 1, 2]
        sids = rng.sample(pool, rng.randint(1, len(pool)))
        key = 0
        for sid in sorted(sids):
            for _ in range(2 if rng.random() < 0.2 else 1):
                model["stats"].append([key, KIND_OF_SID[sid], sid])
                key += 1
        if rng.random() < 0.3:
            rng.shuffle(model["stats"])
    if stochastic:
        model["streams"] = [["a", rng.choice([0, rng.randint(1, 10 ** 6), rng.randint(1, 10 ** 6)])],
                            ["b", rng.randint(1, 10 ** 6)]]
        model["stream_mode"] = rng.choice(["new", "setseed"])
        for body in prog:
            for i, a in enumerate(body):
                if a[0] == "sched" and a[1][0] == "rel" and isinstance(a[1][1], int) and a[1][1] >= 0 and rng.random() < 0.6:
                    body[i] = ["sched", ["reld", rng.choice("ab"), 0, rng.randint(1, 6), u], a[2], a[3]]
                elif a[0] == "obs" and rng.random() < 0.7:
                    if KIND_OF_SID[a[1]] == "counter" or rng.random() < 0.4:
                        body[i] = ["obsd", a[1], rng.choice("ab"), -2, 9]
                    else:
                        body[i] = ["obsf", a[1], rng.choice("ab")]
        # make sure something is drawn
        prog[0].append(["sched", ["reld", "a", 0, 5, u], 5, 1])
        if rng.random() < 0.35:
            # components built in construct_model that listen to the simulator and react by drawing / scheduling
            hs2 = list(range(1, len(prog)))
            model["simlst"] = []
            for _ in range(rng.randint(1, 3)):
                ntf = rng.choice(["warmup", "warmup", "time", "start", "startrepl"])
                body = [rng.choice([["obsd", rng.choice([0, 2]), rng.choice("ab"), -2, 9],
                                    ["sched", ["reld", rng.choice("ab"), 0, 3, u], 5, rng.choice(hs2)]])]
                if ntf == "time":
                    body = [["obsd", rng.choice([0, 2]), rng.choice("ab"), -2, 9]]     # (a handler per time change would not end)
                model["simlst"].append([ntf, body])
    return model


def run_cmds_for(rng, clock, init, *, allow_end=True):
    """commands that drive (part of) the replication started by `init`"""
    u = S.unit_of(clock)
    start, end = init[1], init[3]
    out = []
    r = rng.random()
    if r < 0.45:
        out.append(["start"])
    else:
        t = start
        for _ in range(rng.randint(1, 4)):
            q = rng.random()
            if q < 0.35:
                out.append(["step"])
            else:
                t += u * rng.choice([0, 1, 2, 3, 5, 8])
                out.append(["runupto" if rng.random() < 0.5 else "runuptoincl", min(t, end + u)])
        if allow_end and rng.random() < 0.7:
            out.append(["start"])
    return out


def gen_fromend_case(rng, clock, i):
    """what an experiment driver does: the next replication is initialised (and started) from inside the
    END_REPLICATION notification of the previous one, on its run thread; the new replication is long, so that it is
    still running when the notification returns"""
    u = S.unit_of(clock)
    with_stats = clock not in ("dur", "durmin") or True
    body = [["sched", ["rel", u], 5, 1]]
    if rng.random() < 0.7:
        body.append(["obs", 0, rng.randint(-3, 9)])
    if rng.random() < 0.4:
        body.append(["sched", ["now"], rng.choice(S.PRIOS), 2])
    model = {"prog": [[["sched", ["rel", u * rng.randint(0, 2)], 5, 1]], body, [["obs", 2, 1]]],
             "lst": [], "subs": [], "stats": [[0, "tally", 0], [1, "counter", 2]] if with_stats else [],
             "streams": [], "stream_mode": "new"}
    if rng.random() < 0.5:
        model["streams"] = [["a", rng.randint(0, 10 ** 6)]]
        model["prog"][1].append(["obsd", 0, "a", -2, 9])
    init1 = ["init", 0, u * rng.randint(0, 4), u * rng.randint(3, 12), 0]
    start2 = rng.choice([0, 0, 8 * u]) if clock != "int" else rng.choice([0, 8])
    init2 = ["init", start2, start2 + u * rng.randint(0, 30), start2 + u * rng.randint(900, 1600), 0, "fromend"]
    cmds = [init1, ["start"], init2]
    if rng.random() < 0.7:
        cmds.append(["start", "fromend"])
    else:
        cmds += [["runupto", start2 + u * 50], ["start"]]
    return {"clock": clock, "strategy": "log", "models": [model], "cmds": cmds, "twin_from": 2, "hist_kind": "fromend"}


def gen_case(rng: random.Random, i: int) -> dict:
    clock = S.CLOCKS[i % len(S.CLOCKS)]
    u = S.unit_of(clock)
    kind = HIST_KINDS[(i // len(S.CLOCKS)) % len(HIST_KINDS)]
    if kind == "stop" and i % 7 != 0:          # stop() from a handler costs 1 s wall each
        kind = "bounded"
    if kind == "asap" and i % 3 != 0:          # slow subscribers cost ~1 s wall each
        kind = "ended"
    if kind == "fromend":
        if i % 5 != 0:                         # initialize on the run thread costs 1 s wall each
            kind = "ended"
        else:
            return gen_fromend_case(rng, clock, i)
    stochastic = (i % 3 == 1)
    with_stats = (i % 5 != 0)
    strategy = "pause" if kind in ("fault", "stop") or rng.random() < 0.5 else rng.choice(["log", "warn"])
    two = kind in ("othermodel", "multi") or rng.random() < 0.15
    # (an initialize issued by a handler after its own stop() is thread overlap, C04's ground: never both in one model)
    models = [gen_model(rng, clock, stochastic=stochastic, with_stats=with_stats,
                        fault=(kind == "fault"), stop=(kind == "stop"), init_cmd=(kind != "stop" and rng.random() < 0.06))]
    if two:
        models.append(gen_model(rng, clock, stochastic=stochastic and rng.random() < 0.7,
                                with_stats=with_stats and rng.random() < 0.8, fault=rng.random() < 0.2))
    init1 = S.gen_repl(rng, clock) + [0]
    cmds = [init1]
    aborted = False
    if kind == "never":
        pass
    elif kind == "stepped":
        cmds += [["step"]] * rng.randint(1, 6)
    elif kind == "bounded":
        t = init1[1] + u * rng.randint(0, 12)
        cmds.append([rng.choice(["runupto", "runuptoincl"]), t])
        if rng.random() < 0.4:
            cmds.append(["step"])
    elif kind == "asap":
        # the run of the first replication winds down while a slow subscriber is still being notified of STOP (or of
        # END_REPLICATION); the caller re-initialises as soon as is_starting_or_running() turns False
        cmds.append(rng.choice([["start"], ["runuptoincl", init1[1] + u * rng.randint(1, 10)], ["start"]]))
    elif kind in ("ended", "fault", "stop"):
        cmds.append(["start"])
        if kind == "fault" and rng.random() < 0.3:
            cmds.append(["step"])
    elif kind == "endrepl":
        cmds += [["step"]] * rng.randint(1, 3) + [["endrepl"]]
    elif kind == "cleanup":
        cmds += run_cmds_for(rng, clock, init1, allow_end=rng.random() < 0.5) + [["cleanup"]]
    elif kind == "othermodel":
        cmds += run_cmds_for(rng, clock, init1)
        ini = S.gen_repl(rng, clock) + [1]
        cmds += [ini] + run_cmds_for(rng, clock, ini)
        if rng.random() < 0.3:
            # the other model's construct_model raises: its initialize is ABORTED (the exception leaves initialize),
            # what follows on it is refused; the simulator must still give a fresh run to the next initialize
            b0 = models[1]["prog"][0]
            b0.insert(rng.randint(0, len(b0)), ["fail"])
            aborted = True
    elif kind == "multi":
        for _ in range(rng.randint(2, 3)):
            cmds += run_cmds_for(rng, clock, cmds[-1] if cmds[-1][0] == "init" else init1)
            ini = S.gen_repl(rng, clock) + [rng.randrange(len(models))]
            cmds.append(ini)
        cmds += run_cmds_for(rng, clock, cmds[-1])
    # the new replication: same model as the first (or the other one), a different run length
    mi = 0 if (not two or aborted or rng.random() < 0.7) else 1
    init2 = S.gen_repl(rng, clock) + [mi]
    if kind == "ended" and rng.random() < 0.6:
        # longer than the replication that ended: events left pending beyond its end must not leak
        init2 = ["init", init1[1], init1[2], init1[3] + u * rng.randint(4, 16), mi]
    j = len(cmds)
    case = {"clock": clock, "strategy": strategy, "models": models, "cmds": cmds, "twin_from": j, "hist_kind": kind}
    if rng.random() < 0.25:
        # initial methods registered with the simulator from outside the model before the first initialize:
        # they belong to every later replication as well
        nh = min(len(m["prog"]) for m in models) - 1
        case["initial"] = []
        for _ in range(rng.randint(1, 2)):
            body = [["sched", rng.choice([["rel", u * rng.randint(0, 6)], ["now"], ["rel", u * rng.randint(1, 12)]]),
                     rng.choice(S.PRIOS), rng.randint(1, nh)]]
            if rng.random() < 0.4:
                body.append(["obs", rng.randrange(3), rng.randint(-3, 9)])
            case["initial"].append(body)
    if kind == "asap":
        init2 = init2 + ["asap"]
        case["slow"] = {rng.choice(["stop", "stop", "endrepl"]): 0.3}
    cmds.append(init2)
    cmds += run_cmds_for(rng, clock, init2)
    if rng.random() < 0.5 and cmds[-1] != ["start"]:
        cmds.append(["start"])
    return case


def malformed_cases(rng, n):
    """duplicate statistic keys inside one construct_model, warm-up before the start, initialize with a
    bad model argument, initialize from a handler"""
    out = []
    for i in range(n):
        c = gen_case(rng, i * 4 + 1)
        k = i % 3
        if k == 0 and c["models"][0]["stats"]:
            st = c["models"][0]["stats"]
            st.append([st[0][0], st[0][1], st[0][2]])
        elif k == 1:
            c["cmds"].insert(c["twin_from"], ["initbad"])
            c["twin_from"] += 1
        else:
            for m in c["models"]:
                hs = [h for h in range(1, len(m["prog"]))]
                if hs:
                    m["prog"][rng.choice(hs)].insert(0, ["cmd", ["init", 0, 0, 64]])
        c["hist_kind"] = "malformed"
        out.append(c)
    return out


# ----------------------------------------------------------------------------- oracle
def segment(obs, j_mark):
    m = obs["marks"][j_mark]
    return {k: obs[k][m[k]:] for k in COMPONENTS} | {"snaps": obs["snaps"][m["snaps"]:]}


def is_det(case):
    for m in case["models"]:
        if m.get("streams") or m.get("lst") or m.get("subs") or m.get("pre") or m.get("simlst"):
            return False
        for body in m["prog"]:
            for a in body:
                if a[0] in ("obsd", "obsf", "fire", "sub", "unsub") or (a[0] == "sched" and a[1][0] == "reld"):
                    return False
    return not case.get("stop_at") and not case.get("slow")


def aborts(case, c):
    """c is an initialize of a model whose construct_model raises"""
    if c[0] != "init":
        return False
    mi = c[4] if len(c) > 4 and isinstance(c[4], int) else 0
    return any(a[0] == "fail" for a in case["models"][mi]["prog"][0])


def masked(case, obs):
    """the observation with the outcome of aborted initialisations written as 'ok' (for simlib.representable)"""
    o = dict(obs)
    o["snaps"] = [(["ok"] + list(sn[1:])) if (isinstance(sn[0], str) and sn[0].startswith("exc:") and ci < len(case["cmds"])
                                                 and aborts(case, case["cmds"][ci])) else sn
                  for ci, sn in enumerate(obs["snaps"])]
    return o


def oracle(case, obs):
    """first violated clause of C06 on the implementation's own observations, or None; plus facts"""
    facts = {"hist_executed": 0, "hist_pending": 0, "second_executed": 0, "stats": False, "stochastic": not is_det(case),
             "two_models": len(case["models"]) > 1, "kind": case.get("hist_kind")}
    if obs.get("error") == "timeout":
        return ("implementation-does-not-return", "the simulator never became quiescent / a command never returned on this case"), facts
    if "error" in obs:
        return ("driver-error", obs["error"] + " " + obs.get("tb", "")[-300:]), facts
    tw = obs.get("twin")
    if tw is None or "error" in tw:
        return ("driver-error", "twin: " + str(tw)[:400]), facts
    if obs["notes"] or tw["notes"]:
        return ("not-quiescent", "; ".join(obs["notes"] + tw["notes"])), facts
    if obs.get("late_ntfs") or tw.get("late_ntfs"):
        return ("old-run-thread-notifies-after-initialize", f"the run thread of the previous replication fired "
                f"{(obs.get('late_ntfs') or tw.get('late_ntfs'))[:3]} after initialize() had returned"), facts
    j = case["twin_from"]
    init = case["cmds"][j]
    start, warm, end = init[1], init[2], init[3]
    pre = obs["snaps"][j - 1] if j > 0 else None
    sn = obs["snaps"][j]
    dup_keys = any(len({s[0] for s in m["stats"]}) != len(m["stats"]) for m in case["models"])
    for ci, c in enumerate(case["cmds"]):
        r = obs["snaps"][ci][0]
        if aborts(case, c):
            if r == "exc:RuntimeError" and obs["snaps"][ci][1:3] == ["NOT_INITIALIZED", "NOT_INITIALIZED"]:
                continue
            if r != "refused":
                return ("aborted-initialize-wrong", f"{c}: construct_model raises, initialize answered {r} and left "
                        f"{obs['snaps'][ci][1:3]}"), facts
        if r not in ("ok", "refused"):
            return ("command-raises-unrelated-error", f"{c} -> {r}"), facts
    # initialize issued by a handler of the running simulation must be refused
    for ent in obs["log"] + tw["log"]:
        if ent[0] == "icmd" and ent[1][0] == "init" and ent[2] != "refused" and ent[3] in ("STARTING", "STARTED"):
            return ("initialize-while-running-accepted", f"initialize issued by a handler while the simulator was {ent[3]} "
                    f"answered {ent[2]}"), facts
        if ent[0] == "icmd" and ent[1][0] == "init" and ent[3] == "STOPPING":
            # initialize from a handler right after its own stop(): the run thread is still inside the loop but
            # STOPPING counts as stopped - thread overlap, C04's known finding overlap:initialize-from-handler-after-stop
            facts["kind"] = "overlap-c04"
            return None, facts
    if sn[0] != "ok":
        if dup_keys or warm < start:
            facts["kind"] = "malformed"
            if tw["snaps"][0][0] == "ok":
                return ("reinit-refused-but-fresh-accepted", f"{init}: re-initialisation refused, fresh accepted"), facts
            return None, facts
        return ("second-initialize-refused", f"initialize {init} after history {case['cmds'][:j]} answered {sn[0]} "
                f"(state before: {pre})"), facts
    if tw["snaps"][0][0] != "ok":
        return None, facts          # refused on a brand-new simulator as well (malformed request)
    if not obs["marks"]:
        return ("driver-error", "no mark recorded"), facts
    jm = len(obs["marks"]) - 1
    while jm > 0 and obs["marks"][jm]["cmd"] != j:
        jm -= 1
    if obs["marks"][jm]["cmd"] != j:
        return ("driver-error", "mark of the last initialize not found"), facts
    seg = segment(obs, jm)
    tseg = {k: tw[k] for k in COMPONENTS} | {"snaps": tw["snaps"]}
    # what the history did
    m0 = obs["marks"][jm]
    facts["hist_executed"] = m0["trace"]
    facts["hist_pending"] = pre[4] if pre else 0
    facts["second_executed"] = len(seg["trace"])
    facts["stats"] = any(m["stats"] for m in case["models"])
    # --- clauses on the implementation alone
    if sn[3] != start:
        return ("reinit-clock-not-reset", f"clock {sn[3]}/4 after initialize, replication starts at {start}/4"), facts
    if (sn[1], sn[2]) != ("INITIALIZED", "INITIALIZED"):
        return ("reinit-state-wrong", f"state after initialize {sn[1]}/{sn[2]}"), facts
    if sn[4] != tw["snaps"][0][4]:
        return ("reinit-pending-not-fresh", f"{sn[4]} events pending after re-initialisation, {tw['snaps'][0][4]} on a "
                f"brand-new simulator ({pre[4] if pre else 0} were pending before)"), facts
    wu = [n for n in seg["ntfs"] if n[0] == "warmup"]
    if len(wu) > 1:
        return ("warmup-more-than-once", f"{len(wu)} WARMUP notifications in the new replication"), facts
    if wu and wu[0][1] != warm:
        return ("warmup-at-wrong-time", f"WARMUP at {wu[0][1]}/4, warm-up time {warm}/4"), facts
    # --- re-initialised run == run on a brand-new simulator and model
    for k in COMPONENTS + ["snaps"]:
        if seg[k] != tseg[k]:
            a, b = seg[k], tseg[k]
            d = next((x for x in range(min(len(a), len(b))) if a[x] != b[x]), min(len(a), len(b)))
            return (f"reinit-run-differs-from-fresh-{k}", f"{k} after re-initialisation differs from the brand-new run at "
                    f"position {d}: {a[d:d + 3]} vs {b[d:d + 3]} (lengths {len(a)}/{len(b)})"), facts
    if obs["alive"] != tw["alive"]:
        return ("reinit-run-differs-from-fresh-worker", f"worker alive {obs['alive']} vs {tw['alive']}"), facts
    ra, rb = obs["reported"], tw["reported"]
    if ra != rb:
        what = "reported statistics differ"
        if isinstance(ra, list) and isinstance(rb, list):
            if [x["key"] for x in ra] != [x["key"] for x in rb]:
                what = f"statistic keys {[x['key'] for x in ra]} vs {[x['key'] for x in rb]}"
            else:
                for x, y in zip(ra, rb):
                    if x != y:
                        dk = [g for g in x["getters"] if x["getters"].get(g) != y["getters"].get(g)]
                        what = (f"statistic {x['key']}: getters {dk[:4]} differ "
                                f"({[x['getters'].get(g) for g in dk[:2]]} vs {[y['getters'].get(g) for g in dk[:2]]}); fed "
                                f"{len(x['fed'])} vs {len(y['fed'])} events")
                        break
        return ("reinit-statistics-differ-from-fresh", what), facts
    if isinstance(ra, list):
        mi = init[4] if len(init) > 4 else 0
        want = [f"st{s[0]}" for s in case["models"][mi]["stats"]]
        if [x["key"] for x in ra] != want:
            return ("statistics-map-not-rebuilt", f"output_statistics keys {[x['key'] for x in ra]}, construct_model builds {want}"), facts
        if not all(x["is_current_object"] for x in ra):
            return ("statistics-map-holds-old-object", "a key of output_statistics() maps to an object of an earlier replication"), facts
    if obs.get("settled") != tw.get("settled"):
        return ("reinit-run-differs-from-fresh-settled-state", f"state once every subscriber has returned: {obs.get('settled')} "
                f"vs {tw.get('settled')} on the brand-new simulator"), facts
    # --- statistics of earlier replications are left alone
    final = {(x[0], x[1], x[2]): x for x in obs["final_stats"]}
    for jj, snap in enumerate(obs["pre_init"]):
        if jj == 0 or case.get("slow"):      # (snapshot taken while the old run was still winding down)
            continue
        for x in snap:
            y = final.get((x[0], x[1], x[2]))
            if y is None or y[4] != x[4] or y[5] != x[5]:
                dk = [] if y is None else [g for g in x[4] if x[4].get(g) != y[4].get(g)]
                return ("old-statistics-changed", f"statistic st{x[2]} (model {x[0]}, built by initialize no. {x[1]}) changed after a "
                        f"later initialize: getters {dk[:4]}, fed {len(x[5])} -> {len(y[5]) if y else None} events"), facts
    return None, facts


# ----------------------------------------------------------------------------- Coq emission
SK = {"counter": "KCounter", "tally": "KTally", "persistent": "KPersistent"}


def with_initial(m, initial):
    """the initial methods (performed at the end of every initialize, after construct_model, before the warm-up is
    scheduled) as a tail of the construct_model body"""
    if not initial:
        return m
    m2 = dict(m)
    m2["prog"] = [list(m["prog"][0]) + [a for body in initial for a in body]] + [list(b) for b in m["prog"][1:]]
    return m2


def c_xprog(m):
    stats = C.clist(f"({C.cnat(k)}, {SK[kind]}, {C.cnat(sid)})" for k, kind, sid in m["stats"])
    prog = C.clist(C.clist(S.c_action(a) for a in body) for body in m["prog"])
    return f"(mkXProg {stats} {prog})"


def as_int(v):
    if isinstance(v, str):
        f = float.fromhex(v)
        if f != int(f):
            raise ValueError(v)
        return int(f)
    return int(v)


def c_fed(sid, fed):
    out = []
    for e in fed:
        if e[0] == "v":
            out.append(f"ObsV {C.cnat(sid)} {C.cz(as_int(e[1]))} {C.cz(e[2])}")
        elif e[0] == "warm":
            out.append(f"ObsWarm {C.cz(e[1])}")
        else:
            out.append(f"ObsEnd {C.cz(e[1])}")
    return C.clist(out)


def coq_repr(case, obs):
    """None if case + observation can be written as an xcase, else why not"""
    if not is_det(case):
        return "stochastic"
    why = S.representable(masked(case, obs))
    if why:
        return why
    if obs.get("racy_snaps"):
        return "snapshot taken while a run thread was still active"
    if not isinstance(obs.get("reported"), (list, type(None))):
        return "reported: " + str(obs["reported"])
    for m in case["models"]:
        for body in m["prog"]:
            for a in body:
                if a[0] == "cmd" and a[1][0] == "init" and len(a[1]) > 4 and a[1][4] != 0:
                    return "inner init of another model"
    return None


def c_xcase(case, obs):
    names = []
    for mi, m in enumerate(case["models"]):
        names.append(c_xprog(with_initial(m, case.get("initial"))))
    hist = []
    cur = 0
    for c in case["cmds"]:
        if c[0] == "init":
            cur = c[4] if len(c) > 4 else 0
        hist.append(f"(m{cur}, {S.c_cmd(c[:4] if c[0] == 'init' else c)})")
    rep = []
    last_mi = None
    for ci, c in enumerate(case["cmds"]):
        if c[0] == "init" and obs["snaps"][ci][0] == "ok":
            last_mi = c[4] if len(c) > 4 else 0
    if obs.get("reported") and last_mi is not None:
        sid_of = {f"st{k}": (k, kind, sid) for k, kind, sid in case["models"][last_mi]["stats"]}
        for x in obs["reported"]:
            k, kind, sid = sid_of.get(x["key"], (999, "tally", 0))
            rep.append(f"({C.cnat(k)}, {SK.get(x['kind'] or kind, 'KTally')}, {c_fed(sid, x['fed'])})")
    lets = " ".join(f"let m{i} := {nm} in" for i, nm in enumerate(names))
    return (f"({lets} mkXCase {S.STRAT[case['strategy']]} {C.clist(hist)} {S.c_expect(obs)} {C.clist(rep)})")


def coq_compare(cases, obs, shard=120):
    """codes[i]: 0 agree, 1 disagree, 2 outside the model, 3 not representable / not deterministic"""
    d = C.scratch_dir(PID)
    codes = [3] * len(cases)
    idxs = []
    for i, (c, o) in enumerate(zip(cases, obs)):
        try:
            if coq_repr(c, o) is None:
                c_xcase(c, o)
                idxs.append(i)
        except (ValueError, KeyError):
            pass
    groups = [idxs[s:s + shard] for s in range(0, len(idxs), shard)]
    files = []
    for g, grp in enumerate(groups):
        f = d / f"cases_c06_{g}.v"
        lines = ["From Coq Require Import ZArith List.", "From PV Require Import Sim.Model Sim.Case Sim.Reinit.",
                 "Import ListNotations.", "Definition cases : list xcase := ["]
        lines.append(";\n".join(c_xcase(cases[i], obs[i]) for i in grp))
        lines.append("].")
        lines.append("Eval vm_compute in (xcodes_from 0 1 cases).")
        lines.append("Eval vm_compute in (xcodes_from 0 2 cases).")
        f.write_text("\n".join(lines) + "\n")
        files.append(f)
    results = C.coqc_many(files)
    for g, (rc, out) in enumerate(results):
        lists = C.parse_nat_lists(out)
        if rc != 0 or len(lists) != 2:
            return codes, f"coqc failed on {files[g]}: {out[-800:]}"
        for i in groups[g]:
            codes[i] = 0
        for jx in lists[0]:
            codes[groups[g][jx]] = 1
        for jx in lists[1]:
            codes[groups[g][jx]] = 2
    return codes, None


def coq_view(case, obs):
    d = C.SCRATCH / (PID + "_view")
    d.mkdir(parents=True, exist_ok=True)
    f = d / "view.v"
    f.write_text("From Coq Require Import ZArith List.\nFrom PV Require Import Sim.Model Sim.Case Sim.Reinit.\n"
                 "Import ListNotations.\n"
                 f"Definition c : xcase := {c_xcase(case, obs)}.\n"
                 "Eval vm_compute in (xcase_diff c).\nEval vm_compute in (xcase_view c).\n")
    rc, out = C.coqc_file(f)
    return out[-6000:]


# ----------------------------------------------------------------------------- composed model (Sim/Repro.v)
STREAM_IX = {"a": 0, "b": 1, "c": 2}
TWO53 = 1 << 53


def c_yaction(a):
    k = a[0]
    if k == "sched" and a[1][0] == "reld":
        m = a[1]
        return f"YSchedD {C.cnat(STREAM_IX[m[1]])} {C.cz(m[2])} {C.cz(m[3])} {C.cz(m[4])} {C.cz(a[2])} {C.cnat(a[3])}"
    if k == "obsd":
        return f"YObsD {C.cnat(a[1])} {C.cnat(STREAM_IX[a[2]])} {C.cz(a[3])} {C.cz(a[4])}"
    if k == "obsf":
        return f"YObsF {C.cnat(a[1])} {C.cnat(STREAM_IX[a[2]])}"
    if k == "fire":
        return f"YFire {C.cnat(a[1])}"
    if k == "sub":
        return f"YSub {C.cnat(a[1])} {C.cnat(a[2])}"
    if k == "unsub":
        return f"YUnsub {C.cnat(a[1])} {C.cnat(a[2])}"
    if k == "schedpre":
        return f"YSchedPre {C.cnat(a[1])}"
    return f"YA ({S.c_action(a)})"


def raw_outputs(seed, n):
    """the raw outputs k (u = k / 2^53) of random.Random(seed): CPython's generator is trusted (C12)"""
    r = random.Random(seed)
    return [int(r.random() * TWO53) for _ in range(n)]


def name_hash(nm):
    h = 0
    for ch in nm:
        h = (31 * h + ord(ch)) & 0xFFFFFFFF
    return h


def effective_seeds(m):
    """the seed every stream has when construct_model is done: given directly, or set by the library's updaters
    (StreamSeedUpdater with its SimpleStreamUpdater fallback; the prediction is checked against Streams/Seeds.v)"""
    if m.get("stream_mode") != "updater":
        return [[nm, sd] for nm, sd in m.get("streams", [])]
    up = m["updater"]
    out = []
    for nm, orig in m.get("streams", []):
        if up["kind"] == "seed" and nm in up.get("seeds", {}):
            out.append([nm, up["seeds"][nm][up["nr"]]])
        else:
            out.append([nm, orig + up["nr"] * (1_000_037 + name_hash(nm))])
    return out


def seed_checks(m):
    """Coq terms (simple?, table, name, original seed, replication number, seed used by the harness)"""
    if m.get("stream_mode") != "updater":
        return []
    up = m["updater"]
    tbl = C.clist(f"({C.clist(C.cz(ord(ch)) for ch in k)}, {C.clist(C.cz(x) for x in v)})"
                  for k, v in up.get("seeds", {}).items()) if up["kind"] == "seed" else "[]"
    eff = dict(effective_seeds(m))
    return [f"({C.cbool(up['kind'] == 'simple')}, {tbl}, {C.clist(C.cz(ord(ch)) for ch in nm)}, {C.cz(orig)}, "
            f"{C.cz(up['nr'])}, {C.cz(eff[nm])})" for nm, orig in m.get("streams", [])]


def c_ymodel(m, ndraws):
    prog = C.clist(C.clist(c_yaction(a) for a in body) for body in m["prog"])
    lst = C.clist(C.clist(c_yaction(a) for a in body) for body in m.get("lst", []))
    subs = C.clist(f"({C.cnat(et)}, {C.cnat(l)})" for et, l in m.get("subs", []))
    stats = C.clist(f"({C.cnat(k)}, {SK[kind]}, {C.cnat(sid)})" for k, kind, sid in m.get("stats", []))
    tabs = [[] for _ in range(3)]
    for nm, seed in effective_seeds(m):
        tabs[STREAM_IX[nm]] = raw_outputs(seed, ndraws.get(nm, 0) + 2)
    streams = C.clist(C.clist(C.cz(k) for k in t) for t in tabs)
    pre = C.clist(f"({C.cz(pe[0])}, {C.cz(pe[1])}, {C.cnat(pe[2])})" for pe in m.get("pre", []))
    return f"(mkYModel {prog} {lst} {subs} {stats} {streams} {pre})"


def pre_ids(case):
    """ids of the pre-built SimEvent objects of model 0 as the model sees them: below the id counter (negative), in
    the order of construction - the "early" ones (built before anything else in the process), then the others"""
    pre = case["models"][0].get("pre", [])
    early_ok = case.get("_early_built", False)
    order = ([j for j, pe in enumerate(pre) if early_ok and len(pe) > 3 and pe[3] == "early"]
             + [j for j, pe in enumerate(pre) if not (early_ok and len(pe) > 3 and pe[3] == "early")])
    rank = {j: r for r, j in enumerate(order)}
    return [rank[j] - len(pre) for j in range(len(pre))]


def conv_val(v):
    """observation values: ints stay, float draws u = k / 2^53 become k, integral floats become ints"""
    if isinstance(v, str):
        f = float.fromhex(v)
        if f == int(f) and (abs(f) >= 1 or f == 0):
            return int(f)
        k = f * TWO53
        if k != int(k):
            raise ValueError(v)
        return int(k)
    return int(v)


def c_yfed(sid, fed):
    out = []
    for e in fed:
        if e[0] == "v":
            out.append(f"ObsV {C.cnat(sid)} {C.cz(conv_val(e[1]))} {C.cz(e[2])}")
        elif e[0] == "warm":
            out.append(f"ObsWarm {C.cz(e[1])}")
        else:
            out.append(f"ObsEnd {C.cz(e[1])}")
    return C.clist(out)


def c_yexpect(obs):
    res = lambda r: "ResOk" if r == "ok" else ("ResRaised" if r.startswith("exc:") else "ResRefused")
    snaps = C.clist(f"mkSnap {res(s[0])} {S.RS[s[1]]} {S.PS[s[2]]} {C.cz(s[3])} {C.cnat(s[4])}"
                    for s in obs["snaps"])
    trace = C.clist(f"({C.cnat(k)}, {C.cz(t)})" for k, t in obs["trace"])
    outs = C.clist({"acc": "OAccepted", "ref": "ORefused", "cmdok": "OCmdOk", "cmdref": "OCmdRefused"}[o]
                   for o in obs["outs"])
    ntfs = C.clist(("NStarting" if nm == "starting" else "NStopping" if nm == "stopping" else f"{S.NTF[nm]} {C.cz(t)}")
                   for nm, t in obs["ntfs"])
    ob = C.clist(f"ObsV {C.cnat(s)} {C.cz(conv_val(v))} {C.cz(t)}" for s, v, t in obs["obs"])
    canc = C.clist(C.cnat(k) for k in obs.get("canc", []))
    return f"(mkExpect {snaps} {trace} {outs} {ntfs} {ob} {canc} {C.cbool(obs['alive'])})"


def draw_counts(case, obs):
    """per model: stream -> the largest number of draws in one replication"""
    res = [dict() for _ in case["models"]]
    marks = obs.get("marks") or []
    for j, mk in enumerate(marks):
        c = case["cmds"][mk["cmd"]]
        mi = c[4] if len(c) > 4 else 0
        hi = marks[j + 1]["draws"] if j + 1 < len(marks) else len(obs["draws"])
        cnt = {}
        for d in obs["draws"][mk["draws"]:hi]:
            cnt[d[0]] = cnt.get(d[0], 0) + 1
        for nm, n in cnt.items():
            res[mi][nm] = max(res[mi].get(nm, 0), n)
    return res


def c_ycase(case, obs, mnames):
    """mnames[i]: Coq name of model i"""
    hist = []
    cur = 0
    for c in case["cmds"]:
        if c[0] == "init":
            cur = c[4] if len(c) > 4 else 0
        hist.append(f"({mnames[cur]}, {S.c_cmd(c[:4] if c[0] == 'init' else c)})")
    dl = C.clist(f"mkDlv {C.cnat(et)} {C.cnat(l)} {C.cnat(ser)} {C.cz(t)}" for et, l, ser, t in obs["dlv"])
    # the raw output behind every draw, in order: streams restart at every accepted initialize
    drw = []
    marks = obs.get("marks") or []
    for j, mk in enumerate(marks):
        c = case["cmds"][mk["cmd"]]
        mi = c[4] if len(c) > 4 else 0
        seeds = dict((nm, sd) for nm, sd in effective_seeds(case["models"][mi]))
        hi = marks[j + 1]["draws"] if j + 1 < len(marks) else len(obs["draws"])
        seg = obs["draws"][mk["draws"]:hi]
        tabs = {nm: raw_outputs(sd, sum(1 for d in seg if d[0] == nm) + 1) for nm, sd in seeds.items()}
        pos = {nm: 0 for nm in seeds}
        for nm, kind, v in seg:
            drw.append(f"({C.cnat(STREAM_IX[nm])}, {C.cz(tabs[nm][pos[nm]])})")
            pos[nm] += 1
    rep = []
    last_mi = None
    for ci, c in enumerate(case["cmds"]):
        if c[0] == "init" and obs["snaps"][ci][0] == "ok":
            last_mi = c[4] if len(c) > 4 else 0
    if isinstance(obs.get("reported"), list) and last_mi is not None:
        sid_of = {f"st{k}": (k, kind, sid) for k, kind, sid in case["models"][last_mi]["stats"]}
        for x in obs["reported"]:
            k, kind, sid = sid_of[x["key"]]
            rep.append(f"({C.cnat(k)}, {SK[x['kind'] or kind]}, {c_yfed(sid, x['fed'])})")
    pre = C.clist(C.cz(i) for i in pre_ids(case))
    return f"(mkYCase {S.STRAT[case['strategy']]} {C.clist(hist)} {c_yexpect(obs)} {dl} {C.clist(drw)} {C.clist(rep)} {pre})"


YPRELUDE = ["From Coq Require Import ZArith List.",
            "From PV Require Import Sim.Model Sim.Case Sim.Reinit Sim.Repro.",
            "From PV Require Streams.Stream Streams.Seeds.",
            "Import ListNotations.",
            "Definition seed_pred (q : bool * list (PV.Streams.Seeds.name * list Z) * PV.Streams.Seeds.name * Z * Z * Z) : bool := "
            "let '(simple, tbl, n, orig, r, s) := q in "
            "match (if simple then PV.Streams.Seeds.simple_update PV.Streams.Seeds.str_hash n orig r "
            "else PV.Streams.Seeds.table_update tbl (PV.Streams.Seeds.simple_update PV.Streams.Seeds.str_hash) n orig r) with "
            "| PV.Streams.Seeds.Val v => Z.eqb v s | _ => false end.",
            "Fixpoint bad_seeds (i : nat) (l : list (bool * list (PV.Streams.Seeds.name * list Z) * PV.Streams.Seeds.name * Z * Z * Z)) : list nat := "
            "match l with [] => [] | q :: r => if seed_pred q then bad_seeds (S i) r else i :: bad_seeds (S i) r end.",
            "Definition nint (lo hi k : Z) : Z := match PV.Streams.Stream.next_int_fixed lo hi k with "
            "PV.Streams.Stream.OInt z => z | _ => lo end."]


def y_repr(case, obs):
    why = S.representable(masked(case, obs))
    if why:
        return why
    if case.get("stop_at"):
        return "stop_at"
    if obs.get("racy_snaps"):
        return "snapshot taken while the run thread was winding down"
    if any(m.get("simlst") for m in case["models"]):
        return "components listening to the simulator"
    if any(m.get("pre") for m in case["models"][1:]):
        return "pre-built events of a second model"
    if not isinstance(obs.get("reported"), (list, type(None))):
        return "reported"
    for m in case["models"]:
        for body in m["prog"] + m.get("lst", []):
            for a in body:
                if a[0] == "cmd" and a[1][0] == "init" and len(a[1]) > 4 and a[1][4] != 0:
                    return "inner init of another model"
    return None


def ycoq_compare(pid, items, shard=60):
    """items: list of (case, obs); returns (codes, error): 0 agree, 1 disagree, 2 outside the model, 3 not representable"""
    d = C.scratch_dir(pid + "y")
    codes = [3] * len(items)
    texts = {}
    for i, (c, o) in enumerate(items):
        try:
            if y_repr(c, o) is None:
                nd = draw_counts(c, o)
                defs = [c_ymodel(with_initial(m, c.get("initial")), nd[mi]) for mi, m in enumerate(c["models"])]
                lets = " ".join(f"let m{mi} := {t} in" for mi, t in enumerate(defs))
                texts[i] = f"({lets} {c_ycase(c, o, ['m%d' % mi for mi in range(len(defs))])})"
        except (ValueError, KeyError):
            pass
    idxs = sorted(texts)
    groups = [idxs[s:s + shard] for s in range(0, len(idxs), shard)]
    files = []
    for g, grp in enumerate(groups):
        f = d / f"cases_{pid.lower()}y_{g}.v"
        chk = sorted({t for i in grp for m in items[i][0]["models"] for t in seed_checks(m)})
        lines = list(YPRELUDE) + ["Definition cases : list ycase := [", ";\n".join(texts[i] for i in grp), "].",
                                  "Eval vm_compute in (ycodes_from nint 0 1 cases).",
                                  "Eval vm_compute in (ycodes_from nint 0 2 cases).",
                                  "Eval vm_compute in (bad_seeds 0 [" + "; ".join(chk) + "])."]
        f.write_text("\n".join(lines) + "\n")
        files.append(f)
    results = C.coqc_many(files)
    for g, (rc, out) in enumerate(results):
        lists = C.parse_nat_lists(out)
        if rc != 0 or len(lists) != 3:
            return codes, f"coqc failed on {files[g]}: {out[-800:]}"
        if lists[2]:
            return codes, (f"the seeds the harness gives the streams under the library's updaters differ from what "
                           f"Streams/Seeds.v (C13) predicts: entries {lists[2]} of the seed check in {files[g]}")
        for i in groups[g]:
            codes[i] = 0
        for jx in lists[0]:
            codes[groups[g][jx]] = 1
        for jx in lists[1]:
            codes[groups[g][jx]] = 2
    return codes, None


def ycoq_view(pid, case, obs):
    d = C.SCRATCH / (pid + "_view")
    d.mkdir(parents=True, exist_ok=True)
    f = d / "yview.v"
    nd = draw_counts(case, obs)
    defs = "\n".join(f"Definition m{mi} : ymodel := {c_ymodel(with_initial(m, case.get('initial')), nd[mi])}."
                     for mi, m in enumerate(case["models"]))
    f.write_text("\n".join(YPRELUDE) + "\n" + defs + "\n"
                 f"Definition c : ycase := {c_ycase(case, obs, ['m%d' % mi for mi in range(len(case['models']))])}.\n"
                 "Eval vm_compute in (ycase_parts nint c).\nEval vm_compute in (ycase_view nint c).\n")
    rc, out = C.coqc_file(f)
    return out[-6000:]


# ----------------------------------------------------------------------------- shrinking
def shrink(case, pred, budget=60):
    cur = copy.deepcopy(case)
    changed = True
    while changed and budget > 0:
        changed = False
        # drop history commands (never an initialize that is the twin start)
        for jx in range(len(cur["cmds"]) - 1, -1, -1):
            if jx == cur["twin_from"]:
                continue
            cand = copy.deepcopy(cur)
            del cand["cmds"][jx]
            if jx < cand["twin_from"]:
                cand["twin_from"] -= 1
            if not cand["cmds"] or cand["cmds"][0][0] != "init":
                continue
            budget -= 1
            if pred(cand):
                cur = cand
                changed = True
                break
        if changed or budget <= 0:
            continue
        for ix in range(len(cur.get("initial") or [])):
            cand = copy.deepcopy(cur)
            del cand["initial"][ix]
            budget -= 1
            if pred(cand):
                cur = cand
                changed = True
                break
        if changed or budget <= 0:
            continue
        for mi, m in enumerate(cur["models"]):
            for h in range(len(m["prog"])):
                for ix in range(len(m["prog"][h])):
                    cand = copy.deepcopy(cur)
                    del cand["models"][mi]["prog"][h][ix]
                    budget -= 1
                    if pred(cand):
                        cur = cand
                        changed = True
                        break
                if changed or budget <= 0:
                    break
            if changed or budget <= 0:
                break
            if len(m["stats"]) > 1:
                cand = copy.deepcopy(cur)
                cand["models"][mi]["stats"].pop()
                budget -= 1
                if pred(cand):
                    cur = cand
                    changed = True
                    break
    return cur


RULE = ("generated (history, new replication) pairs on int / float / Duration clocks: history kinds never started, stepped k "
        "times, bounded run, ended, paused by a handler fault (WARN_AND_PAUSE), paused by stop() from a handler, "
        "end_replication, cleanup, another model's replication in between (in 30% of these the other model's construct_model raises: an aborted initialize), several replications in sequence, re-initialisation "
        "at the instant is_starting_or_running() turns False while a slow subscriber is still being notified of STOP / END_REPLICATION, "
        "initialize (and start) of a long next replication issued from inside the END_REPLICATION notification of the previous one; one or two "
        "model programs taking turns; models with / without SimCounter, SimTally, SimPersistent built in construct_model "
        "(also two statistics on one data stream) and with / without seeded MersenneTwister streams re-created or re-seeded in "
        "construct_model whose draws set delays and observed values; the new replication has its own start / warm-up / end "
        "(after an ended history mostly a longer one) and is run by start or in pieces; a quarter of the cases register 1-2 initial "
        "methods with simulator.add_initial_method from outside the model before the first initialize (they schedule events / observe); each case is run on one simulator "
        "and, from its last initialize on, on a brand-new simulator and model object; plus a malformed stream (duplicate "
        "statistic keys, initialize with a bad argument, initialize from a handler). non-trivial = distinct case whose "
        "history executed an event or left one pending and whose new replication executed >= 3 events")


def main(tier: str) -> int:
    run = C.Run(PID, tier)
    proofs_ok = run.check_proofs(TARGETS, extra_tb=[
        "pending set modelled at specification level (sorted list); the heap-backed list is covered by C01's refinement theorem and by this correspondence",
        "times are exact dyadic numbers (quarters); float rounding of clock arithmetic is not modelled",
        "worker thread executed synchronously (commands observed at quiescence); CPython threading trusted",
        "random streams are outside Sim/Model.v: runs with draws are evaluated on the composed model Sim/Repro.v (streams = raw outputs of random.Random(seed) computed by the harness; CPython's generator trusted, next_int = C12's Streams.Stream.next_int_fixed) and compared implementation (re-initialised) against implementation (brand-new)",
        "statistics getters are compared bit for bit between the two implementation runs; the model predicts what each statistic object is fed (recorded by subclasses of SimCounter/SimTally/SimPersistent that log every notify before delegating)",
    ])
    rng = random.Random(run.seed * 130003 + 6)
    n = 520 if tier == "quick" else 16000
    cases = []
    corpus = C.VERIF / "corpus" / f"{PID}.json"
    if corpus.exists():
        cases += json.loads(corpus.read_text())
    ncorp = len(cases)
    cases += [gen_case(rng, i) for i in range(n)]
    cases += malformed_cases(rng, 24 if tier == "quick" else 400)
    try:
        obs = run_impl(cases)
    except Exception as exc:  # noqa
        run.violation("harness-cannot-run-implementation", f"{type(exc).__name__}: {exc}"[:600], {}, found_input=False)
        return run.finish()

    nontriv = set()
    hist = {}
    bads = {}
    for i, (c, o) in enumerate(zip(cases, obs)):
        bad, facts = oracle(c, o)
        k = facts.get("kind") or "corpus"
        hist[k] = hist.get(k, 0) + 1
        for f in ("stats", "stochastic", "two_models"):
            if facts.get(f):
                hist[f] = hist.get(f, 0) + 1
        if (facts["hist_executed"] > 0 or facts["hist_pending"] > 0) and facts["second_executed"] >= 3:
            nontriv.add(json.dumps([c["models"], c["cmds"], c["clock"], c["strategy"]]))
            if facts["hist_pending"] > 0:
                hist["history_left_events_pending"] = hist.get("history_left_events_pending", 0) + 1
        if bad and bad[0] not in bads:
            bads[bad[0]] = (i, bad)
    run.cov["evaluations"] = len(cases)
    run.cov["distinct_nontrivial"] = len(nontriv)
    run.cov["rule"] = RULE
    run.cov["feature_histogram"] = hist
    run.cov["clock_kinds"] = sorted({c["clock"] for c in cases})
    for c, o in list(zip(cases, obs))[ncorp:ncorp + 2]:
        run.add_sample({"case": c, "impl": {k: o.get(k) for k in ("snaps", "trace", "ntfs")}})

    # a deviation must reproduce when the same case is run again in a new interpreter (the property is about a
    # deterministic function; an observation that does not reproduce is a thread-timing artefact of the harness /
    # C04's ground and is recorded, not reported)
    unconfirmed = []
    for sig, (i, bad) in list(bads.items()):
        again = []
        for _ in range(2):
            try:
                b2, _ = oracle(cases[i], run_impl([cases[i]], nproc=1)[0])
            except Exception:  # noqa
                b2 = None
            again.append(bool(b2))
        if not any(again):
            unconfirmed.append({"signature": sig, "what": bad[1][:300], "case_index": i})
            del bads[sig]
    if unconfirmed:
        run.cov["unconfirmed_observations"] = unconfirmed
        run.notes.append(f"{len(unconfirmed)} deviation(s) did not reproduce on re-running the same case and were not reported")

    for sig, (i, bad) in list(bads.items())[:3]:
        def pred(cand, _sig=sig):
            try:
                o2 = run_impl([cand], nproc=1)[0]
                b, _ = oracle(cand, o2)
            except Exception:
                return False
            return bool(b) and b[0] == _sig
        small = cases[i]
        if sig not in ("driver-error", "not-quiescent"):
            small = shrink(cases[i], pred)
        o2 = run_impl([small], nproc=1)[0]
        b, _ = oracle(small, o2)
        if not b or b[0] != sig:
            small, b = cases[i], bad
            o2 = run_impl([small], nproc=1)[0]
        keep = {k: o2.get(k) for k in ("snaps", "trace", "ntfs", "outs", "obs", "marks", "reported")}
        keep["twin"] = {k: (o2.get("twin") or {}).get(k) for k in ("snaps", "trace", "ntfs", "outs", "obs", "reported")}
        run.violation(sig, (b or bad)[1], {"case": small, "impl_observation": keep,
                                           "how": "feed [case] as JSON list to harness/c06_impl.py with PYTHONPATH=/repo/src"})

    codes, err = coq_compare(cases, obs)
    ycodes, yerr = ([], None) if err else ycoq_compare(PID, list(zip(cases, obs)))
    if err or yerr:
        run.violation("correspondence-not-evaluable", err or yerr, {}, found_input=False)
        return run.finish()
    n_dis = sum(1 for x in codes if x == 1)
    n_ydis = sum(1 for x in ycodes if x == 1)
    run.cov["traces_validated_against_impl"] = sum(1 for x, y in zip(codes, ycodes) if x == 0 or y == 0)
    run.cov["validated_on_Sim_Reinit_xcase"] = sum(1 for x in codes if x == 0)
    run.cov["validated_on_Sim_Repro_ycase"] = sum(1 for x in ycodes if x == 0)
    run.cov["model_impl_mismatches"] = n_dis + n_ydis
    run.cov["cases_outside_model"] = sum(1 for x, y in zip(codes, ycodes) if x == 2 or y == 2)
    run.cov["cases_compared_impl_vs_impl_only"] = sum(1 for x, y in zip(codes, ycodes) if x >= 2 and y >= 2)
    if n_ydis and not n_dis and not bads:
        i = ycodes.index(1)
        view = ycoq_view(PID, cases[i], obs[i])
        run.violation("model-impl-disagree",
                      "correspondence Sim.Repro.ycase_code (composed model) no longer matches the implementation but no clause "
                      "of the property was found violated by the oracle",
                      {"case": cases[i], "impl_observation": {k: obs[i].get(k) for k in ("snaps", "trace", "ntfs", "outs", "obs", "canc", "dlv", "draws", "reported")},
                       "model_view": view, "relation": "Sim.Repro.ycase_code"},
                      found_input=False)
    if n_dis and not bads:
        i = codes.index(1)
        view = coq_view(cases[i], obs[i])
        run.violation("model-impl-disagree",
                      "correspondence Sim.Reinit.xcase_code no longer matches the implementation but no clause of the property "
                      "was found violated by the oracle",
                      {"case": cases[i], "impl_observation": {k: obs[i].get(k) for k in ("snaps", "trace", "ntfs", "outs", "obs", "canc", "reported")},
                       "model_view": view, "relation": "Sim.Reinit.xcase_code"},
                      found_input=False)
    if not proofs_ok and not run.violations:
        run.violation("proof-broken", f"a {PID} proof obligation no longer checks: " + getattr(run, "proof_log", "")[-800:],
                      {"theorems": run.cov.get("theorems")}, found_input=False)
    return run.finish()


def replay(path: str) -> int:
    """./check C06 --replay <file>: re-run the recorded failing input on the implementation (re-initialised and
    brand-new) and judge it with the model-independent oracle."""
    body = json.loads(Path(path).read_text())
    case = body.get("case")
    if not case or "models" not in case:
        print(f"nothing replayable in {path} (no concrete input was found for this violation: {body.get('what', '')[:200]})")
        return 1 if body.get("property") == PID else 2
    obs = run_impl([case], nproc=1)[0]
    bad, _ = oracle(case, obs)
    if bad:
        print(f"VIOLATION property={PID} replay={path}")
        print(f"  {bad[0]}: {bad[1]}")
        return 1
    print(f"replay passes on this tree: property={PID} input={json.dumps(case)[:300]}")
    return 0


if __name__ == "__main__":
    sys.exit(main(sys.argv[1] if len(sys.argv) > 1 else "quick"))
