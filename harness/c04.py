"""C04 - simulator lifecycle: commands, states and notifications follow the protocol.

Proof part: Sim/Lifecycle*.v (M1: every command list, over Sim/Model.v's own
command semantics) and Sim/Overlap*.v (M2: two-thread transition system, closed
reachable sets), collected in Props/C04.v.

Tie to /repo, on every run:
 (C1) command sequences issued at *strict* quiescence on the real DEVS
      simulators (harness/c04_impl.py): all sequences up to a length over a
      9-command alphabet on a fixed model, plus random long sequences on
      generated models whose handlers issue commands themselves.  Outcome,
      both states, clock, pending count, live run threads and the notifications
      of every command are compared with M1 inside coqc (Lifecycle.lcase_code).
 (C2) forced interleavings: listeners / handlers act as gates that hold the run
      thread (or the command thread) at a chosen point while the overlapping
      command is issued; the quiescent outcome must be one M2 allows for a
      command issued while the run thread is at that point
      (Overlap.overlap_allows).
Oracle (independent of the Coq models): the accept/refuse rules, "refused
changes nothing", a monitor automaton over the implementation's own stream, the
state invariants at quiescence and run-thread accounting - written out below
in Python; it classifies disagreements and is what searches for and shrinks a
failing command sequence.
"""
from __future__ import annotations

import itertools
import json
import random
import subprocess
import sys
import time
from concurrent.futures import ThreadPoolExecutor
from pathlib import Path

sys.path.insert(0, str(Path(__file__).resolve().parent))
import common as C

PID = "C04"
DRIVER = Path(__file__).resolve().parent / "c04_impl.py"
TARGETS = ["Sim/LifecycleProofs.vo", "Sim/LifecycleWarmup.vo", "Sim/OverlapProofs.vo", "Props/C04.vo"]
CLOCKS = ["float", "int", "dur"]
PRIOS = [5, 5, 5, 1, 10, 3, 7]
QUIET_RS = ("NOT_INITIALIZED", "INITIALIZED", "STOPPED", "ENDED")


# ============================================================================ case generation
def unit_of(clock):
    return 4 if clock == "int" else 1


SMALL_PROG = [[["sched", ["now"], 5, 1], ["sched", ["abs", 8], 5, 2], ["sched", ["abs", 8], 7, 2]],
              [["sched", ["rel", 4], 5, 2]], []]


def scale_prog(prog, u):
    out = []
    for body in prog:
        nb = []
        for a in body:
            if a[0] == "sched" and len(a[1]) > 1 and a[1][1] != "nan":
                nb.append(["sched", [a[1][0], a[1][1] * u], a[2], a[3]])
            else:
                nb.append(json.loads(json.dumps(a)))
        out.append(nb)
    return out


def alphabet(u):
    return [["init", 0, 2 * u, 12 * u], ["initbad"], ["start"], ["step"], ["stop"], ["runupto", 6 * u],
            ["runuptoincl", 8 * u], ["endrepl"], ["cleanup"]]


def exhaustive_cases(tier):
    """ALL command sequences up to the length bound over the 9-command alphabet."""
    out = []
    maxlen = 3 if tier == "quick" else 5
    for clock in (["float"] if tier == "quick" else ["float", "int"]):
        u = unit_of(clock)
        prog = scale_prog(SMALL_PROG, u)
        al = alphabet(u)
        top = maxlen if clock == "float" else 4
        for ln in range(1, top + 1):
            for seq in itertools.product(al, repeat=ln):
                out.append({"kind": "seq", "clock": clock, "strategy": "pause", "prog": prog,
                            "cmds": [list(c) for c in seq], "src": "exhaustive"})
    return out


def gen_prog(rng, clock, allow_stop):
    u = unit_of(clock)
    n = rng.randint(2, 5)
    prog = [[] for _ in range(n + 1)]
    for h in range(0, n + 1):
        nacts = rng.randint(1, 4) if h == 0 else rng.randint(0, 2)
        for _ in range(nacts):
            r = rng.random()
            if r < 0.06:
                mode = rng.choice([["rel", -u], ["rel", "nan"], ["abs", -u * rng.randint(1, 4)], ["abs", "nan"]])
                prog[h].append(["sched", mode, rng.choice(PRIOS), rng.randint(1, n)])
            elif r < 0.14:
                prog[h].append(["cancel", rng.randint(0, 6)])
            elif h < n:
                child = rng.randint(h + 1, n)
                m = rng.random()
                if m < 0.2:
                    mode = ["now"]
                elif m < 0.7:
                    mode = ["rel", u * rng.choice([0, 1, 1, 2, 3, 4, 8])]
                else:
                    mode = ["abs", u * rng.randint(0, 40)]
                prog[h].append(["sched", mode, rng.choice(PRIOS), child])
        if h >= 1 and rng.random() < 0.3:
            c = rng.choice([["start"], ["step"], ["runupto", u * rng.randint(0, 40)],
                            ["runuptoincl", u * rng.randint(0, 40)], ["initbad"], ["init", 0, 0, 40 * u],
                            ["start"], ["step"]])
            prog[h].insert(rng.randint(0, len(prog[h])), ["cmd", c])
        if h >= 1 and rng.random() < 0.08:
            prog[h].insert(rng.randint(0, len(prog[h])), ["fail"])
    if allow_stop:
        h = rng.randint(1, n)
        # a command issued after stop() in the same handler falls into the STOPPING window: overlap, not here
        prog[h] = [a for a in prog[h] if a[0] != "cmd"] + [["cmd", ["stop"]]]
    return prog


def gen_repl(rng, clock):
    u = unit_of(clock)
    start = rng.choice([0, 0, 0, 8 * u])
    length = u * rng.randint(2, 40)
    w = rng.random()
    warm = (start if w < 0.15 else start + length if w < 0.25 else
            start + u * rng.randint(0, length // u) if w < 0.85 else start + length + u * rng.randint(0, 3))
    return ["init", start, warm, start + length]


def listener_cmds(rng, u):
    """commands issued from inside listeners, in states where the documented rules refuse them: while the
    run is going on (TIME_CHANGED / WARMUP / START / STARTING), while the replication is ending (STOP with
    the replication ENDING or ENDED) and while END_REPLICATION is delivered"""
    def some_cmd(with_stop):
        cs = [["start"], ["step"], ["runupto", u * rng.randint(0, 44)], ["runuptoincl", u * rng.randint(0, 44)]]
        if with_stop:
            cs += [["stop"], ["endrepl"]]
        return rng.choice(cs)
    pool = [{"ntf": "stop", "when_ps": ["ENDING", "ENDED"], "cmd": some_cmd(True)},
            {"ntf": "endrepl", "when_ps": ["ENDED"], "cmd": some_cmd(True)},
            {"ntf": "time", "when_rs": ["STARTED"], "cmd": some_cmd(False), "max": 2},
            {"ntf": "warmup", "when_rs": ["STARTED"], "cmd": some_cmd(False)},
            {"ntf": "start", "when_rs": ["STARTING", "STARTED"], "cmd": some_cmd(False), "max": 2},
            {"ntf": "starting", "when_rs": ["STARTING"], "cmd": some_cmd(False), "max": 2},
            {"ntf": "startrepl", "when_cmd": list(RUNCMDS), "cmd": some_cmd(False)},
            {"ntf": "stopping", "when_rs": ["STARTING", "STARTED"], "cmd": some_cmd(False), "max": 2}]
    return rng.sample(pool, rng.randint(1, 3))


def gen_random_case(rng, i, allow_stop):
    clock = CLOCKS[i % len(CLOCKS)]
    u = unit_of(clock)
    prog = gen_prog(rng, clock, allow_stop)
    n = rng.randint(4, 22)
    cmds = []
    t = 0
    cur_end = None
    for j in range(n):
        r = rng.random()
        if j == 0 and r < 0.85:
            cmds.append(gen_repl(rng, clock)); t = cmds[-1][1]; cur_end = cmds[-1][3]
            if rng.random() < 0.3:          # a model event exactly at the end of the replication
                prog[0].append(["sched", ["abs", cur_end], rng.choice(PRIOS), rng.randint(1, len(prog) - 1)])
            continue
        if r < 0.10:
            cmds.append(gen_repl(rng, clock)); t = cmds[-1][1]; cur_end = cmds[-1][3]
        elif r < 0.14:
            cmds.append(["initbad"])
        elif r < 0.30:
            cmds.append(["start"])
        elif r < 0.55:
            cmds.append(["step"])
        elif r < 0.62:
            cmds.append(["stop"])
        elif r < 0.86:
            t += u * rng.choice([0, 1, 2, 3, 5, 8])
            tt = "nan" if rng.random() < 0.04 else (t - u * rng.randint(1, 9) if rng.random() < 0.1 else t)
            if cur_end is not None and rng.random() < 0.15:
                tt = cur_end + u * rng.randint(1, 4)          # a bound strictly beyond the replication end
            cmds.append(["runupto" if rng.random() < 0.5 else "runuptoincl", tt])
        elif r < 0.93:
            cmds.append(["endrepl"])
        else:
            cmds.append(["cleanup"])
    case = {"kind": "seq", "clock": clock, "strategy": rng.choice(["pause", "log", "warn"]), "prog": prog,
            "cmds": cmds, "src": "random"}
    if rng.random() < 0.25:
        case["lcmds"] = listener_cmds(rng, u)
    if rng.random() < 0.12:
        # construct_model raises on the k-th initialize that gets that far; make sure more initializes follow
        case["construct_fails"] = [rng.choice([1, 1, 2])]
        for _ in range(rng.randint(1, 2)):
            case["cmds"].insert(rng.randint(1, len(case["cmds"])), gen_repl(rng, clock))
    return case


# ============================================================================ running the implementation
def run_impl(cases, nproc=12, timeout=1200):
    if not cases:
        return []
    nproc = max(1, min(nproc, len(cases)))
    chunks = [cases[i::nproc] for i in range(nproc)]

    def one(chunk):
        p = subprocess.run([C.PY, str(DRIVER)], input=json.dumps(chunk), capture_output=True, text=True,
                           timeout=timeout, env=C.child_env())
        if p.returncode != 0:
            raise RuntimeError("c04_impl failed: " + p.stderr[-2000:])
        return json.loads(p.stdout)
    with ThreadPoolExecutor(max_workers=nproc) as ex:
        outs = list(ex.map(one, chunks))
    res = [None] * len(cases)
    for k, chunk_out in enumerate(outs):
        for j, o in enumerate(chunk_out):
            res[k + j * nproc] = o
    return res


# ============================================================================ the model-independent oracle
def expected_outcome(c, rs, ps, clk, end):
    """the documented accept / refuse rules"""
    running = rs in ("STARTING", "STARTED")
    k = c[0]
    if k == "init":
        return "refused" if running else "ok"
    if k == "initbad":
        return "refused"
    if k in ("start", "step", "runupto", "runuptoincl"):
        # refused only when the clock is BEYOND the end: a run paused exactly at the end can be resumed
        if running or rs == "NOT_INITIALIZED" or ps not in ("INITIALIZED", "STARTED") or clk > end:
            return "refused"
        if k in ("runupto", "runuptoincl") and (c[1] == "nan" or c[1] < clk):
            return "refused"
        return "ok"
    if k == "stop":
        return "ok" if running else "refused"
    if k == "endrepl":
        return "ok" if ps == "STARTED" else "refused"
    return "ok"


class Monitor:
    """the notification stream of one replication, as a subscriber may rely on it"""

    def __init__(self, warm):
        self.warm = warm
        self.sr = self.run = self.starting = self.wu = self.er = False
        self.last = None
        self.count = 0

    def feed(self, nm, ts):
        if self.er:
            return "notification-after-end-replication", f"{nm}@{ts} after END_REPLICATION"
        if self.starting and nm != "start":
            return "starting-not-followed-by-start", f"STARTING followed by {nm}@{ts}"
        if ts is not None:
            if not isinstance(ts, int):
                return "timestamp-not-exact", f"{nm}@{ts}"
            if self.last is not None and ts < self.last:
                return ("time-changed-decreasing" if nm == "time" else "timestamp-decreasing"), f"{self.last} -> {nm}@{ts}"
        if nm == "startrepl":
            if self.sr or self.count:
                return "start-replication-not-once-and-first", f"START_REPLICATION@{ts} after {self.count} notifications"
            self.sr = True
        elif not self.sr:
            return "start-replication-not-once-and-first", f"{nm}@{ts} before START_REPLICATION"
        elif nm == "starting":
            if self.run:
                return "starting-while-started", "STARTING between START and STOP"
            self.starting = True
        elif nm == "start":
            if self.run:
                return "start-stop-not-alternating", "START while started"
            self.run, self.starting = True, False
        elif nm == "stop":
            if not self.run:
                return "start-stop-not-alternating", "STOP while stopped"
            self.run = False
        elif nm == "time":
            if not self.run:
                return "time-changed-outside-run", f"TIME_CHANGED@{ts} outside START..STOP"
        elif nm == "warmup":
            if self.wu:
                return "warmup-more-than-once", f"second WARMUP@{ts}"
            if not self.run:
                return "warmup-outside-run", f"WARMUP@{ts} outside START..STOP"
            if ts != self.warm:
                return "warmup-at-wrong-time", f"WARMUP@{ts}, warm-up time {self.warm}"
            self.wu = True
        elif nm == "stopping":
            if not self.run:
                return "stopping-outside-run", "STOPPING outside START..STOP"
        elif nm == "endrepl":
            if self.run:
                return "end-replication-while-started", "END_REPLICATION between START and STOP"
            self.er = True
        else:
            return "unknown-notification", nm
        if ts is not None:
            self.last = ts
        self.count += 1
        return None

    def quiet(self):
        if self.run:
            return "start-stop-not-alternating", "START without STOP at quiescence"
        if self.starting:
            return "starting-not-followed-by-start", "STARTING without START at quiescence"
        return None


def lost_stop(log):
    """An accepted stop() that returned within its one-second wait returns only once the run thread waits
    again (or has terminated): no model event may be executed after that return until the next command is
    issued.  Returns (command index in the log, number of events executed after the return) or None."""
    armed = None
    n = 0
    slack = 0          # a stop() that gave up after its full second may leave the event in progress to finish
    for i, ent in enumerate(log):
        if ent[0] == "call":                 # the next command is being issued: the window closes
            if armed is not None and n > slack:
                return armed, n
            armed, n = None, 0
        elif ent[0] == "ret":
            armed, n = (i, 0) if (ent[1][0] == "stop" and ent[2] == "ok") else (None, 0)
            slack = 0 if ent[3] < 0.9 else 1
        elif ent[0] == "exec" and armed is not None:
            n += 1
    if armed is not None and n > slack:
        return armed, n
    return None


RUNCMDS = ("start", "runupto", "runuptoincl")
# the (run state, replication state) a listener sees while each notification is delivered - part of the protocol:
# a subscriber may read the states, and the states are what decides whether a command it issues is refused.
# Keyed by notification and by the kind of command of the main thread that is in progress.
VISIBLE = {
    ("startrepl", "run"): ({"STARTING"}, {"INITIALIZED"}),     # start(): STARTING is set before anything is notified
    ("startrepl", "step"): ({"INITIALIZED"}, {"INITIALIZED"}),
    ("starting", "run"): ({"STARTING"}, {"STARTED"}),
    ("start", "run"): ({"STARTING"}, {"STARTED"}),
    ("start", "step"): ({"STARTED"}, {"STARTED"}),
    ("time", "run"): ({"STARTED"}, {"STARTED"}), ("time", "step"): ({"STARTED"}, {"STARTED"}),
    ("warmup", "run"): ({"STARTED"}, {"STARTED"}), ("warmup", "step"): ({"STARTED"}, {"STARTED"}),
    ("stopping", "run"): ({"STARTING", "STARTED"}, {"STARTED"}), ("stopping", "step"): ({"STARTED"}, {"STARTED"}),
    ("stop", "run"): ({"STOPPING"}, {"STARTED", "ENDING"}),
    ("stop", "step"): ({"STARTED", "STOPPING"}, {"STARTED"}),
    ("endrepl", "run"): ({"ENDED"}, {"ENDED"}), ("endrepl", "endrepl"): ({"ENDED"}, {"ENDED"}),
}


def visible_state(ent):
    """None, or what is wrong with the states visible inside this notification"""
    if len(ent) < 7:
        return None
    nm, rs_, ps_, cmd = ent[1], ent[4], ent[5], ent[6]
    kind = "run" if cmd in RUNCMDS else cmd
    want = VISIBLE.get((nm, kind))
    if want is None or (rs_ in want[0] and ps_ in want[1]):
        return None
    return (f"{nm.upper()} delivered during {cmd}() while run state / replication state are {rs_} / {ps_}; "
            f"the protocol prescribes {sorted(want[0])} / {sorted(want[1])} at that point")


QSTATES = {("NOT_INITIALIZED", "NOT_INITIALIZED", 0), ("INITIALIZED", "INITIALIZED", 1),
           ("STOPPED", "STARTED", 1), ("ENDED", "ENDED", 0)}


def check_quiescent(sn, mon, tag=""):
    """state invariants of a quiescent simulator; sn = [res, rs, ps, clk, npend, live, strictly_quiet]"""
    r, rs, ps, clk, npend, live, quiet = sn
    if not quiet:
        return "not-quiescent" + tag, f"run thread still active 4 s after the command ({rs}/{ps})"
    if rs not in QUIET_RS:
        return f"run-state-stuck-{rs}" + tag, f"quiescent simulator reports run state {rs} (replication {ps})"
    if ps == "ENDING":
        return "replication-stuck-ENDING" + tag, f"quiescent simulator reports replication state ENDING (run state {rs})"
    if (rs, ps, live) not in QSTATES:
        if (rs, ps) in {(a, b) for a, b, _ in QSTATES}:
            return ("run-thread-still-alive" if live else "run-thread-missing") + tag, f"{live} live run thread(s) in state {rs}/{ps}"
        return "state-pair-inconsistent" + tag, f"quiescent simulator in state {rs}/{ps}"
    if mon is not None:
        q = mon.quiet()
        if q:
            return q[0] + tag, q[1]
        if mon.er != (ps == "ENDED"):
            return "ended-without-end-replication" + tag, f"replication state {ps}, END_REPLICATION seen: {mon.er}"
        if mon.sr != (ps in ("STARTED", "ENDED")):
            return "start-replication-state-mismatch" + tag, f"replication state {ps}, START_REPLICATION seen: {mon.sr}"
    return None


def oracle(case, obs):
    """first violated clause as (signature, description) or None; plus facts about the case"""
    facts = {"refusal": False, "reinit": False, "ended": False, "inner_cmd": False, "listener_cmd": False, "aborted_init": False,
             "cleanup": False,
             "resumed": False, "executed": 0, "accepted": 0}
    if "error" in obs:
        return ("driver-error", obs["error"]), facts
    ls = lost_stop(obs["log"])
    if ls:
        return ("accepted-stop-lost", f"stop() was accepted and returned, yet {ls[1]} more event(s) were executed afterwards: "
                                      "the simulator kept running"), facts
    rs, ps, clk, npend, live = "NOT_INITIALIZED", "NOT_INITIALIZED", 0, 0, 0
    end = 0
    mon = None
    seg = []                    # notifications since the last command returned
    pending_tc = None
    n_init = 0
    max_t = None                # latest event / time-changed time of this replication
    starts = 0
    prev_quiet = True
    ended_incl = None
    fails = set(case.get("construct_fails", []))
    n_init_try = 0              # initialize calls that got as far as construct_model
    aborted_worker = False
    for ent in obs["log"]:
        kind = ent[0]
        if kind == "ntf":
            nm, ts = ent[1], ent[2]
            seg.append([nm, ts])
            if mon is None:
                return ("notification-outside-replication", f"{nm}@{ts} without an initialized replication"), facts
            if pending_tc is not None and not (nm == "warmup" and ts == pending_tc) and nm != "stopping":
                # (STOPPING comes from the thread that calls stop() and may fall anywhere)
                return ("time-changed-without-event", f"TIME_CHANGED@{pending_tc} followed by {nm}@{ts}, not by the event"), facts
            if nm == "warmup":
                pending_tc = None
            bad = mon.feed(nm, ts)
            if bad:
                return bad, facts
            vs = None if case.get("rapid") else visible_state(ent)
            if vs:
                return ("state-visible-in-notification-wrong", vs), facts
            if nm == "time":
                pending_tc = ts
                max_t = ts if max_t is None else max(max_t, ts)
        elif kind == "exec":
            t = ent[2]
            if pending_tc is not None:
                if t != pending_tc:
                    return ("time-changed-differs-from-event-time", f"TIME_CHANGED@{pending_tc}, next event ran at {t}"), facts
                pending_tc = None
            if mon is not None and not mon.run:
                return ("event-executed-outside-run", f"event {ent[1]} executed at {t} outside START..STOP"), facts
            if mon is not None and mon.warm is not None and t > mon.warm >= mon.start and not mon.wu:
                return ("warmup-missed", f"event executed at {t} after the warm-up time {mon.warm} without WARMUP"), facts
            facts["executed"] += 1
        elif kind == "icmd":
            facts["inner_cmd"] = True
            c, r, before, after = ent[1], ent[2], ent[3], ent[4]
            if r not in ("ok", "refused"):
                return ("command-raises-unrelated-error", f"{c} from a handler in state {before[0]}/{before[1]} -> {r}"), facts
            exp = expected_outcome(c, before[0], before[1], before[2], end)
            if r != exp:
                return ("accept-refuse-rule-violated", f"{c} from a handler in state {before[0]}/{before[1]}: {r}, documented rule says {exp}"), facts
            if r == "refused" and before != after:
                return ("refused-command-changed-state", f"{c} from a handler: {before} -> {after}"), facts
        elif kind == "lcmd":
            facts["listener_cmd"] = True
            c, r, before, after, where = ent[1], ent[2], ent[3], ent[4], ent[5]
            if r not in ("ok", "refused"):
                return ("command-raises-unrelated-error", f"{c} from a {where} listener in state {before[0]}/{before[1]} -> {r}"), facts
            exp = expected_outcome(c, before[0], before[1], before[2], end)
            if r != exp:
                return ("accept-refuse-rule-violated", f"{c} from a {where} listener in state {before[0]}/{before[1]} clock {before[2]} "
                                                       f"end {end}: {r}, documented rule says {exp}"), facts
            if r == "refused" and before != after:
                return ("refused-command-changed-state", f"{c} from a {where} listener: {before} -> {after}"), facts
        elif kind == "pmin":
            if ended_incl is not None and ent[1] is not None and ent[1] <= end:
                return ("event-at-end-not-executed", f"{ended_incl} ended the replication at {end} although an event at time {ent[1]} "
                                                     "was still pending (a run capped at the replication end includes the end time)"), facts
            ended_incl = None
        elif kind == "cmd":
            c, sn = ent[1], ent[2:]
            r, rs2, ps2, clk2, np2, live2, quiet = sn
            if c[0] == "init":
                n_init_try += 1 if expected_outcome(c, rs, ps, clk, end) == "ok" else 0
            if (c[0] == "init" and r == "exc:RuntimeError" and n_init_try in fails
                    and expected_outcome(c, rs, ps, clk, end) == "ok"):
                # initialize aborted by the model: construct_model raised after the simulator had terminated the
                # previous run thread and created the new one.  The simulator stays NOT_INITIALIZED and holds the new
                # (waiting) run thread until the next initialize / cleanup; nothing has been notified.
                facts["aborted_init"] = True
                if seg:
                    return ("initialize-notified", f"aborted initialize notified {seg[:3]}"), facts
                if (rs2, ps2, live2) != ("NOT_INITIALIZED", "NOT_INITIALIZED", 1) or not quiet:
                    return ("aborted-initialize-wrong-state", f"{c} aborted by construct_model: state {rs2}/{ps2}, "
                                                              f"{live2} live run thread(s), quiescent {quiet} (previous state {rs}/{ps})"), facts
                mon = None
                aborted_worker = True
                end = c[3]
                rs, ps, clk, npend, live = rs2, ps2, clk2, np2, live2
                prev_quiet, seg = True, []
                continue
            if r not in ("ok", "refused"):
                return ("command-raises-unrelated-error", f"{c} in state {rs}/{ps} -> {r}"), facts
            exp = expected_outcome(c, rs, ps, clk, end)
            if r != exp:
                return ("accept-refuse-rule-violated", f"{c} in state {rs}/{ps} clock {clk} end {end}: {r}, documented rule says {exp}"), facts
            if r == "refused":
                facts["refusal"] = True
                if prev_quiet and (rs2, ps2, clk2, np2, live2) != (rs, ps, clk, npend, live):
                    return ("refused-command-changed-state", f"{c}: ({rs},{ps},{clk},{npend},{live}) -> ({rs2},{ps2},{clk2},{np2},{live2})"), facts
                if seg and prev_quiet:
                    return ("refused-command-notified", f"{c}: {seg[:3]}"), facts
            else:
                facts["accepted"] += 1
            if pending_tc is not None and quiet is not None:
                return ("time-changed-without-event", f"TIME_CHANGED@{pending_tc} not followed by an event"), facts
            if c[0] == "init" and r == "ok":
                n_init += 1
                facts["reinit"] = facts["reinit"] or n_init > 1
                end = c[3]
                if seg:
                    return ("initialize-notified", f"{seg[:3]}"), facts
                mon = Monitor(c[2])
                mon.start = c[1]
                max_t = None
                starts = 0
                if (rs2, ps2, clk2) != ("INITIALIZED", "INITIALIZED", c[1]):
                    return ("initialize-wrong-state", f"{c}: {rs2}/{ps2} clock {clk2}"), facts
            if c[0] == "cleanup":
                facts["cleanup"] = True
                mon = None
                if (rs2, ps2) != ("NOT_INITIALIZED", "NOT_INITIALIZED"):
                    return ("cleanup-wrong-state", f"{rs2}/{ps2}"), facts
            if c[0] in ("start", "runupto", "runuptoincl") and r == "ok":
                starts += 1
                facts["resumed"] = facts["resumed"] or starts > 1
                if ["starting", None] not in seg:
                    return ("accepted-start-not-announced", f"{c} accepted without a STARTING notification"), facts
            if clk2 < clk and c[0] != "init":
                return ("clock-went-backwards", f"{c}: clock {clk} -> {clk2}"), facts
            if r == "ok" and c[0] in ("init", "cleanup"):
                aborted_worker = False
            sn_q = sn
            if aborted_worker and (rs2, ps2, live2) == ("NOT_INITIALIZED", "NOT_INITIALIZED", 1):
                sn_q = sn[:5] + [0] + sn[6:]        # the run thread of the aborted initialize is still held: expected
            bad = check_quiescent(sn_q, mon) if quiet is not None else None
            if bad:
                return (bad[0], f"after {c}: {bad[1]}"), facts
            if ps2 == "ENDED":
                facts["ended"] = True
                if ps != "ENDED" and r == "ok" and c[0] in ("start", "runupto", "runuptoincl") and quiet:
                    # the replication was ended by a run (not by end_replication, which discards what is pending);
                    # the run includes the end time unless it was an exclusive bound exactly at the end
                    incl_end = c[0] == "start" or (c[0] == "runuptoincl" and c[1] >= end) or (c[0] == "runupto" and c[1] > end)
                    if incl_end:
                        ended_incl = c
                    if mon is not None and not mon.wu and mon.start <= mon.warm and (mon.warm < end or (mon.warm == end and incl_end)):
                        return ("warmup-missed", f"{c} ran the replication to its end {end}, past the warm-up time {mon.warm}, "
                                                 "yet WARMUP was never notified"), facts
            rs, ps, clk, npend, live = rs2, ps2, clk2, np2, live2
            prev_quiet = quiet is not None
            seg = []
    if obs.get("alive", 0) != (1 if (ps in ("INITIALIZED", "STARTED") or aborted_worker) else 0):
        return ("run-thread-still-alive" if obs.get("alive") else "run-thread-missing",
                f"{obs.get('alive')} live run thread(s) at the end in state {rs}/{ps}"), facts
    if obs.get("leaked"):
        return ("run-thread-leaked", f"{obs['leaked']} run thread(s) created by this history are still alive after the final cleanup()"), facts
    if obs.get("notes"):
        return ("harness-note", "; ".join(obs["notes"])), facts
    return None, facts


# ============================================================================ Coq emission (M1)
RS = {"NOT_INITIALIZED": "RNotInit", "INITIALIZED": "RInit", "STARTING": "RStarting", "STARTED": "RStarted",
      "STOPPING": "RStopping", "STOPPED": "RStopped", "ENDED": "REnded"}
PS = {"NOT_INITIALIZED": "PNotInit", "INITIALIZED": "PInit", "STARTED": "PStarted", "ENDING": "PEnding",
      "ENDED": "PEnded"}
STRAT = {"pause": "SWarnPause", "log": "SLog", "warn": "SWarnCont"}
NTF = {"startrepl": "NStartRepl", "start": "NStart", "time": "NTime", "warmup": "NWarmup", "stop": "NStop",
       "endrepl": "NEndRepl"}


def c_tmv(t):
    return "TNaN" if t == "nan" else f"(TNum {C.cz(t)})"


def c_cmd(c):
    k = c[0]
    if k == "init":
        return f"(CInit (mkRepl {C.cz(c[1])} {C.cz(c[2])} {C.cz(c[3])}))"
    if k == "runupto":
        return f"(CRunUpTo {c_tmv(c[1])})"
    if k == "runuptoincl":
        return f"(CRunUpToIncl {c_tmv(c[1])})"
    return {"initbad": "CInitBad", "start": "CStart", "step": "CStep", "stop": "CStop", "endrepl": "CEndRepl",
            "cleanup": "CCleanup"}[k]


def c_action(a):
    k = a[0]
    if k == "sched":
        m = a[1]
        mode = "MNow" if m[0] == "now" else (f"(MRel {c_tmv(m[1])})" if m[0] == "rel" else f"(MAbs {c_tmv(m[1])})")
        return f"ASched {mode} {C.cz(a[2])} {C.cnat(a[3])}"
    if k == "cancel":
        return f"ACancel {C.cnat(a[1])}"
    if k == "fail":
        return "AFail"
    if k == "cmd":
        return f"ACmd {c_cmd(a[1])}"
    raise ValueError(a)


def c_ntf(nm, t):
    if nm == "starting":
        return "NStarting"
    if nm == "stopping":
        return "NStopping"
    return f"{NTF[nm]} {C.cz(t)}"


def per_command_obs(obs):
    """[(snapshot, notifications during the command)] from the chronological log"""
    out, seg = [], []
    for ent in obs["log"]:
        if ent[0] == "ntf":
            seg.append((ent[1], ent[2]))
        elif ent[0] == "cmd":
            out.append((ent[2:], seg))
            seg = []
    return out


def c_res(sn, is_init):
    """the third outcome: an initialize aborted by an exception of the model's construct_model"""
    if sn[0] == "ok":
        return "ResOk"
    if sn[0] == "refused":
        return "ResRefused"
    if is_init and sn[0] == "exc:RuntimeError":
        return "ResRaised"
    return None


def representable(obs, cmds=None):
    if "error" in obs:
        return "driver error: " + obs["error"]
    for j, (sn, seg) in enumerate(per_command_obs(obs)):
        if c_res(sn, bool(cmds) and j < len(cmds) and cmds[j][0] == "init") is None:
            return f"command outcome {sn[0]}"
        if sn[1] not in RS or sn[2] not in PS or not isinstance(sn[3], int):
            return f"snapshot {sn}"
        for nm, t in seg:
            if nm in NTF and not isinstance(t, int):
                return f"notification {nm} timestamp {t}"
            if nm not in NTF and nm not in ("starting", "stopping"):
                return f"notification {nm}"
    return None


def c_lcase(case, obs):
    prog = C.clist(C.clist(c_action(a) for a in body) for body in case["prog"])
    cmds = C.clist(c_cmd(c) for c in case["cmds"])
    snaps = C.clist(
        f"mkLsnap {c_res(sn, case['cmds'][j][0] == 'init')} {RS[sn[1]]} {PS[sn[2]]} {C.cz(sn[3])} {C.cnat(sn[4])} "
        f"{C.cnat(sn[5])} {C.clist(c_ntf(nm, t) for nm, t in seg)}"
        for j, (sn, seg) in enumerate(per_command_obs(obs)))
    fails = C.clist(C.cnat(k) for k in sorted(case.get("construct_fails", [])))
    return f"(mkLcase {STRAT[case['strategy']]} {prog} {cmds} {fails} {snaps})"


def coq_compare(scratch, cases, obs, shard=400):
    """codes[i]: 0 agree, 1 model and implementation differ, 2 outside the model, 3 they agree but the
    Coq-side table/monitor rejects the observed history, 4 not representable"""
    codes = [0] * len(cases)
    idxs = []
    for i, o in enumerate(obs):
        if cases[i].get("rapid"):
            codes[i] = 5          # commands not issued at quiescence: outside M1, judged by the oracle only
        elif representable(o, cases[i]["cmds"]) is None:
            idxs.append(i)
        else:
            codes[i] = 4
    groups = [idxs[s:s + shard] for s in range(0, len(idxs), shard)]
    files = []
    for g, grp in enumerate(groups):
        f = scratch / f"cases_c04_{g}.v"
        lines = ["From Coq Require Import ZArith List.", "From PV Require Import Sim.Model Sim.Lifecycle.",
                 "Import ListNotations.", "Definition cases : list lcase := ["]
        lines.append(";\n".join(c_lcase(cases[i], obs[i]) for i in grp))
        lines.append("].")
        for want in (1, 2, 3):
            lines.append(f"Eval vm_compute in (lcodes_from 0 {want} cases).")
        f.write_text("\n".join(lines) + "\n")
        files.append(f)
    results = C.coqc_many(files)
    for g, (rc, out) in enumerate(results):
        lists = C.parse_nat_lists(out)
        if rc != 0 or len(lists) != 3:
            return codes, f"coqc failed on {files[g].name}: {out[-800:]}"
        for want, lst in zip((1, 2, 3), lists):
            for j in lst:
                codes[groups[g][j]] = want
    return codes, None


def coq_view(case, obs):
    d = C.SCRATCH / (PID + "_view")
    d.mkdir(parents=True, exist_ok=True)
    f = d / "view.v"
    f.write_text("From Coq Require Import ZArith List.\nFrom PV Require Import Sim.Model Sim.Lifecycle.\n"
                 "Import ListNotations.\n"
                 f"Definition c : lcase := {c_lcase(case, obs)}.\n"
                 "Eval vm_compute in (lcase_code c).\nEval vm_compute in (lcase_view c).\n")
    rc, out = C.coqc_file(f)
    return out[-5000:]


# ============================================================================ shrinking
def shrink_seq(case, pred):
    cur = json.loads(json.dumps(case))
    changed = True
    budget = 60
    while changed and budget > 0:
        changed = False
        for i in range(len(cur["cmds"])):
            cand = json.loads(json.dumps(cur))
            del cand["cmds"][i]
            budget -= 1
            if cand["cmds"] and pred(cand):
                cur, changed = cand, True
                break
        if changed:
            continue
        for i in range(len(cur.get("lcmds", []))):
            cand = json.loads(json.dumps(cur))
            del cand["lcmds"][i]
            budget -= 1
            if pred(cand):
                cur, changed = cand, True
                break
        if changed:
            continue
        for h in range(len(cur["prog"])):
            for i in range(len(cur["prog"][h])):
                cand = json.loads(json.dumps(cur))
                del cand["prog"][h][i]
                budget -= 1
                if pred(cand):
                    cur, changed = cand, True
                    break
            if changed:
                break
    return cur


# ============================================================================ C2: forced interleavings
SLOW_START_SIG = "overlap:stop-after-start-gave-up:accepted-stop-lost"


def overlap_scenarios(tier, known=()):
    """Each scenario: a model, a run command, gates, the overlapping command, and the point of the run
    thread's loop (M2's wpc) the run thread is held at.  Times in quarter units (float clock)."""
    one_event = [[["sched", ["abs", 4], 5, 1]], []]                       # one event at t = 1
    two_events = [[["sched", ["abs", 4], 5, 1], ["sched", ["abs", 12], 5, 1]], []]
    init = ["init", 0, 0, 16]
    S = []

    def add(name, prog, runcmd, gates, cmd, wpc, after=None, m2=True, slow=False, race=None):
        S.append({"kind": "overlap", "name": name, "race": race or name, "clock": "float", "strategy": "pause", "prog": prog,
                  "setup": [init], "runcmd": runcmd, "gates": gates, "hold_gate": 0, "cmd": cmd, "wpc": wpc,
                  "after": after or [], "m2": m2, "slow": slow})

    hold_exec = {"at": ["exec", 0, 1], "thread": "worker"}
    hold_stop = {"at": ["ntf", "stop", 1], "thread": "worker"}
    hold_end = {"at": ["ntf", "endrepl", 1], "thread": "worker"}
    # --- the two races named in the property
    add("stop-vs-natural-end", one_event, ["start"],
        [dict(hold_exec, until=["reached", 1]), {"at": ["ntf", "stopping", 1], "thread": "main", "until": ["wdead"]}],
        ["stop"], "WExec")
    # (the wake-up flag stays set during a run, so the run thread is released shortly after start() has written
    #  STARTING: by then start() has fired STARTING, called wakeup() and sits in its wait for _runflag)
    add("start-during-stopping", two_events, ["runupto", 8],
        [dict(hold_stop, until=["rs", "STARTING"], delay=0.03)], ["start"], "WSetStopped", slow=True)
    # --- a command while an event handler runs
    add("stop-in-handler-window", two_events, ["start"], [dict(hold_exec, until=["rs", "STOPPING"])], ["stop"], "WExec")
    add("start-while-running", two_events, ["start"], [dict(hold_exec, until=["main_returned"])], ["start"], "WExec")
    add("step-while-running", two_events, ["start"], [dict(hold_exec, until=["main_returned"])], ["step"], "WExec")
    add("end-replication-while-running", two_events, ["start"], [dict(hold_exec, until=["main_returned"])], ["endrepl"], "WExec")
    add("cleanup-while-running", two_events, ["start"], [dict(hold_exec, until=["rs", "STOPPING"])], ["cleanup"], "WExec")
    # --- stop() as soon as start() has returned, with a slow START subscriber (0.2 s): start() must not return
    #     before the run thread has written STARTED, or the accepted stop is overwritten and lost
    S.append({"kind": "overlap", "name": "stop-right-after-start", "race": "stop-right-after-start", "clock": "float",
              "strategy": "pause", "prog": [[["sched", ["abs", 1], 5, 1]], [["sched", ["rel", 1], 5, 1]]],
              "slow_handler_ms": 1, "setup": [["init", 0, 0, 4000000]], "runcmd": ["start"],
              "gates": [{"at": ["ntf", "start", 1], "thread": "worker", "until": ["rs", "STOPPING"], "timeout": 0.2}],
              "hold_gate": 0, "cmd": ["stop"], "wpc": "WSetStarted", "after": [], "m2": True, "slow": False,
              "strict": True})
    # --- a command in the STOPPING window of a bounded run (STOP notified, STOPPED not yet written)
    add("stop-during-stopping", two_events, ["runupto", 8], [dict(hold_stop, until=["main_returned"])], ["stop"], "WSetStopped")
    add("step-during-stopping", two_events, ["runupto", 8], [dict(hold_stop, until=["main_returned"])], ["step"], "WSetStopped")
    add("end-replication-during-stopping", two_events, ["runupto", 8], [dict(hold_stop, until=["main_returned"])], ["endrepl"], "WSetStopped")
    # cleanup() / initialize() while a slow STOP subscriber (0.4 s) keeps the run thread between STOPPING and STOPPED:
    # cleanup must wait for the run thread (its _stop_impl does, for up to a second) before it resets the states,
    # or the old run thread writes STOPPED over NOT_INITIALIZED / INITIALIZED afterwards
    add("cleanup-during-stopping", two_events, ["runupto", 8], [dict(hold_stop, until=["never"], timeout=0.4)],
        ["cleanup"], "WSetStopped")
    S[-1]["strict"] = True
    add("initialize-during-stopping", two_events, ["runupto", 8], [dict(hold_stop, until=["never"], timeout=0.4)],
        ["init", 0, 0, 16], "WSetStopped", m2=False)
    # --- a command while END_REPLICATION is being notified (states already ENDED, thread not yet finalized)
    for c in (["start"], ["step"], ["stop"], ["endrepl"], ["cleanup"]):
        add(f"{c[0]}-during-end-replication", one_event, ["start"],
            [dict(hold_end, until=["or", ["rs", "STOPPING"], ["main_returned"]])], c, "WSetFinal")
    # --- a command issued from a handler after its own stop(): initialize in the STOPPING window (not in M2)
    S.append({"kind": "seq", "name": "initialize-from-handler-after-stop", "race": "initialize-from-handler-after-stop", "clock": "float", "strategy": "pause",
              "prog": [[["sched", ["abs", 4], 5, 1]], [["cmd", ["stop"]], ["cmd", ["init", 0, 0, 40]]]],
              "cmds": [init, ["start"]], "setup": [], "cmd": ["init", 0, 0, 40], "wpc": "handler, after its own stop()",
              "m2": False, "slow": True})
    # --- a command while the run thread is inside its own cleanup(): under WARN_AND_END a failing handler makes the
    #     run thread call cleanup() -> _stop_impl(), which waits its full second for the worker (itself); meanwhile
    #     run state STOPPING counts as stopped and the replication is still STARTED.  Not in M2: oracle only.
    for c in ((["init", 0, 0, 16], ["start"], ["cleanup"], ["stop"]) if tier != "quick" else (["init", 0, 0, 16],)):
        S.append({"kind": "overlap", "name": f"warn-and-end-window-{c[0]}", "race": f"warn-and-end-window-{c[0]}",
                  "clock": "float", "strategy": "end", "prog": [[["sched", ["abs", 4], 5, 1], ["sched", ["abs", 8], 5, 2]], [["fail"]], []],
                  "setup": [init], "runcmd": ["start"], "gates": [{"at": ["exec", 0, 1], "until": ["never"], "timeout": 0.0}],
                  "hold_gate": 0, "issue_when": ["rs", "STOPPING"], "issue_delay": 0.25, "cmd": c,
                  "wpc": "run thread waiting inside its own cleanup()", "after": [], "m2": False, "slow": True,
                  "detached": True})
    if tier != "quick" and SLOW_START_SIG in known:
        # a START subscriber that blocks for longer than the second start() waits: start() gives up and returns
        # in state STARTING, a stop() issued then is accepted and lost (Overlap: start_handshake_loose_refuted).
        # Only run once the finding is registered (it is a consequence of the one-second give-up, on HEAD too).
        S.append({"kind": "overlap", "name": "stop-after-start-gave-up", "race": "stop-after-start-gave-up", "clock": "float",
                  "strategy": "pause", "prog": [[["sched", ["abs", 1], 5, 1]], [["sched", ["rel", 1], 5, 1]]],
                  "slow_handler_ms": 1, "setup": [["init", 0, 0, 4000000]], "runcmd": ["start"],
                  "gates": [{"at": ["ntf", "start", 1], "thread": "worker", "until": ["rs", "STOPPING"], "timeout": 1.3}],
                  "hold_gate": 0, "cmd": ["stop"], "wpc": "WSetStarted", "after": [], "m2": True, "slow": True})
    if tier != "quick":
        add("start-during-stopping-after-handler-stop", [[["sched", ["abs", 4], 5, 1], ["sched", ["abs", 12], 5, 2]], [["cmd", ["stop"]]], []],
            ["start"], [dict(hold_stop, until=["rs", "STARTING"], delay=0.03)], ["start"], "WSetStopped", slow=True,
            race="start-during-stopping")
    return S


def overlap_oracle(sc, obs):
    """model-independent: the quiescent outcome of the overlap must satisfy the state invariants, the
    stream must be well-formed, the command must end in ok / refused"""
    if "error" in obs:
        return "driver-error", obs["error"]
    name = sc["race"]
    if sc["kind"] == "seq":
        bad, _ = oracle(sc, obs)
        return (f"overlap:{name}:{bad[0]}", bad[1]) if bad else None
    if sc["m2"] and not obs.get("hold_reached"):
        return f"overlap:{name}:gate-not-reached", "the run thread never arrived at the rendezvous point"
    sn = obs["snaps"][len(sc["setup"])]
    if sn[0] not in ("ok", "refused"):
        return f"overlap:{name}:command-raises-unrelated-error", f"{sc['cmd']} -> {sn[0]}"
    ls = lost_stop(obs["log"])
    if ls:
        return (f"overlap:{name}:accepted-stop-lost",
                f"stop() was accepted (run state {obs.get('at_issue', ['?'])[0]} when issued) and returned, yet {ls[1]} more "
                f"event(s) were executed afterwards; run state afterwards {sn[1]}, clock {sn[3]}: the simulator kept running")
    mon = Monitor(0)
    mon.start = 0
    detached = False
    for ent in obs["log"]:
        if ent[0] == "exec" and sc.get("detached"):
            detached = True         # the failing handler's cleanup() drops the listeners: the stream is cut there
        if ent[0] == "ntf" and not detached:
            bad = mon.feed(ent[1], ent[2])
            if bad:
                return f"overlap:{name}:{bad[0]}", bad[1]
        if ent[0] == "cmd" and ent[1][0] == "cleanup":
            detached = True
        if ent[0] == "overlap-begin" and sc["cmd"][0] in ("cleanup", "init"):
            detached = True
        if ent[0] == "icmd" and ent[1][0] == "init" and ent[2] == "ok":
            detached = True
    bad = check_quiescent(sn, None if detached else mon)
    if bad:
        return f"overlap:{name}:{bad[0]}", bad[1]
    return None


def overlap_view(sc, obs):
    """what M2 can see of the quiescent outcome: Coq term of type oview"""
    sn = obs["snaps"][len(sc["setup"])]
    mon = Monitor(0)
    mon.start = 0
    flags = "None"
    ok = True
    for ent in obs["log"]:
        if ent[0] == "ntf" and ok:
            if mon.feed(ent[1], ent[2]):
                ok = False
        if ent[0] == "overlap-begin" and sc["cmd"][0] == "cleanup":
            break
    if ok:
        flags = f"(Some ({C.cbool(mon.sr)}, {C.cbool(mon.run)}, {C.cbool(mon.starting)}, {C.cbool(mon.er)}))"
    return f"(mkOview {RS[sn[1]]} {PS[sn[2]]} {C.cbool(sn[5] > 0)} {flags})"


OCMD = {"start": "OStart", "runupto": "OStart", "runuptoincl": "OStart", "step": "OStep", "stop": "OStop",
        "endrepl": "OEndRepl", "cleanup": "OCleanup"}


def coq_overlap(scratch, scs, obs):
    """for every scenario in M2's scope: is the observed quiescent outcome one M2 allows for the command
    issued while the run thread is held at that point with that shared state?"""
    rows = []
    idx = []
    for i, (sc, o) in enumerate(zip(scs, obs)):
        if not sc["m2"] or "error" in o or not o.get("hold_reached") or not o.get("held_state"):
            continue
        hs = o["held_state"]
        if not o["snaps"][len(sc["setup"])][6]:
            continue            # never became quiescent (left to the oracle): nothing to compare with M2's quiescent states
        ai = o.get("at_issue") or [hs[0], hs[1], True]
        if hs[0] not in RS or hs[1] not in PS or ai[0] not in RS or ai[1] not in PS:
            continue
        # still held when the command was issued: the run thread's pc is known; otherwise only the shared state is
        where, r_, p_ = (f"(Some {sc['wpc']})", hs[0], hs[1]) if ai[2] else ("None", ai[0], ai[1])
        # "strict" scenarios hold no thread for a second or more, so no wait of the command thread may give up early
        loose, tab = ("false", "T_any") if sc.get("strict") else ("true", "T_any_loose")
        rows.append(f"overlap_allows_gen {loose} {tab} {where} {RS[r_]} {PS[p_]} {OCMD[sc['cmd'][0]]} {overlap_view(sc, o)}")
        idx.append(i)
    if not rows:
        return {}, None
    f = scratch / "overlap_c04.v"
    f.write_text("From Coq Require Import ZArith List Bool.\n"
                 "From PV Require Import Sim.Model Sim.Lifecycle Sim.Overlap Sim.OverlapProofs.\nImport ListNotations.\n"
                 "Definition TL := T_any_loose.\n"
                 "Definition rows : list bool := [" + ";\n".join(rows) + "].\n"
                 "Fixpoint falses (i : nat) (l : list bool) : list nat := match l with [] => [] | b :: r => "
                 "if b then falses (S i) r else i :: falses (S i) r end.\n"
                 "Eval vm_compute in (falses 0 rows).\n"
                 "Eval vm_compute in (length (states TL)).\n")
    rc, out = C.coqc_file(f)
    lst = C.parse_nat_list(out)
    if rc != 0 or lst is None:
        return {}, f"coqc failed on {f.name}: {out[-800:]}"
    import re as _re
    msz = _re.findall(r"=\s*(\d+)\s*:\s*nat", out)
    coq_overlap.m2_states = int(msz[-1]) if msz else 0
    return {idx[j]: (j not in lst) for j in range(len(idx))}, None


def rapid_alternation_case(n):
    """start / stop in quick succession on a model that never runs out of events"""
    prog = [[["sched", ["abs", 1], 5, 1]], [["sched", ["rel", 1], 5, 1]]]
    cmds = [["init", 0, 0, 4000000]]
    for _ in range(n):
        cmds += [["start"], ["stop"]]
    return {"kind": "seq", "clock": "float", "strategy": "pause", "prog": prog, "cmds": cmds, "src": "alternation",
            "rapid": True}


def rapid_bounded_case(n):
    """bounded runs that stop by themselves, each followed at once by start() and an immediate stop();
    every handler takes 1 ms, so the clock moves about one quarter unit per millisecond"""
    prog = [[["sched", ["abs", 1], 5, 1]], [["sched", ["rel", 1], 5, 1]]]
    cmds = [["init", 0, 0, 4000000]]
    t = 0
    for _ in range(n):
        t += 60
        cmds += [["runupto", t - 52], ["start"], ["stop"]]
    return {"kind": "seq", "clock": "float", "strategy": "pause", "prog": prog, "cmds": cmds, "src": "alternation",
            "rapid": True, "slow_handler_ms": 1}


# ============================================================================ main
RULE = ("(C1) ALL command sequences of length <= 3 (quick) / <= 5 (thorough) over the alphabet {initialize, invalid initialize, "
        "start, step, stop, run_up_to, run_up_to_including, end_replication, cleanup} on a fixed model, plus random sequences "
        "(length 4-22, re-initialisation, NaN / past bounds) on generated models whose handlers schedule, cancel, fail and issue "
        "commands themselves (incl. stop() on the run thread), on int / float / Duration clocks, every command issued at strict "
        "quiescence; (C2) forced interleavings of one command with the run thread held in a handler / a STOP listener / an "
        "END_REPLICATION listener.  non-trivial = distinct sequence with >= 2 accepted commands, >= 1 executed event and at "
        "least one of: a refused command, re-initialisation, reaching ENDED, a command issued from a handler, cleanup, a resumed run")


def main(tier: str) -> int:
    run = C.Run(PID, tier)
    # second tie: simulator.py of the tree under test translated to Gallina and proved equal to Sim/Model.v (harness/simtr.py)
    import simtr as T
    tree = T.prepare(run)
    if tree is None:
        return run.finish()
    proofs_ok = T.check_proofs(run, tree, TARGETS, extra_tb=[
        "M1 is proved over Sim/Model.v's command semantics (worker thread executed synchronously, commands observed at strict quiescence); "
        "times are exact dyadic numbers",
        "M2 (Sim/Overlap.v) abstracts CPython's preemption to the listed shared reads/writes of _run_state, _replication_state, the wake-up "
        "Event, _runflag, _finalized; the implementation is tied to M2 by sampled forced interleavings (gates in listeners/handlers), "
        "not by proof; CPython threading trusted",
        "the one-second waits are modelled as give-up transitions (strict: only when the run thread is blocked; loose: any time)",
    ])
    rng = random.Random(run.seed * 104729 + 4)
    scratch = C.scratch_dir(PID)
    t0 = time.time()

    # ---------------- C1 cases
    cases = []
    corpus = C.VERIF / "corpus" / f"{PID}.json"
    if corpus.exists():
        cases += [dict(c, src="corpus") for c in json.loads(corpus.read_text())]
    n_rand = 700 if tier == "quick" else 8000
    n_stop = 8 if tier == "quick" else 60           # stop() on the run thread costs 1 s wall each
    for i in range(n_rand):
        cases.append(gen_random_case(rng, i, allow_stop=(i < n_stop)))
    cases.append(rapid_alternation_case(15 if tier == "quick" else 100))
    cases.append(rapid_bounded_case(3 if tier == "quick" else 12))
    cases += exhaustive_cases(tier)
    scs = [s for s in overlap_scenarios(tier, {k.get("signature") for k in run._known})]
    try:
        # slow cases first so that the 1 s waits overlap
        order = sorted(range(len(cases)), key=lambda i: 0 if any(a[0] == "cmd" and a[1][0] == "stop" for b in cases[i]["prog"] for a in b) else 1)
        with ThreadPoolExecutor(max_workers=2) as ex:
            f_over = ex.submit(run_impl, scs, len(scs))
            f_seq = ex.submit(run_impl, [cases[i] for i in order], 14)
            sobs, oo = f_over.result(), f_seq.result()
        obs = [None] * len(cases)
        for k, i in enumerate(order):
            obs[i] = oo[k]
    except Exception as exc:  # noqa
        run.violation("harness-cannot-run-implementation", f"{type(exc).__name__}: {exc}"[:600], {}, found_input=False)
        return run.finish()
    t_impl = time.time() - t0

    # ---------------- oracle on C1
    nontriv = set()
    hist = {}
    bad_by_sig = {}
    for i, (c, o) in enumerate(zip(cases, obs)):
        bad, facts = oracle(c, o)
        for k, v in facts.items():
            if v is True:
                hist[k] = hist.get(k, 0) + 1
        if facts["accepted"] >= 2 and facts["executed"] >= 1 and any(v is True for v in facts.values()):
            nontriv.add(json.dumps([c["prog"], c["cmds"], c["clock"], c["strategy"]]))
        if bad and bad[0] not in bad_by_sig:
            bad_by_sig[bad[0]] = (i, bad)
    run.cov["evaluations"] = len(cases) + len(scs)
    run.cov["distinct_nontrivial"] = len(nontriv)
    run.cov["rule"] = RULE
    run.cov["feature_histogram"] = hist
    run.cov["exhaustive_sequences"] = sum(1 for c in cases if c.get("src") == "exhaustive")
    run.cov["random_sequences"] = sum(1 for c in cases if c.get("src") == "random")
    run.cov["command_histogram"] = {}
    for c in cases:
        for cmd in c["cmds"]:
            run.cov["command_histogram"][cmd[0]] = run.cov["command_histogram"].get(cmd[0], 0) + 1
    run.cov["clock_kinds"] = sorted({c["clock"] for c in cases})
    for c, o in [(c, o) for c, o in zip(cases, obs) if c.get("src") == "random"][:2]:
        run.add_sample({"case": {k: c[k] for k in ("clock", "strategy", "prog", "cmds")},
                        "impl": {"snaps": o.get("snaps"), "ntfs": o.get("ntfs")}})

    def report_seq(i, bad):
        sig = bad[0]

        def pred(cand):
            try:
                o2 = run_impl([cand], 1)[0]
                b, _ = oracle(cand, o2)
            except Exception:
                return False
            return bool(b) and b[0] == sig
        small = cases[i]
        if sig not in ("driver-error", "harness-note") and pred(cases[i]):
            small = shrink_seq(cases[i], pred)
        o2 = run_impl([small], 1)[0]
        b, _ = oracle(small, o2)
        run.violation(sig, (b or bad)[1], {"case": {k: small[k] for k in ("kind", "clock", "strategy", "prog", "cmds", "lcmds", "construct_fails", "rapid", "slow_handler_ms") if k in small},
                                           "impl_observation": {k: o2.get(k) for k in ("snaps", "ntfs", "log", "alive", "leaked", "notes", "error")},
                                           "how": "feed [case] as a JSON list to harness/c04_impl.py with PYTHONPATH=<repo>/src"})

    for sig, (i, bad) in sorted(bad_by_sig.items())[:4]:
        report_seq(i, bad)

    # ---------------- oracle on C2
    run.cov["overlap_scenarios"] = {}
    n_over_viol = 0
    for sc, o in zip(scs, sobs):
        bad = overlap_oracle(sc, o)
        run.cov["overlap_scenarios"][sc["name"]] = (bad[0] if bad else "consistent") if "error" not in o else "driver-error"
        if bad and not any(k.get("signature") == bad[0] for k in run._known):
            n_over_viol += 1
            if n_over_viol > 3:          # the first few are enough to report; all are listed in the evidence
                continue
        if bad:
            sn = o["snaps"][-1] if o.get("snaps") else None
            run.violation(bad[0], f"{sc['name']}: {sc['cmd']} overlapping the run thread ({sc['wpc']}): {bad[1]}; outcome {sn}",
                          {"scenario": sc, "impl_observation": {k: o.get(k) for k in ("snaps", "ntfs", "held_state", "at_issue", "gates", "cmd_wall", "alive", "notes", "error")},
                           "how": "feed [scenario] as a JSON list to harness/c04_impl.py with PYTHONPATH=<repo>/src"})
    if scs:
        run.add_sample({"overlap_scenario": {k: scs[0].get(k) for k in ("name", "prog", "runcmd", "gates", "cmd", "wpc")},
                        "impl": {"snaps": sobs[0].get("snaps"), "ntfs": sobs[0].get("ntfs"), "held_state": sobs[0].get("held_state")}})

    # ---------------- correspondence with M1 and M2 inside coqc
    t1 = time.time()
    with ThreadPoolExecutor(max_workers=2) as ex:
        f_m1 = ex.submit(coq_compare, scratch, cases, obs)
        f_m2 = ex.submit(coq_overlap, scratch, scs, sobs)
        (codes, err), (allowed, err2) = f_m1.result(), f_m2.result()
    run.cov["wall_impl_s"] = round(t_impl, 1)
    run.cov["wall_coq_s"] = round(time.time() - t1, 1)
    if err or err2:
        run.violation("correspondence-not-evaluable", err or err2, {}, found_input=False)
        return run.finish()
    run.cov["traces_validated_against_impl"] = sum(1 for x in codes if x == 0) + sum(1 for v in allowed.values() if v)
    run.cov["model_impl_mismatches"] = sum(1 for x in codes if x == 1)
    run.cov["cases_outside_model"] = sum(1 for x in codes if x == 2)
    run.cov["coq_monitor_rejections"] = sum(1 for x in codes if x == 3)
    run.cov["cases_not_representable"] = sum(1 for x in codes if x == 4)
    run.cov["overlap_outcomes_allowed_by_M2"] = sum(1 for v in allowed.values() if v)
    run.cov["overlap_outcomes_checked_against_M2"] = len(allowed)
    run.cov["states"] = getattr(coq_overlap, "m2_states", 0)      # reachable states of M2 (unrestricted overlap, loose waits)
    flagged = {i for sig, (i, b) in bad_by_sig.items()}
    for want, sig, what in ((1, "model-impl-disagree", "Lifecycle.lcase_code: the model M1 and the implementation differ on this command sequence"),
                            (3, "coq-monitor-rejects", "Lifecycle.observed_ok: table / monitor reject the observed history"),
                            (4, "unexpected-observation", "the observation cannot be expressed in the model's vocabulary")):
        idx = [i for i, x in enumerate(codes) if x == want]
        if not idx:
            continue
        if bad_by_sig:
            continue        # a concrete failing input has been reported already
        # the oracle found nothing on the generated cases: search more inputs around the disagreeing one
        i = idx[0]
        found = None
        rr = random.Random(run.seed + 77)
        extra = []
        for _ in range(150):
            c2 = json.loads(json.dumps(cases[i]))
            if c2["cmds"] and rr.random() < 0.7:
                j = rr.randrange(len(c2["cmds"]))
                c2["cmds"].insert(j, rr.choice(alphabet(unit_of(c2["clock"]))))
            else:
                c2["cmds"].append(rr.choice(alphabet(unit_of(c2["clock"]))))
            extra.append(c2)
        try:
            eobs = run_impl(extra, 12)
            for c2, o2 in zip(extra, eobs):
                b, _ = oracle(c2, o2)
                if b:
                    found = (c2, b)
                    break
        except Exception:
            pass
        if found:
            cases.append(found[0]); obs.append(None)
            report_seq(len(cases) - 1, found[1])
        else:
            run.violation(sig, what + "; no clause of the property was found violated by the oracle on the explored inputs",
                          {"case": {k: cases[i][k] for k in ("kind", "clock", "strategy", "prog", "cmds", "lcmds", "construct_fails", "rapid", "slow_handler_ms") if k in cases[i]},
                           "impl_observation": {k: obs[i].get(k) for k in ("snaps", "ntfs", "alive", "notes", "error")},
                           "model_view": coq_view(cases[i], obs[i]) if want != 4 else representable(obs[i], cases[i]["cmds"]),
                           "relation": "Sim.Lifecycle.lcase_code", "other_disagreeing_cases": len(idx) - 1},
                          found_input=False)
        break
    for i, okay in allowed.items():
        if not okay and not run.violations:
            sc = scs[i]
            run.violation(f"overlap:{sc['name']}:outcome-not-allowed-by-M2",
                          f"{sc['name']}: the quiescent outcome of {sc['cmd']} overlapping the run thread at {sc['wpc']} is not reachable in Sim/Overlap.v",
                          {"scenario": sc, "impl_observation": {k: sobs[i].get(k) for k in ("snaps", "ntfs", "held_state", "at_issue", "gates", "alive")},
                           "relation": "Sim.Overlap.overlap_allows"}, found_input=False)
    if tree.broken() and not bad_by_sig:
        T.report_broken_tie(run, tree)
    if not proofs_ok and not run.violations:
        run.violation("proof-broken", f"a {PID} proof obligation no longer checks: " + getattr(run, "proof_log", "")[-800:],
                      {"theorems": run.cov.get("theorems")}, found_input=False)
    return run.finish()


def replay(path: str) -> int:
    body = json.loads(Path(path).read_text())
    case = body.get("case") or body.get("scenario")
    o = run_impl([case], 1)[0]
    bad = overlap_oracle(case, o) if case.get("kind") == "overlap" else oracle(case, o)[0]
    print(json.dumps({"violated": bad, "snaps": o.get("snaps"), "ntfs": o.get("ntfs")}, indent=1))
    return 1 if bad else 0


if __name__ == "__main__":
    sys.exit(main(sys.argv[1] if len(sys.argv) > 1 else "quick"))
