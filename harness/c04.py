"""C04 — simulator lifecycle: commands, states and notifications follow the protocol.

Sequential part (M1): random and bounded-exhaustive command sequences issued at
quiescence plus commands issued from inside handlers, on the real simulators
and on Sim.Model; oracle = documented accept/refuse table, "refused changes
nothing", the notification-stream monitor, ENDED absorbing, thread termination.
The overlap part (M2, two-thread transition system) lives in Sim/Overlap.v and
is checked by its theorems plus forced-interleaving scenarios (c04_overlap.py).
"""
from __future__ import annotations

import itertools
import json
import random
import sys
from pathlib import Path

sys.path.insert(0, str(Path(__file__).resolve().parent))
import common as C
import simlib as S
import c02

PID = "C04"

SMALL_PROG = [[["sched", ["now"], 5, 1], ["sched", ["abs", 8], 5, 2], ["sched", ["abs", 8], 7, 2]],
              [["sched", ["rel", 4], 5, 1]], []]


def alphabet(u):
    return [["init", 0, 2 * u, 12 * u], ["initbad"], ["start"], ["step"], ["stop"], ["runupto", 6 * u],
            ["runuptoincl", 8 * u], ["endrepl"], ["cleanup"]]


def gen_case(rng: random.Random, i: int) -> dict:
    clock = S.CLOCKS[i % len(S.CLOCKS)]
    u = S.unit_of(clock)
    prog = S.gen_program(rng, clock, p_illegal=0.04, p_cancel=0.06, p_cmd=0.25, max_events=60)
    if i % 50 == 3:      # stop() from a handler: 1 s each
        hs = [h for h in range(1, len(prog)) if prog[h]]
        if hs:
            h = rng.choice(hs)
            # commands issued after stop() in the same handler fall into the STOPPING window: overlap model, not here
            prog[h] = [a for a in prog[h] if a[0] != "cmd"]
            prog[h].insert(0, ["cmd", ["stop"]])
    n = rng.randint(2, 9)
    cmds = []
    t = 0
    for j in range(n):
        r = rng.random()
        if j == 0 and r < 0.8:
            cmds.append(S.gen_repl(rng, clock)); continue
        if r < 0.12:
            cmds.append(S.gen_repl(rng, clock))
        elif r < 0.17:
            cmds.append(["initbad"])
        elif r < 0.37:
            cmds.append(["start"])
        elif r < 0.57:
            cmds.append(["step"])
        elif r < 0.64:
            cmds.append(["stop"])
        elif r < 0.84:
            t += u * rng.choice([0, 1, 2, 3, 5, 8])
            tt = "nan" if rng.random() < 0.04 else t
            cmds.append(["runupto" if rng.random() < 0.5 else "runuptoincl", tt])
        elif r < 0.92:
            cmds.append(["endrepl"])
        else:
            cmds.append(["cleanup"])
    return {"clock": clock, "strategy": rng.choice(["pause", "log"]), "prog": prog, "cmds": cmds}


def extra_cases(tier):
    out = []
    maxlen = 3 if tier == "quick" else 4
    for clock in (["float"] if tier == "quick" else ["float", "int"]):
        u = S.unit_of(clock)
        prog = [[[a[0], ([a[1][0], a[1][1] * u] if len(a[1]) > 1 else a[1]), a[2], a[3]] for a in body] for body in SMALL_PROG]
        al = alphabet(u)
        for ln in range(1, maxlen + 1):
            for seq in itertools.product(al, repeat=ln):
                out.append({"clock": clock, "strategy": "pause", "prog": prog, "cmds": [list(c) for c in seq]})
    return out


def expected_outcome(c, rs, ps, clk, end, have_repl):
    """The documented accept / refuse rules, as a function of the two state
    enums, clock >= end and (for bounded runs) the bound.  None = no rule checked."""
    running = rs in ("STARTING", "STARTED")
    k = c[0]
    if k == "init":
        return "refused" if running else "ok"
    if k == "initbad":
        return "refused"
    if k in ("start", "step", "runupto", "runuptoincl"):
        if running or rs == "NOT_INITIALIZED" or not have_repl:
            return "refused"
        if ps not in ("INITIALIZED", "STARTED"):
            return "refused"
        if clk >= end:
            return "refused"
        if k in ("runupto", "runuptoincl"):
            if c[1] == "nan" or c[1] < clk:
                return "refused"
        return "ok"
    if k == "stop":
        return "ok" if running else "refused"
    if k == "endrepl":
        return "ok" if ps == "STARTED" else "refused"
    if k == "cleanup":
        return "ok"
    return None


def oracle(case, obs):
    facts = {"refusal": False, "reinit": False, "ended": False, "inner_cmd": False, "cleanup": False, "executed": 0}
    if "error" in obs:
        return ("driver-error", obs["error"]), facts
    why = S.representable(obs)
    rs, ps, clk, npend = "NOT_INITIALIZED", "NOT_INITIALIZED", 0, 0
    end, warm, have_repl = None, None, False
    # monitor state per replication
    mon = None
    seg_ntfs = []
    n_init = 0
    pending_time = None      # a TIME_CHANGED notification waiting for "its" event
    for ent in obs["log"]:
        if ent[0] == "ntf":
            seg_ntfs.append(ent)
            nm, ts = ent[1], ent[2]
            if mon is None:
                return ("notification-outside-replication", f"{nm}@{ts} before any initialize"), facts
            if mon["ended"]:
                return ("notification-after-end-replication", f"{nm}@{ts}"), facts
            if nm == "startrepl":
                if mon["started"] or mon["count"] > 0:
                    return ("start-replication-not-once-and-first", f"{nm}@{ts} after {mon['count']} notifications"), facts
                mon["started"] = True
            elif not mon["started"]:
                return ("start-replication-not-once-and-first", f"{nm}@{ts} before START_REPLICATION"), facts
            if nm == "start":
                if mon["run"]:
                    return ("start-stop-not-alternating", "START while started"), facts
                mon["run"] = True
            if nm == "stop":
                if not mon["run"]:
                    return ("start-stop-not-alternating", "STOP while stopped"), facts
                mon["run"] = False
            if nm == "time":
                if pending_time is not None:
                    return ("time-changed-without-event", f"TIME_CHANGED@{pending_time} not followed by an event"), facts
                if mon["last_t"] is not None and ts < mon["last_t"]:
                    return ("time-changed-decreasing", f"{mon['last_t']} -> {ts}"), facts
                mon["last_t"] = ts
                pending_time = ts
            if nm == "warmup":
                if mon["warm"]:
                    return ("warmup-more-than-once", f"second WARMUP@{ts}"), facts
                mon["warm"] = True
                if ts != warm:
                    return ("warmup-at-wrong-time", f"WARMUP@{ts}, warm-up time {warm}"), facts
                if pending_time is not None and pending_time == ts:
                    pending_time = None
            if nm == "endrepl":
                if mon["run"]:
                    return ("end-replication-while-started", "END_REPLICATION between START and STOP"), facts
                mon["ended"] = True
            mon["count"] += 1
        elif ent[0] == "exec":
            if pending_time is not None:
                if ent[2] != pending_time:
                    return ("time-changed-differs-from-event-time", f"TIME_CHANGED@{pending_time}, event ran at {ent[2]}"), facts
                pending_time = None
            facts["executed"] += 1
        elif ent[0] == "sched":
            if ent[3] in ("cmdok", "cmdref"):
                pass
        elif ent[0] == "cmd":
            c, r, rs2, ps2, clk2, np2 = ent[1], ent[2], ent[3], ent[4], ent[5], ent[6]
            if r not in ("ok", "refused"):
                return ("command-raises-unrelated-error", f"{c} in state {rs}/{ps} -> {r}"), facts
            exp = expected_outcome(c, rs, ps, clk, end if end is not None else 0, have_repl)
            if exp is not None and r != exp:
                return ("accept-refuse-rule-violated", f"{c} in state {rs}/{ps} clock {clk} end {end}: {r}, documented rule says {exp}"), facts
            if r == "refused":
                facts["refusal"] = True
                if (rs2, ps2, clk2, np2) != (rs, ps, clk, npend):
                    return ("refused-command-changed-state", f"{c}: ({rs},{ps},{clk},{npend}) -> ({rs2},{ps2},{clk2},{np2})"), facts
                if seg_ntfs:
                    return ("refused-command-notified", f"{c}: {seg_ntfs[:3]}"), facts
            if pending_time is not None:
                # a TIME_CHANGED for the warm-up event has no handler entry in the log; tolerate exactly that
                if not (warm is not None and pending_time == warm):
                    return ("time-changed-without-event", f"TIME_CHANGED@{pending_time} not followed by an event"), facts
                pending_time = None
            if c[0] == "init" and r == "ok":
                n_init += 1
                if n_init > 1:
                    facts["reinit"] = True
                have_repl = True
                end, warm = c[3], c[2]
                mon = {"started": False, "run": False, "last_t": None, "warm": False, "ended": False, "count": 0}
                if (rs2, ps2, clk2) != ("INITIALIZED", "INITIALIZED", c[1]):
                    return ("initialize-wrong-state", f"{c}: {rs2}/{ps2} clock {clk2}"), facts
            if c[0] == "cleanup":
                facts["cleanup"] = True
                if (rs2, ps2) != ("NOT_INITIALIZED", "NOT_INITIALIZED"):
                    return ("cleanup-wrong-state", f"{rs2}/{ps2}"), facts
            if rs2 == "ENDED" or ps2 == "ENDED":
                facts["ended"] = True
                if (rs2, ps2) != ("ENDED", "ENDED"):
                    return ("ended-state-inconsistent", f"{rs2}/{ps2}"), facts
                if mon and not mon["ended"]:
                    return ("ended-without-end-replication", f"state ENDED but no END_REPLICATION seen"), facts
            if mon and mon["ended"] and r == "ok" and c[0] not in ("init", "cleanup") and rs == "ENDED":
                return ("ended-not-absorbing", f"{c} accepted in ENDED"), facts
            if rs2 not in ("NOT_INITIALIZED", "INITIALIZED", "STOPPED", "ENDED"):
                return ("not-quiescent", f"state {rs2} after {c}"), facts
            if mon and mon["run"]:
                return ("start-stop-not-alternating", f"START without STOP at quiescence after {c}"), facts
            rs, ps, clk, npend = rs2, ps2, clk2, np2
            seg_ntfs = []
    for a in (x for body in case["prog"] for x in body):
        if a[0] == "cmd":
            facts["inner_cmd"] = True
    if rs in ("ENDED", "NOT_INITIALIZED") and obs.get("alive"):
        return ("run-thread-still-alive", f"worker thread alive in state {rs}"), facts
    if why is not None:
        return ("unexpected-observation", why), facts
    return None, facts


RULE = ("random command sequences (len 2-9) over initialize / invalid initialize / start / step / stop / run_up_to / "
        "run_up_to_including (incl. NaN and past bounds) / end_replication / cleanup, with re-initialisation, on generated programs "
        "whose handlers also issue commands; plus ALL sequences of length <= 3 (quick) or <= 4 (thorough) over the 9-command alphabet "
        "on a fixed program; non-trivial = distinct case with >= 3 executed events and at least one of: a refused command, "
        "re-initialisation, reaching ENDED, a command issued from a handler, cleanup")


def main(tier: str) -> int:
    return c02.main(tier, pid=PID, gen=gen_case, oracle_fn=oracle, rule=RULE, extra_cases=extra_cases,
                    n_quick=1000, n_thorough=12000,
                    extra_tb=["overlap of a command with the run thread is proved on the two-thread transition system Sim/Overlap.v "
                              "(finite reachable set, closed-set invariant checked by the kernel); CPython preemption between the listed "
                              "shared accesses is not modelled"])


if __name__ == "__main__":
    sys.exit(main(sys.argv[1] if len(sys.argv) > 1 else "quick"))
