"""C02 — DEVS execution: each scheduled event runs exactly once, in time/priority order.

Tie: generated model programs are run on DEVSSimulatorInt/Float/Duration of
/repo and on the Gallina model Sim.Model (coqc, vm_compute); snapshots, the
executed-event trace, every scheduling outcome and the notification stream
must agree.  Oracle (independent of the Coq model): the clauses of C02
evaluated on the implementation's own chronological log.
"""
from __future__ import annotations

import json
import random
import sys
from pathlib import Path

sys.path.insert(0, str(Path(__file__).resolve().parent))
import common as C
import simlib as S
import simtr as T

PID = "C02"
TARGETS = ["Sim/Case.vo", "Props/C02.vo"]


def gen_cancel_stress(rng: random.Random, clock: str):
    """many events pending at once at scattered times, handlers that mostly cancel: the position of
    the cancelled event inside the event list matters"""
    u = S.unit_of(clock)
    n = rng.randint(3, 6)
    prog = [[] for _ in range(n + 1)]
    m = rng.randint(7, 16)
    for _ in range(m):
        prog[0].append(["sched", ["abs", u * rng.randint(0, 16)], rng.choice(S.PRIOS), rng.randint(1, n)])
    for h in range(1, n + 1):
        for _ in range(rng.randint(0, 3)):
            r = rng.random()
            if r < 0.65:
                prog[h].append(["cancel", rng.randint(0, m + 3)])
            elif h < n:
                prog[h].append(["sched", ["rel", u * rng.choice([0, 1, 2, 5, 9])], rng.choice(S.PRIOS), rng.randint(h + 1, n)])
    if rng.random() < 0.5:      # cancels already during construct_model
        for _ in range(rng.randint(1, 3)):
            prog[0].insert(rng.randint(m // 2, len(prog[0])), ["cancel", rng.randint(0, m - 1)])
    return prog


FINE = 2 ** 40      # fine exact scale: case times in units of 2**-40 (see sim_driver "scale")


def gen_fine(rng: random.Random, n_handlers=None):
    """events whose times differ by one to three steps of 2**-40 (relative 1e-15 .. 1e-12), with priorities and
    scheduling order arranged against the time order: a comparison of times with a tolerance reorders them"""
    n = n_handlers or rng.randint(3, 6)
    prog = [[] for _ in range(n + 1)]
    bases = [FINE * rng.randint(1, 12) for _ in range(rng.randint(1, 3))]
    acts = []
    for _ in range(rng.randint(4, 10)):
        t0, d = rng.choice(bases), rng.randint(0, 3)
        prio = [1, 3, 5, 7][d] if rng.random() < 0.7 else rng.choice(S.PRIOS)      # the later, the higher the priority
        acts.append((d, ["sched", ["abs", t0 + d], prio, rng.randint(1, n)]))
    if rng.random() < 0.6:
        acts.sort(key=lambda x: -x[0])                                                  # the later, the earlier scheduled
    prog[0] = [a for _, a in acts]
    for h in range(1, n + 1):
        for _ in range(rng.randint(0, 2)):
            r = rng.random()
            if r < 0.2:
                prog[h].append(["cancel", rng.randint(0, len(acts) + 2)])
            elif h < n:
                prog[h].append(["sched", ["rel", rng.choice([0, 1, 1, 2, 3, FINE, FINE + 1, FINE - 1])],
                                rng.choice(S.PRIOS), rng.randint(h + 1, n)])
    end = FINE * rng.randint(12, 15) + rng.choice([0, 0, 1, 2])
    return prog, ["init", 0, rng.choice(bases) + rng.randint(0, 3) if rng.random() < 0.5 else 0, end]


NONDYADIC = [0.1, 0.2, 0.3, 0.7, 0.9, 1.1, 1.3, 1.7, 1.9, 2.3, 2.9, 3.1, 1 / 3, 2 / 3, 4 / 3, 0.6, 1.2, 2.6, 3.3, 0.35, 2.05]


def gen_free(rng: random.Random, clock: str) -> dict:
    """times that are not dyadic (0.1, 0.3, 1/3 ...), used verbatim as floats: handlers schedule at ABSOLUTE
    times while the clock is such a value; the time an event is given, and the clock its handler sees, must be
    the requested float bit for bit.  Judged by the oracle only (the Z-scaled model has no such times)."""
    pool = sorted(rng.sample(NONDYADIC, rng.randint(6, 12)))
    n = rng.randint(3, 6)
    prog = [[] for _ in range(n + 1)]
    end = rng.choice(pool[len(pool) // 2:])
    for _ in range(rng.randint(2, 4)):
        t = rng.choice(pool[:len(pool) // 2 + 1])
        prog[0].append(["sched", rng.choice([["abs", t], ["rel", t]]), rng.choice(S.PRIOS), rng.randint(1, n)])
    for h in range(1, n + 1):
        for _ in range(rng.randint(1, 3)):
            r = rng.random()
            if r < 0.6:
                t = rng.choice(pool + [end, end])           # absolute, also exactly at the horizon (and sometimes in the past)
                prog[h].append(["sched", ["abs", t], rng.choice(S.PRIOS), rng.randint(h + 1, n) if h < n else n])
            elif r < 0.8 and h < n:
                prog[h].append(["sched", ["rel", rng.choice([0.1, 0.2, 0.3, 0, 0.7])], rng.choice(S.PRIOS), rng.randint(h + 1, n)])
            elif r < 0.9:
                prog[h].append(["cancel", rng.randint(0, 8)])
            elif h < n:
                prog[h].append(["sched", ["now"], rng.choice(S.PRIOS), rng.randint(h + 1, n)])
    prog[n] = [a for a in prog[n] if a[0] != "sched"]       # the last handler schedules nothing: runs are finite
    return {"clock": clock, "freetime": True, "strategy": "pause", "prog": prog,
            "cmds": [["init", 0, rng.choice([0, pool[0]]), end], ["start"]]}


def gen_case(rng: random.Random, i: int) -> dict:
    case = gen_case0(rng, i)
    if i % 4 == 2 and not case.get("freetime"):
        case["userevents"] = True       # every third event is a user-defined SimEventInterface object
    return S.maybe_fail_construct(case, rng, i)


def gen_case0(rng: random.Random, i: int) -> dict:
    clock = S.CLOCKS[i % len(S.CLOCKS)]
    if i % 16 in (7, 12):
        return gen_free(rng, "float" if i % 16 == 7 else "dur")
    if i % 8 in (5, 6):      # clocks dur / durmin slots: fine scale on the Duration (seconds) and float clocks
        prog, init = gen_fine(rng)
        return {"clock": "dur" if i % 8 == 5 else "float", "scale": 40, "strategy": "pause", "prog": prog, "cmds": [init, ["start"]]}
    if i % 3 == 2:
        u = S.unit_of(clock)
        prog = gen_cancel_stress(rng, clock)
        return {"clock": clock, "strategy": "pause", "prog": prog,
                "cmds": [["init", 0, u * rng.randint(0, 14), u * rng.randint(10, 18)], ["start"]]}
    prog = S.gen_program(rng, clock, p_illegal=0.14, p_cancel=0.14)
    if i % 6 == 1:
        return two_replications(rng, clock, prog)
    if clock != "int" and rng.random() < 0.3:
        # malformed stream, inexact part: a negative delay (or a past time) so small that clock + delay rounds to the clock
        for _ in range(rng.randint(1, 3)):
            h = rng.randint(1, len(prog) - 1)
            tok = rng.choice([["rel", "tinyneg1"], ["rel", "tinyneg2"], ["rel", "tinyneg3"], ["rel", "tinyneg1"], ["abs", "tinypast"]])
            prog[h].insert(rng.randint(0, len(prog[h])), ["sched", tok, rng.choice(S.PRIOS), rng.randint(1, len(prog) - 1)])
    init = gen_repl(rng, clock)
    past_before(prog, init[1])
    return {"clock": clock, "strategy": "pause", "prog": prog, "cmds": [init, ["start"]]}


def past_before(prog, start):
    """the generator's "absolute time in the past" requests are negative times: keep them before the replication start"""
    if start < 0:
        for body in prog:
            for a in body:
                if a[0] == "sched" and a[1][0] == "abs" and isinstance(a[1][1], int) and a[1][1] < 0:
                    a[1][1] += start


def gen_repl(rng: random.Random, clock: str, horizon=64):
    """replication with a start time that is mostly not the simulator's initial clock 0: positive or negative"""
    u = S.unit_of(clock)
    start = u * rng.choice([0, 0, 2, 8, 10, -2, -8, -12, 1, 3])
    length = u * rng.randint(2, horizon // u)
    end = start + length
    w = rng.random()
    warm = start if w < 0.15 else (start + u * rng.randint(0, length // u) if w < 0.85 else end + u * rng.randint(0, 4))
    return ["init", start, warm, end]


def two_replications(rng: random.Random, clock: str, prog) -> dict:
    """a second replication on the used simulator: its start differs from where the first one left the clock"""
    u = S.unit_of(clock)
    prog[0] = [a for a in prog[0] if not (a[0] == "sched" and a[1][0] == "abs")]        # keep construct relative to the start
    for _ in range(rng.randint(1, 3)):
        prog[0].append(["sched", rng.choice([["now"], ["rel", u * rng.randint(0, 6)], ["rel", u * rng.randint(0, 6)]]),
                        rng.choice(S.PRIOS), rng.randint(1, len(prog) - 1)])
    first = gen_repl(rng, clock)
    second = gen_repl(rng, clock)
    between = rng.choice([[["start"]], [["start"]], [["runupto", first[1] + u * rng.randint(0, 8)]], [["step"], ["step"]], []])
    past_before(prog, min(first[1], second[1]))
    return {"clock": clock, "strategy": "pause", "prog": prog, "cmds": [first] + between + [second, ["start"]]}


TOKENS = {"tinyneg1": " (delay -1e-15)", "tinyneg2": " (delay -5e-324)", "tinyneg3": " (delay -2**-60)",
          "tinypast": " (time = clock - max(1e-13, 4 ulp))", "nan": ""}


def illegal(mode, clock_q):
    if mode[0] == "now":
        return False
    if mode[1] == "nan":
        return True
    if isinstance(mode[1], str) and mode[1].startswith("tiny"):   # tiny negative delay / time just before the clock
        return True
    if mode[0] == "rel":
        return mode[1] < 0
    return mode[1] < clock_q


def oracle(case: dict, obs: dict):
    """Returns (signature, description) of the first violated clause, or None;
    plus a dict of non-triviality facts."""
    facts = {"ties": False, "cancel_pending": False, "illegal": False, "zero_delay": False,
             "nonzero_start_construct_sched": False, "second_replication": False, "abs_from_nondyadic_clock": False,
             "aborted_initialize": False, "executed": 0}
    why = S.representable(obs, case)
    if why is not None and "error" in obs:
        return ("driver-error", why), facts
    free = bool(case.get("freetime"))
    num = (int, float) if free else int          # free-time cases: verbatim floats, compared bit for bit
    if free:
        why = None
    end = None
    for ent in obs["log"]:      # an illegal request that got through shows up first
        if ent[0] == "sched" and ent[3] == "acc" and isinstance(ent[2], num) and illegal(ent[1], ent[2]):
            return ("illegal-scheduling-accepted", f"request {ent[1]}{TOKENS.get(ent[1][1], '') if len(ent[1]) > 1 and isinstance(ent[1][1], str) else ''} at clock {ent[2]}/4 was accepted"), facts
    bad_clock = None if free else S.log_insane(obs)
    if bad_clock:
        return ("clock-not-an-exact-number", bad_clock), facts
    log = obs["log"]
    # replication blocks: the entries construct_model logs come before the entry of their (accepted) initialize
    block_at, prev = {}, -1
    for i, e in enumerate(log):
        if e[0] == "cmd":
            if e[1][0] == "init" and (e[2] == "ok" or (e[2].startswith("exc:") and S.construct_fails(case))):
                block_at[prev + 1] = e[1]         # also an initialize aborted by a raising construct_model opens a block
            prev = i
    pending = {}          # k -> (time, -prio, k)
    executed = []
    cancelled = set()
    last_clock = None
    pending_ever = []
    start = None
    in_construct = False
    aborted = False
    last_cmd = None
    n_blocks = 0

    def close_block():
        """the replication that just finished (or the last one): nothing within the horizon may be left"""
        facts["executed"] = max(facts.get("executed", 0), len(executed))
        if last_cmd is not None and last_cmd[3] == "ENDED" and end is not None:
            excl = last_cmd[1][0] == "runupto" and last_cmd[1][1] == end      # ended by an exclusive cut exactly at the end
            left = [v for v in pending.values() if v[0] < end or (v[0] == end and not excl)]
            if left:
                return ("event-within-horizon-not-executed",
                        f"events {left} (time, -prio, creation rank; rank x.5 = the warm-up event) never ran although the replication ended at {end}/4")
            if last_cmd[5] != end:
                return ("final-clock-not-end", f"final clock {last_cmd[5]}/4, end {end}/4")
        return None

    for j, ent in enumerate(log):
        if j in block_at:
            bad = close_block()
            if bad:
                return bad, facts
            ini = block_at[j]
            start, end = ini[1], ini[3]
            pending, executed, cancelled, pending_ever = {}, [], set(), []
            last_clock = start          # initialize puts the clock at the replication start, before construct_model
            in_construct = True
            aborted = False
            n_blocks += 1
            if n_blocks > 1:
                facts["second_replication"] = True
        if ent[0] == "cmd":
            last_cmd = ent
            if ent[1][0] == "init" and ent[2] == "ok":
                in_construct = False
                aborted = False
            elif ent[1][0] == "init" and ent[2].startswith("exc:") and in_construct:
                # construct_model raised: initialize is aborted, the simulator must be left not initialised
                in_construct = False
                aborted = True
                facts["aborted_initialize"] = True
                if (ent[3], ent[4]) != ("NOT_INITIALIZED", "NOT_INITIALIZED"):
                    return ("aborted-initialize-leaves-wrong-state", f"{ent[1]} raised {ent[2]}, state afterwards {ent[3]}/{ent[4]}"), facts
            elif aborted and ent[1][0] in ("start", "step", "runupto", "runuptoincl", "stop", "endrepl") and ent[2] != "refused":
                return ("command-accepted-after-aborted-initialize", f"{ent[1]} -> {ent[2]} on a simulator whose initialize was aborted"), facts
        if aborted and ent[0] in ("exec", "ntf"):
            return ("activity-after-aborted-initialize", f"{ent[:3]} although initialize was aborted by construct_model"), facts
        if ent[0] == "sched" and in_construct and isinstance(ent[2], num):
            if ent[2] != start:
                return ("clock-during-construct-model-is-not-the-replication-start",
                        f"scheduling request {ent[1]} in construct_model saw clock {ent[2]}/4, the replication starts at {start}/4 "
                        f"(replication no. {n_blocks} of this simulator)"), facts
            if start != 0 and ent[1][0] in ("now", "rel"):
                facts["nonzero_start_construct_sched"] = True
        if ent[0] == "sched":
            _, mode, clk, outc, s0, s1, cr = ent
            if outc not in ("acc", "ref"):
                return ("scheduling-raises-unrelated-error", f"scheduling request {mode} at clock {clk}/4 raised {outc}"), facts
            if illegal(mode, clk):
                facts["illegal"] = True
                if outc != "ref":
                    return ("illegal-scheduling-accepted", f"request {mode}{TOKENS.get(mode[1], '') if len(mode) > 1 and isinstance(mode[1], str) else ''} at clock {clk}/4 was accepted"), facts
                if s0 != s1:
                    return ("refused-scheduling-changed-pending", f"refused request {mode} changed the number of pending events {s0}->{s1}"), facts
            else:
                if outc != "acc":
                    return ("legal-scheduling-refused", f"request {mode} at clock {clk}/4 was refused"), facts
                k, t, prio = cr
                want = clk if mode[0] == "now" else (clk + mode[1] if mode[0] == "rel" else mode[1])
                if t != want:
                    return ("event-time-wrong", f"request {mode} at clock {clk!r} produced an event at time {t!r}, not {want!r}"
                            + ("" if free else " (quarters)")), facts
                if free and mode[0] == "abs" and clk != 0:
                    facts["abs_from_nondyadic_clock"] = True
                if mode[0] != "abs" and t == clk:
                    facts["zero_delay"] = True
                pending[k] = (t, -prio, k)
                pending_ever.append(k)
        elif ent[0] == "cancel":
            _, k, was, still = ent
            if was != (k in pending):
                return ("membership-wrong", f"contains(event {k}) answered {was}, reference {k in pending}"), facts
            if still:
                return ("cancel-left-event-pending", f"event {k} still pending after cancel_event"), facts
            if k in pending:
                facts["cancel_pending"] = True
                cancelled.add(k)
                del pending[k]
        elif ent[0] == "cmd" and ent[1][0] == "init" and ent[2] == "ok":
            # initialize schedules the warm-up event last: priority 10, after everything construct_model created
            warm = ent[1][2]
            if warm >= ent[1][1]:
                pending["W"] = (warm, -10, len(pending_ever) - 0.5)
        elif ent[0] == "ntf" and ent[1] == "warmup":
            ts = ent[2]
            if "W" not in pending:
                return ("warmup-fired-but-not-pending", f"WARMUP@{ts}/4 although no warm-up event was pending"), facts
            key = pending["W"]
            mn = min(pending.values())
            if key != mn:
                return ("executed-event-not-minimum", f"warm-up event key {key} executed while {mn} was pending"), facts
            if ts != key[0]:
                return ("clock-differs-from-event-time", f"warm-up event at {key[0]}/4 ran with clock {ts}/4"), facts
            if last_clock is not None and ts < last_clock:
                return ("clock-went-backwards", f"clock {last_clock}/4 -> {ts}/4 (warm-up)"), facts
            last_clock = ts
            del pending["W"]
        elif ent[0] == "exec":
            k, clk = ent[1], ent[2]
            if not isinstance(clk, num):
                return ("clock-not-exact", f"clock {clk}"), facts
            if k in executed:
                return ("event-executed-twice", f"event {k} executed twice"), facts
            if k not in pending:
                why2 = "cancelled" if k in cancelled else "never scheduled"
                return ("executed-event-not-pending", f"event {k} executed although {why2}"), facts
            key = pending[k]
            mn = min(pending.values())
            if key != mn:
                return ("executed-event-not-minimum", f"event {k} key {key} executed while {mn} was pending"
                        + (" (the warm-up event)" if pending.get("W") == mn else "")), facts
            if sum(1 for v in pending.values() if v[0] == key[0]) > 1:
                facts["ties"] = True
            if clk != key[0]:
                return ("clock-differs-from-event-time", f"event {k} at time {key[0]}/4 ran with clock {clk}/4"), facts
            if last_clock is not None and clk < last_clock:
                return ("clock-went-backwards", f"clock {last_clock}/4 -> {clk}/4"), facts
            if end is not None and clk > end:
                return ("event-executed-after-end", f"event {k} at {clk}/4 after end {end}/4"), facts
            last_clock = clk
            executed.append(k)
            del pending[k]
    facts["executed"] = max(facts.get("executed", 0), len(executed))
    bad = close_block()
    if bad:
        return bad, facts
    if obs.get("notes"):
        return ("simulator-did-not-come-to-rest", "; ".join(obs["notes"])), facts
    if why is not None:
        return ("unexpected-observation", why), facts
    return None, facts


def shrink(case, pred):
    """Greedy: drop commands (never the initialize), then actions, while pred(case) holds."""
    import time as _t
    cur = json.loads(json.dumps(case))
    changed = True
    budget = 120
    deadline = _t.time() + 45
    for key in ("badrepr", "loglevel", "userevents"):        # optional decorations first
        if key in cur:
            cand = json.loads(json.dumps(cur))
            del cand[key]
            budget -= 1
            if pred(cand):
                cur = cand
    while changed and budget > 0 and _t.time() < deadline:
        changed = False
        for j in range(len(cur["cmds"]) - 1, 0, -1):
            cand = json.loads(json.dumps(cur))
            del cand["cmds"][j]
            budget -= 1
            if pred(cand):
                cur = cand; changed = True
                break
        if changed:
            continue
        for h in range(len(cur["prog"])):
            for i in range(len(cur["prog"][h])):
                cand = json.loads(json.dumps(cur))
                del cand["prog"][h][i]
                budget -= 1
                if pred(cand):
                    cur = cand; changed = True
                    break
            if changed or budget <= 0 or _t.time() > deadline:
                break
    return cur


def variants(case, rng, n):
    """small edits of a case on which model and implementation disagree"""
    out = []
    for _ in range(n):
        v = json.loads(json.dumps(case))
        init = v["cmds"][0]
        u = S.unit_of(v["clock"]) if v["clock"] != "durmin" else 1
        r = rng.random()
        if r < 0.25 and init[0] == "init":
            init[3] = max(init[1] + u, init[3] + u * rng.randint(-6, 12))        # move the end
        elif r < 0.45 and init[0] == "init":
            init[2] = init[1] + u * rng.randint(0, 12)                           # move the warm-up
        elif r < 0.65:
            h = rng.randrange(len(v["prog"]))
            v["prog"][h].insert(rng.randint(0, len(v["prog"][h])), ["cancel", rng.randint(0, 12)])
        elif r < 0.8:
            bodies = [h for h in range(len(v["prog"])) if v["prog"][h]]
            if bodies:
                h = rng.choice(bodies)
                del v["prog"][h][rng.randrange(len(v["prog"][h]))]
        elif r < 0.9:
            v["cmds"].append(["start"])
        else:
            v["cmds"].insert(rng.randint(1, len(v["cmds"])), ["step"])
        out.append(v)
    return out


def neighbourhood_search(run, pid, seeds, oracle_fn, prepare, rng, per_seed=120) -> bool:
    """The correspondence broke on [seeds] but they satisfy every clause of the property: look
    around them for an input that violates the property itself."""
    cand = [v for s in seeds for v in variants(s, rng, per_seed)]
    if not cand:
        return False
    try:
        obs = S.run_impl(cand)
        ctx = prepare(cand, obs) if prepare else None
    except Exception:  # noqa
        return False
    for j, (c, o) in enumerate(zip(cand, obs)):
        if o.get("skipped"):
            continue
        try:
            bad, _ = oracle_fn(c, o, ctx, j) if prepare else oracle_fn(c, o)
        except Exception:  # noqa
            continue
        if bad and bad[0] != "driver-error":
            sig = bad[0]

            def pred(x, _sig=sig):
                try:
                    o2 = S.run_impl([x], nproc=1)[0]
                    b, _ = oracle_fn(x, o2, prepare([x], [o2]), 0) if prepare else oracle_fn(x, o2)
                except Exception:  # noqa
                    return False
                return bool(b) and b[0] == _sig
            small = shrink(c, pred)
            o2 = S.run_impl([small], nproc=1)[0]
            run.cov["neighbourhood_search"] = {"seeds": len(seeds), "variants": len(cand), "found": sig}
            run.violation(sig, bad[1], {"case": small, "impl_observation": o2, "found_by": "search around a model/implementation disagreement",
                                        "how": "feed [case] as JSON list to harness/sim_driver.py with PYTHONPATH=/repo/src"})
            return True
    run.cov["neighbourhood_search"] = {"seeds": len(seeds), "variants": len(cand), "found": None}
    return False


def main(tier: str, pid=PID, gen=gen_case, oracle_fn=oracle, n_quick=3200, n_thorough=100000,
         rule=None, extra_tb=None, targets=None, prepare=None, extra_cases=None, nontrivial=None) -> int:
    targets = targets or ["Sim/Case.vo", f"Props/{pid}.vo"]
    run = C.Run(pid, tier)
    # second tie: the model regenerated from simulator.py of the tree under test, proved equal to Sim/Model.v (harness/simtr.py)
    tree = T.prepare(run)
    if tree is None:
        return run.finish()
    proofs_ok = T.check_proofs(run, tree, targets, extra_tb=(extra_tb or []) + [
        "pending set modelled at specification level (sorted list); the heap-backed list is covered by C01's refinement theorem and by this correspondence",
        "times are exact dyadic numbers (quarters) so float/Duration clock arithmetic is exact; float rounding of clock arithmetic is not modelled",
        "worker thread executed synchronously (commands observed at quiescence); CPython threading trusted",
    ])
    rng = random.Random(run.seed * 104729 + int(pid[1:]))
    n = n_quick if tier == "quick" else n_thorough
    cases = []
    corpus = C.VERIF / "corpus" / f"{pid}.json"
    if corpus.exists():
        cases += json.loads(corpus.read_text())
    ncorp = len(cases)
    cases += [gen(rng, i) for i in range(n)]
    if extra_cases:
        cases += extra_cases(tier)
    try:
        obs = S.run_impl(cases)
        ctx = prepare(cases, obs) if prepare else None
    except Exception as exc:  # noqa
        run.violation("harness-cannot-run-implementation", f"{type(exc).__name__}: {exc}"[:600], {}, found_input=False)
        return run.finish()
    if prepare:
        base_oracle = oracle_fn
        index_of = {id(c): i for i, c in enumerate(cases)}

        def oracle_fn(c, o, _b=base_oracle):   # noqa: F811
            return _b(c, o, ctx, index_of.get(id(c)))

    nontriv = set()
    hist = {}
    first_bad = None
    for i, (c, o) in enumerate(zip(cases, obs)):
        if o.get("skipped"):
            continue
        try:
            bad, facts = oracle_fn(c, o)
        except Exception as exc:  # noqa: an observation the oracle cannot even read is reported, never a crash
            bad, facts = ("observation-not-judgeable", f"{type(exc).__name__}: {exc}; implementation returned {json.dumps(o)[:400]}"), {}
        for k, v in facts.items():
            if v is True:
                hist[k] = hist.get(k, 0) + 1
        is_nt = nontrivial(facts) if nontrivial else (facts.get("executed", 0) >= 3 and any(v is True for v in facts.values()))
        if is_nt:
            nontriv.add(json.dumps([c["prog"], c["cmds"], c["clock"], c["strategy"]]))
        if bad and first_bad is None:
            first_bad = (i, bad)
    run.cov["evaluations"] = len(cases)
    run.cov["distinct_nontrivial"] = len(nontriv)
    run.cov["rule"] = rule or ("generated model programs (DAG of handlers + optional self-rescheduling handler; now/relative/absolute "
                               "scheduling, zero delays, exact ties, priorities 1..10, cancels of pending/executed events, illegal requests incl. NaN and, on "
                               "float / Duration clocks, negative delays below half an ulp of the clock (-1e-15, -5e-324, -2^-60) and times a few ulps before the clock; "
                               "every third case a cancel-stress program: 7-16 events pending at once, handlers that mostly cancel; a quarter of the cases on a "
                               "second exact scale of 2^-40 time units (Duration / float clocks) with event times one to three steps apart and "
                               "priorities / scheduling order arranged against the time order; replication start times 0, positive and negative with now / "
                               "relative / absolute scheduling inside construct_model; every sixth case a second replication on the used simulator; an eighth of "
                               "the cases with non-dyadic float times (0.1, 0.3, 1/3 ...) used verbatim and absolute scheduling from handlers at such "
                               "clocks - oracle only, outside the Z-scaled model; in a quarter of the cases every third event is a user-defined "
                               "SimEventInterface object handed to schedule_event) "
                               "x 4 clock kinds (int, float, Duration s, Duration min), run with initialize+start; non-trivial = distinct case "
                               "executing >= 3 events and exercising at least one of: time tie, cancel of a pending event, illegal request, zero delay")
    run.cov["feature_histogram"] = hist
    run.cov["clock_kinds"] = sorted({c["clock"] for c in cases})
    for c, o in list(zip(cases, obs))[ncorp:ncorp + 2]:
        run.add_sample({"case": c, "impl": {k: o.get(k) for k in ("snaps", "trace", "outs", "ntfs")}})

    if first_bad:
        i, (sig, what) = first_bad

        def pred(cand):
            try:
                o2 = S.run_impl([cand], nproc=1)[0]
                if prepare:
                    cx = prepare([cand], [o2])
                    b, _ = base_oracle(cand, o2, cx, 0)
                else:
                    b, _ = oracle_fn(cand, o2)
            except Exception:
                return False
            return bool(b) and b[0] == sig
        small = shrink(cases[i], pred) if sig not in ("driver-error",) else cases[i]
        o2 = S.run_impl([small], nproc=1)[0]
        if prepare:
            b, _ = base_oracle(small, o2, prepare([small], [o2]), 0)
        else:
            b, _ = oracle_fn(small, o2)
        run.violation(sig, (b or (sig, what))[1], {"case": small, "impl_observation": o2,
                                                   "how": "feed [case] as JSON list to harness/sim_driver.py with PYTHONPATH=/repo/src"})

    codes, err = S.coq_compare(pid, cases, obs)
    if err:
        run.violation("correspondence-not-evaluable", err, {}, found_input=False)
        return run.finish()
    n_dis = sum(1 for x in codes if x == 1)
    n_unc = sum(1 for x in codes if x == 2)
    run.cov["traces_validated_against_impl"] = sum(1 for x in codes if x == 0)
    run.cov["model_impl_mismatches"] = n_dis
    run.cov["cases_outside_model"] = n_unc
    run.cov["cases_not_representable"] = sum(1 for x in codes if x == 3)
    if n_dis and not first_bad:
        found = neighbourhood_search(run, pid, [cases[j] for j, x in enumerate(codes) if x == 1][:6], oracle_fn if not prepare else base_oracle,
                                     prepare, rng)
        if found:
            return run.finish()
        i = codes.index(1)
        view = S.coq_view(pid, cases[i], obs[i])
        run.violation("model-impl-disagree",
                      "correspondence Sim.Case.case_code no longer matches the implementation but no clause of the property "
                      "was found violated by the oracle",
                      {"case": cases[i], "impl_observation": obs[i], "model_view": view, "relation": "Sim.Case.case_code"},
                      found_input=False)
    if tree.broken() and not first_bad:
        # the regenerated model differs from the proved one and neither the oracle nor the search around the
        # model / implementation disagreements produced an input that violates the property itself
        T.report_broken_tie(run, tree, {"model_impl_mismatching_cases": n_dis})
    if not proofs_ok and not run.violations:
        run.violation("proof-broken", f"a {pid} proof obligation no longer checks: " + getattr(run, "proof_log", "")[-800:],
                      {"theorems": run.cov.get("theorems")}, found_input=False)
    return run.finish()


def replay_generic(path: str, pid: str, oracle_fn, prepare=None) -> int:
    """./check Cxx --replay <file>: re-run the recorded failing input on the implementation and
    judge it with the model-independent oracle."""
    body = json.loads(Path(path).read_text())
    case = body.get("case")
    if not case:
        print(f"nothing replayable in {path} (no concrete input was found for this violation: {body.get('what', '')[:200]})")
        return 1 if body.get("property") == pid else 2
    obs = S.run_impl([case], nproc=1)[0]
    if prepare:
        bad, _ = oracle_fn(case, obs, prepare([case], [obs]), 0)
    else:
        bad, _ = oracle_fn(case, obs)
    if bad:
        print(f"VIOLATION property={pid} replay={path}")
        print(f"  {bad[0]}: {bad[1]}")
        return 1
    print(f"replay passes on this tree: property={pid} input={json.dumps(case)[:300]}")
    return 0


def replay(path: str) -> int:
    return replay_generic(path, PID, oracle)


if __name__ == "__main__":
    sys.exit(main(sys.argv[1] if len(sys.argv) > 1 else "quick"))
