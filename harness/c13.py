"""C13 - seed updates depend only on stream name, seed and replication number.

Tie: configurations (updater, seed table, fallback, named streams in dict order,
a sequence of update_seeds / update_seed calls) are evaluated by the real
classes of /repo in several child interpreters started with different
PYTHONHASHSEED values; seed() of every stream after every call and the
exception raised must agree with the Gallina model Streams.Seeds (repaired
behaviour: deterministic name hash transcribed as str_hash, fallback for
unlisted streams) inside coqc.

The oracle is independent of the Coq model: identical observations in every
process; per-name results equal under permuted dict / table order and different
current seeds; listed streams get table[name][r]; unlisted streams get what
the fallback updater alone assigns; refused replication numbers raise and leave
the refused streams unchanged; first draws equal random.Random(seed).

Second tie: on every run the bodies of SimpleStreamUpdater.update_seed,
StreamSeedUpdater.update_seed and StreamUpdater.update_seeds are translated from
the source text of the tree under test (translator/py2gallina_streams.py,
fail-closed) and coq/Streams/GenAgree.v proves the translated definitions equal
to the hand-written model; the last section of Props/C13.v is re-checked against
them (c12lib.StreamsTree).  When that tie breaks, more configurations are
searched with the oracle for a concrete failing input; only if none is found
the line ends no-failing-input-found.
"""
from __future__ import annotations

import json
import random
import sys
from pathlib import Path

sys.path.insert(0, str(Path(__file__).resolve().parent))
import common as C
import c12lib as L

PID = "C13"
# built in coq/ (independent of the source text); Gen_Streams / GenAgree / Props are compiled per tree (c12lib.StreamsTree)
TARGETS = ["Streams/SeedsProofs.vo"]
DRIVER = Path(__file__).resolve().parent / "c13_impl.py"
N_BAD_KEYS, N_BAD_STREAMS, N_ILL_R = 5, 4, 5

NAMES = ["default", "", "a", "b", "ab", "ba", "arrivals", "service", "Default", "default ", "stream-1", "stream-2",
         "ü", "naïve", "名前", "\U0001F600", "x" * 40, "\x00", "\ud800", "s/1", "1"]
SEEDS = [0, 1, -1, 10, 101, -7, 2 ** 31, 2 ** 32 - 1, 2 ** 63, 2 ** 64 + 5, -(2 ** 64 + 5), 2 ** 130 + 12345]


# ------------------------------------------------------------------ generation
def gen_r(rng: random.Random, maxlen: int):
    x = rng.random()
    if x < 0.58:
        return rng.randint(0, max(1, maxlen - 1))
    if x < 0.66:
        return rng.randint(0, maxlen + 2)
    if x < 0.74:
        return rng.choice([0, 1, 2, 3, 5, 17, 1000, 2 ** 31, 2 ** 70])
    if x < 0.82:
        return -rng.choice([1, 1, 2, 7, 2 ** 40])
    if x < 0.90:
        return {"ill": rng.randrange(N_ILL_R)}
    if x < 0.94:
        return rng.random() < 0.5            # bool is an int in Python
    return rng.randint(0, 2)


def gen_table(rng, names):
    tbl = []
    for n in names:
        k = rng.choice([0, 2, 3, 4, 5, 6, 8])
        seeds = [rng.choice(SEEDS + [rng.randint(-10 ** 6, 10 ** 6)]) for _ in range(k)]
        if k >= 2 and rng.random() < 0.35:          # equal consecutive entries ([5, 5, 6]): two replications on one seed
            j = rng.randrange(k - 1)
            seeds[j + 1] = seeds[j]
        tbl.append([n, seeds])
    return tbl


def gen_case(rng: random.Random):
    ns = rng.choice([1, 2, 3, 3, 4, 5, 6])
    names = rng.sample(NAMES, ns)
    streams = []
    for n in names:
        x = rng.random()
        orig = rng.choice(SEEDS + [rng.randint(-10 ** 9, 10 ** 9)])
        cur = orig if rng.random() < 0.6 else rng.choice(SEEDS)
        if x < 0.94:
            streams.append({"kind": "stream", "name": n, "orig": orig, "cur": cur})
        elif x < 0.97:
            streams.append({"kind": "badkey", "name": "", "bad": rng.randrange(N_BAD_KEYS), "orig": orig, "cur": cur})
        else:
            streams.append({"kind": "badstream", "name": n, "bad": rng.randrange(N_BAD_STREAMS), "orig": 0, "cur": 0})
    # two bad keys of the same value would collapse into one dict entry
    seen = set()
    for s in streams:
        if s["kind"] == "badkey":
            while s["bad"] in seen:
                s["bad"] = (s["bad"] + 1) % N_BAD_KEYS
            seen.add(s["bad"])
    if rng.random() < 0.35:
        upd = {"kind": "simple"}
        maxlen = 3
    else:
        listed = [n for n in names if rng.random() < 0.55] + [n for n in rng.sample(NAMES, 2) if n not in names and rng.random() < 0.5]
        rng.shuffle(listed)
        x = rng.random()
        if x < 0.6:
            fb = {"kind": "simple"}
        elif x < 0.8:
            fb = {"kind": "custom", "a": rng.randint(-5, 10 ** 6), "b": rng.randint(-3, 1000)}
        else:
            rest = [n for n in names if n not in listed]
            fb = {"kind": "nested", "table": gen_table(rng, [n for n in rest if rng.random() < 0.6])}
        upd = {"kind": "table", "table": gen_table(rng, listed), "fb": fb}
        maxlen = max([len(v) for _, v in upd["table"]] + [1])
    calls = []
    last = None
    for _ in range(rng.randint(1, 4)):
        x = rng.random()
        if last is not None and x < 0.25:
            r = last                                  # the same replication number again
        elif last is not None and not isinstance(last, (dict, bool)) and x < 0.35:
            r = last + 1                              # the next one (equal consecutive table entries)
        elif x < 0.45:
            r = 0                                     # fallback: seed = original seed + 0
        else:
            r = gen_r(rng, maxlen)
        last = r
        if rng.random() < 0.8:
            calls.append({"all": r})
        else:
            calls.append({"one": rng.randrange(ns), "r": r})
    # the streams are used between the updates: draws from every stream before each call, 2 recorded after it
    pre = [rng.choice([0, 1, 1, 2, 3, 5]) for _ in calls]
    case = {"updater": upd, "streams": streams, "calls": calls, "pre": pre, "post": 2}
    # the seed table is reconfigured (StreamSeedInformation.add_seed_values) between two replications: a stream
    # gets a seed list for the first time, a list is replaced by a shorter / longer / different one
    if upd["kind"] == "table" and len(calls) >= 2 and rng.random() < 0.45:
        reconf = []
        for _ in range(rng.choice([1, 1, 2])):
            at = rng.randint(1, len(calls) - 1)
            listed_now = [k for k, _ in upd["table"]] + [n for _a, n, _v in reconf]
            fresh_names = [s["name"] for s in streams if s["kind"] == "stream" and s["name"] not in listed_now]
            if fresh_names and (not listed_now or rng.random() < 0.5):
                n = rng.choice(fresh_names)
                old_len = 0
            else:
                if not listed_now:
                    continue
                n = rng.choice(listed_now)
                old_len = max([len(v) for k, v in upd["table"] if k == n] + [len(v) for _a, k, v in reconf if k == n])
            k = rng.choice([0, 1, max(0, old_len - 1), max(0, old_len - 2), old_len + 1, old_len + 3, 4])
            reconf.append([at, n, [rng.choice(SEEDS + [rng.randint(-10 ** 6, 10 ** 6)]) for _ in range(k)]])
            # make the call after the step look at the part of the table that changed
            c = calls[at]
            if rng.random() < 0.6:
                r = rng.choice([0, max(0, old_len - 1), max(0, k - 1), k, old_len])
                if "all" in c:
                    c["all"] = r
                else:
                    c["r"] = r
        reconf.sort(key=lambda x: x[0])
        if reconf:
            case["reconf"] = reconf
    # read-only questions about the configuration before an update: get_seed_values(id) / get_seeds()[id] for streams
    # with and (mostly) without a seed list -- answered or refused with KeyError, they must not change anything
    if upd["kind"] == "table" and rng.random() < 0.4:
        snames = [s["name"] for s in streams if s["kind"] == "stream"]
        listed0 = {k for k, _ in upd["table"]}
        unl = [n for n in snames if n not in listed0]
        qs = []
        for _ in range(rng.choice([1, 1, 2, 3])):
            pool = unl if unl and rng.random() < 0.7 else snames
            if pool:
                qs.append([rng.randrange(len(calls)), rng.choice(["get_seed_values", "get_seeds"]), rng.choice(pool)])
        qs.sort(key=lambda x: x[0])
        if qs:
            case["queries"] = qs
    return case


def permuted_sibling(rng: random.Random, case):
    """Same configuration, streams (and seed table) listed in another order,
    other current seeds."""
    sib = json.loads(json.dumps(case))
    rng.shuffle(sib["streams"])
    for s in sib["streams"]:
        if s["kind"] == "stream" and rng.random() < 0.5:
            s["cur"] = rng.choice(SEEDS)
    if sib["updater"]["kind"] == "table":
        rng.shuffle(sib["updater"]["table"])
    # update_seed(i) refers to a position: keep it on the same stream
    pos = {json.dumps([s["kind"], s["name"], s.get("bad")]): i for i, s in enumerate(sib["streams"])}
    for c in sib["calls"]:
        if "one" in c:
            s = case["streams"][c["one"]]
            c["one"] = pos[json.dumps([s["kind"], s["name"], s.get("bad")])]
    return sib


# ------------------------------------------------------------------ oracle (independent of the Coq model)
def is_int_r(r):
    return not isinstance(r, dict)


def table_at(case, ci: int):
    """the seed table as it is configured when call #ci is made: the initial table with the add_seed_values()
    steps case["reconf"] = [[call index, name, seeds], ...] up to and including those made just before call #ci"""
    tbl = [[k, list(v)] for k, v in case["updater"]["table"]]
    for at, n, v in case.get("reconf", []):
        if at <= ci:
            for row in tbl:
                if row[0] == n:
                    row[1] = list(v)
                    break
            else:
                tbl.append([n, list(v)])
    return tbl


def listed_seeds(case, name, ci: int = 0):
    if case["updater"]["kind"] != "table":
        return None
    for k, v in (table_at(case, ci) if case.get("reconf") else case["updater"]["table"]):
        if k == name:
            return v
    return None


_SEQ: dict = {}
STATS = {"updates_to_the_current_seed_of_a_used_stream": 0, "updates_followed_by_compared_draws": 0}


def seq_of(seed: int, n: int):
    """the first n outputs (hex) of a new generator seeded with `seed`: what a stream that was just given
    this seed must draw, whatever it drew before"""
    row = _SEQ.get(seed)
    if row is None or len(row) < n:
        g = random.Random(seed)
        row = [g.random().hex() for _ in range(max(n, 16))]
        _SEQ[seed] = row
    return row


def oracle_case(case, res):
    """Clauses that concern one configuration in one process.  Returns a list of
    (signature, description)."""
    bad = []
    streams = case["streams"]
    cur = [s["cur"] for s in streams]
    pre = case.get("pre") or [0] * len(case["calls"])
    npost = case.get("post", 0)
    # where every stream stands in the sequence of which seed (None: not a stream object)
    gen = [None if s["kind"] == "badstream" else [s["cur"], 0] for s in streams]
    draws_ok = True
    # read-only queries: the list as it is configured at that moment, or refused (KeyError) when there is none
    answers = res.get("queries", [])
    if len(answers) != len(case.get("queries", [])):
        bad.append(("query-not-answered", f"{len(case.get('queries', []))} queries, {len(answers)} answers"))
    for at, how, n, kind, val in answers:
        ls = listed_seeds(case, n, at)
        q = f"{how}({n!r})" if how == "get_seed_values" else f"get_seeds()[{n!r}]"
        if ls is None and not (kind == "raise" and val == "KeyError"):
            bad.append(("query-for-unlisted-stream-answered", f"before call #{at}: {q} for a stream without a seed list gave {kind} {val}"))
        elif ls is not None and not (kind == "value" and val == ls):
            bad.append(("query-for-listed-stream-wrong", f"before call #{at}: {q} gave {kind} {val}, configured is {ls}"))
    fbx = {(i, json.dumps(r)): v for i, r, v in res["fb_expect"]}
    for ci, (c, ob) in enumerate(zip(case["calls"], res["obs"])):
        r = c.get("all", c.get("r"))
        targets = list(range(len(streams))) if "all" in c else [c["one"]]
        seeds, exc = ob["seeds"], ob["exc"]
        where = f"call #{ci} {c}"
        if exc is not None and exc.startswith("returned:"):
            bad.append(("update-returns-a-value", f"{where}: {exc}")); break
        # which targets must be refused / served
        must_refuse, expect = {}, {}
        for i in targets:
            s = streams[i]
            if s["kind"] != "stream":
                must_refuse[i] = "TypeError"
            elif not is_int_r(r):
                must_refuse[i] = "TypeError"
            elif int(r) < 0:
                must_refuse[i] = "ValueError"
            else:
                ls = listed_seeds(case, s["name"], ci)
                if ls is not None:
                    if int(r) >= len(ls):
                        must_refuse[i] = "ValueError"
                    else:
                        expect[i] = ls[int(r)]
                elif case["updater"]["kind"] == "table":
                    v = fbx.get((i, json.dumps(r)))
                    if isinstance(v, str):      # the fallback updater itself refuses (nested table, r beyond its list)
                        must_refuse[i] = v.split(":")[1]
                    else:
                        expect[i] = v
        if "all" in c and not is_int_r(r):
            must_refuse = {i: "TypeError" for i in targets} or {-1: "TypeError"}
        if must_refuse:
            if exc is None:
                kind = ("ill-typed" if not is_int_r(r) else "negative" if int(r) < 0 else "beyond-list-or-ill-typed-entry")
                bad.append((f"{kind}-replication-number-accepted",
                            f"{where}: no exception although {sorted(must_refuse.items())} must be refused; seeds {cur} -> {seeds}"))
            elif exc not in ("TypeError", "ValueError"):
                unl = [streams[i]["name"] for i in targets
                       if streams[i]["kind"] == "stream" and listed_seeds(case, streams[i]["name"], ci) is None]
                if exc == "KeyError" and case["updater"]["kind"] == "table" and unl:
                    bad.append(("unlisted-stream-not-served-by-fallback:KeyError",
                                f"{where}: raised KeyError (streams without a seed list: {unl})"))
                else:
                    bad.append((f"refusal-raises-{exc}", f"{where}: raised {exc}"))
            for i in must_refuse:
                if i >= 0 and seeds[i] != cur[i]:
                    bad.append(("refused-stream-changed",
                                f"{where}: stream #{i} {streams[i]['name']!r} must be refused ({must_refuse[i]}) but its seed "
                                f"went from {cur[i]} to {seeds[i]}"))
            if "all" in c and (not is_int_r(r) or int(r) < 0) and seeds != cur:
                bad.append(("refused-stream-changed", f"{where}: refused for every stream, yet seeds {cur} -> {seeds}"))
        else:
            if exc is not None:
                unl = [streams[i]["name"] for i in targets if listed_seeds(case, streams[i]["name"], ci) is None]
                sig = (f"unlisted-stream-not-served-by-fallback:{exc}" if exc == "KeyError" and case["updater"]["kind"] == "table" and unl
                       else f"valid-update-raises-{exc}")
                bad.append((sig, f"{where}: raised {exc} although every addressed stream has a seed for replication {r} "
                                 f"(unlisted, to be served by the fallback: {unl})"))
            else:
                for i, v in expect.items():
                    if v is not None and seeds[i] != v:
                        ls = listed_seeds(case, streams[i]["name"], ci)
                        sig = "listed-stream-not-given-its-table-seed" if ls is not None else "unlisted-stream-not-given-fallback-seed"
                        bad.append((sig, f"{where}: stream {streams[i]['name']!r} got seed {seeds[i]}, expected {v}"))
                for i in range(len(streams)):
                    if i not in targets and seeds[i] != cur[i]:
                        bad.append(("other-stream-changed", f"{where}: stream #{i} not addressed but seed {cur[i]} -> {seeds[i]}"))
        # ---- the numbers drawn after the call.  A stream that the call gave a seed (all addressed streams of an
        # accepted call; in a refused update_seeds the streams in front of the first refused one) must draw the
        # sequence of a NEW generator with that seed, however many numbers it drew before; every other stream goes on
        # where it was.
        if must_refuse and exc in ("TypeError", "ValueError"):
            first = min(must_refuse)
            updated = [i for i in targets if 0 <= first and i < first] if "all" in c else []
        elif not must_refuse and exc is None:
            updated = list(targets)
        else:
            updated, draws_ok = [], False          # the call itself went wrong (reported above): nothing to predict
        for i, g in enumerate(gen):
            if g is not None:
                g[1] += pre[ci]
        if draws_ok and not bad:
            for i in updated:
                if gen[i] is not None and isinstance(seeds[i], int):
                    if seeds[i] == cur[i] and gen[i][1] > 0:
                        STATS["updates_to_the_current_seed_of_a_used_stream"] += 1
                    STATS["updates_followed_by_compared_draws"] += 1
                    gen[i] = [seeds[i], 0]
            for i, g in enumerate(gen):
                d_i = ob.get("draws", [None] * len(gen))[i]
                if npost and g is not None and isinstance(d_i, str):
                    bad.append(("draw-after-update-raises", f"{where}: next_float() of stream #{i} {streams[i]['name']!r} gives {d_i}"))
                    draws_ok = False
                    break
                if not npost or g is None or not isinstance(d_i, list):
                    continue
                got = ob["draws"][i]
                want = seq_of(g[0], g[1] + npost)[g[1]:g[1] + npost]
                if got != want:
                    if i in updated:
                        same = seeds[i] == cur[i]
                        sig = "update-to-the-current-seed-does-not-restart-the-stream" if same else "draws-after-update-not-from-assigned-seed"
                        bad.append((sig, f"{where}: stream #{i} {streams[i]['name']!r} was given seed {seeds[i]}"
                                         + (" (equal to its current seed)" if same else "") +
                                         f" after drawing numbers; its next {npost} draws are {got}, a new generator with that seed draws {want} - "
                                         "the numbers of this replication depend on what was drawn before the update"))
                    else:
                        bad.append(("draws-of-stream-not-updated-disturbed",
                                    f"{where}: stream #{i} {streams[i]['name']!r} was not given a seed by this call; it draws {got}, "
                                    f"its sequence (seed {g[0]}, position {g[1]}) continues {want}"))
                    draws_ok = False
                    break
                g[1] += npost
        cur = seeds
    # first draws after the last call
    for i, s in enumerate(streams):
        if draws_ok and not bad and gen[i] is not None and isinstance(cur[i], int) and res["draws"][i] is not None:
            if res["draws"][i] != seq_of(gen[i][0], gen[i][1] + 1)[gen[i][1]]:
                bad.append(("first-draw-not-from-assigned-seed", f"stream #{i}: seed {cur[i]} (position {gen[i][1]}) but draws {res['draws'][i]}"))
    return bad


def by_name_after_success(case, res):
    """(call index -> {name: seed}) for update_seeds calls that went through."""
    out = {}
    for ci, (c, ob) in enumerate(zip(case["calls"], res["obs"])):
        if "all" in c and ob["exc"] is None:
            out[ci] = {json.dumps([s["kind"], s["name"], s.get("bad")]): ob["seeds"][i]
                       for i, s in enumerate(case["streams"]) if s["kind"] != "badstream"}
    return out


def reached_hash_path(case, res) -> bool:
    if len([s for s in case["streams"] if s["kind"] == "stream"]) < 2:
        return False
    u = case["updater"]
    for ci, (c, ob) in enumerate(zip(case["calls"], res["obs"])):
        r = c.get("all")
        if r is None or isinstance(r, dict) or ob["exc"] is not None or int(r) <= 0:
            continue
        if u["kind"] == "simple":
            return True
        if u["fb"]["kind"] in ("simple", "nested"):
            inner = {k for k, _ in u["fb"].get("table", [])}
            if any(s["kind"] == "stream" and listed_seeds(case, s["name"], ci) is None and s["name"] not in inner
                   for s in case["streams"]):
                return True
    return False


# ------------------------------------------------------------------ Coq emission
ZI_HEADER = ["From Coq Require Import Uint63.", "Definition zi (i : int) : Z := Uint63.to_Z i.", "Arguments zi _%uint63.",
             "Definition zbig (l : list int) : Z := fold_left (fun acc d => Z.shiftl acc 62 + Uint63.to_Z d) l 0."]


def cz(n):
    # Coq interprets a decimal Z literal at ~60 us per digit (a 300-digit one takes 0.4 s); primitive 63-bit
    # integer literals are parsed natively (20 x faster); larger numbers are given by their base-2^62 digits
    a = abs(n)
    if a < 1000:
        t = str(a)
    elif a < 2 ** 62:
        t = f"(zi {a})"
    else:                       # big-endian digits in base 2^62
        ds = []
        while a:
            ds.append(a & (2 ** 62 - 1)); a >>= 62
        t = "(zbig [" + "; ".join(str(d) for d in reversed(ds)) + "]%uint63)"
    return f"(- {t})" if n < 0 else t


def cname(s: str):
    return C.clist(str(ord(ch)) for ch in s)


def ctable(tbl):
    return C.clist(f"({cname(k)}, {C.clist(cz(x) for x in v)})" for k, v in tbl)


def cupdater(u):
    if u["kind"] == "simple":
        return "USimple"
    fb = u["fb"]
    if fb["kind"] == "simple":
        f = "FSimple"
    elif fb["kind"] == "custom":
        f = f"(FCustom {cz(fb['a'])} {cz(fb['b'])})"
    else:
        f = f"(FNested {ctable(fb['table'])})"
    return f"(UTable {ctable(u['table'])} {f})"


def centry(s):
    kind = {"stream": "KStream", "badkey": "KBadKey", "badstream": "KBadStream"}[s["kind"]]
    return f"(mkE {kind} {cname(s['name'])} {cz(s['orig'])} {cz(s['cur'])})"


def crepl(r):
    if isinstance(r, dict):
        return "RIllTyped"
    return f"(RInt {cz(int(r))})"


def cobs(c, ob):
    call = f"(CAll {crepl(c['all'])})" if "all" in c else f"(COne {c['one']}%nat {crepl(c['r'])})"
    exc = {None: "None", "TypeError": "(Some ETypeError)", "ValueError": "(Some EValueError)",
           "KeyError": "(Some EKeyError)"}.get(ob["exc"])
    seeds = [x if isinstance(x, int) else None for x in ob["seeds"]]
    if exc is None or None in seeds:
        return None
    return f"({call}, {C.clist(cz(x) for x in seeds)}, {exc})"


def segments(case, res):
    """Coq cases of one configuration: the model's updater is fixed within a case, so a configuration whose
    seed table is reconfigured is cut at those calls; a later piece starts from the seeds observed before it"""
    n = len(case["calls"])
    cuts = sorted({at for at, _n, _v in case.get("reconf", []) if 0 < at < n})
    bounds = [0] + cuts + [n]
    out = []
    for a, b in zip(bounds, bounds[1:]):
        u = case["updater"]
        if case.get("reconf"):
            u = dict(u, table=table_at(case, a))
        streams = case["streams"]
        if a > 0:
            prev = res["obs"][a - 1]["seeds"]
            if not all(isinstance(x, int) for x in prev):
                return None
            streams = [dict(s, cur=prev[i]) for i, s in enumerate(streams)]
        obs = []
        for ci in range(a, b):
            before = [s["cur"] for s in case["streams"]] if ci == 0 else res["obs"][ci - 1]["seeds"]
            for at, _how, n, kind, val in res.get("queries", []):
                if at == ci:
                    if not all(isinstance(x, int) for x in before):
                        return None
                    exc = "None" if kind == "value" else "(Some EKeyError)" if val == "KeyError" else None
                    if exc is None:
                        return None
                    listed = listed_seeds(case, n, ci) is not None
                    obs.append(f"(CQuery {C.cbool(listed)}, {C.clist(cz(x) for x in before)}, {exc})")
            obs.append(cobs(case["calls"][ci], res["obs"][ci]))
        if None in obs:
            return None
        out.append(f"({cupdater(u)}, {C.clist(centry(s) for s in streams)}, {C.clist(obs)})")
    return out


def emit_cases(path: Path, cases, results):
    """-> owners: for every Coq case of the file the index (within `cases`) of the configuration it belongs to"""
    lines = ["From Coq Require Import ZArith List.", "From PV Require Import Streams.Seeds.",
             "Import ListNotations.", "Open Scope Z_scope."] + ZI_HEADER
    hashes = {}
    items, owners = [], []
    for k, (case, res) in enumerate(zip(cases, results)):
        for n, h in res["hashes"]:
            hashes[n] = h
        segs = segments(case, res)
        if segs is None:      # not representable (unexpected exception / value): a certain mismatch
            segs = [f"({cupdater(case['updater'])}, {C.clist(centry(s) for s in case['streams'])}, [(CAll RIllTyped, [], None)])"]
        items += segs
        owners += [k] * len(segs)
    lines.append(f"Definition htbl : list (name * Z) := {C.clist(f'({cname(n)}, {cz(h)})' for n, h in sorted(hashes.items()))}.")
    lines.append("Definition cases : list case := [")
    lines.append(";\n".join(items))
    lines.append("].")
    lines.append("Eval vm_compute in (mismatches_from 0 case_ok cases).")
    lines.append("Eval vm_compute in (mismatches_from 0 (case_ok_pinned htbl) cases).")
    path.write_text("\n".join(lines) + "\n")
    return owners


# ------------------------------------------------------------------ corpus
CORPUS = [
    {"updater": {"kind": "simple"}, "streams": [{"kind": "stream", "name": "default", "orig": 10, "cur": 10}],
     "calls": [{"all": 3}]},
    {"updater": {"kind": "table", "table": [["a", [1, 2, 3]]], "fb": {"kind": "simple"}},
     "streams": [{"kind": "stream", "name": "a", "orig": 5, "cur": 5}, {"kind": "stream", "name": "b", "orig": 2, "cur": 2}],
     "calls": [{"all": 1}, {"all": 3}, {"all": -1}, {"all": {"ill": 0}}, {"one": 1, "r": 2}]},
    {"updater": {"kind": "table", "table": [["x", []]], "fb": {"kind": "custom", "a": 7, "b": 100}},
     "streams": [{"kind": "stream", "name": "名前", "orig": -(2 ** 64 + 5), "cur": 0},
                 {"kind": "stream", "name": "", "orig": 2 ** 130 + 12345, "cur": 1}],
     "calls": [{"all": 2 ** 70}, {"all": True}, {"all": 0}]},
]


def shrink_case(case, sig, hashseed):
    """smaller configurations (one stream alone, a prefix of the calls) that still violate the same clause: all
    candidates are evaluated in one child interpreter, the smallest failing one is the replay"""
    cands = []
    ncalls = len(case["calls"])
    for n in range(1, ncalls + 1):
        for i, st in enumerate(case["streams"]):
            calls = []
            for c in case["calls"][:n]:
                if "all" in c:
                    calls.append(dict(c))
                elif c["one"] == i:
                    calls.append({"one": 0, "r": c["r"]})
                else:
                    calls.append(None)
            keep = [k for k, c in enumerate(calls) if c is not None]
            if not keep:
                continue
            pre_all = case.get("pre") or [0] * ncalls
            pre, acc = [], 0
            for k in range(n):
                acc += pre_all[k]
                if calls[k] is not None:
                    pre.append(acc)
                    acc = 0
                else:
                    acc += case.get("post", 0)      # the draws recorded after a dropped call still happen before the next one
            cand = {"updater": case["updater"], "streams": [st], "calls": [calls[k] for k in keep], "pre": pre,
                    "post": case.get("post", 0)}
            rc = [[len([k for k in keep if k < at]), nm, v] for at, nm, v in case.get("reconf", []) if at < n]
            rc = [x for x in rc if x[0] < len(keep)]
            if rc:
                cand["reconf"] = rc
            qc = [[len([k for k in keep if k < at]), how, nm] for at, how, nm in case.get("queries", []) if at < n]
            qc = [x for x in qc if x[0] < len(keep)]
            if qc:
                cand["queries"] = qc
            cands.append(cand)
    try:
        outs = C.run_impl_json(DRIVER, cands, timeout=120, env_extra={"PYTHONHASHSEED": hashseed})
    except Exception:  # noqa
        return None, None, None
    for cand, o in zip(cands, outs):
        for s2, w2 in oracle_case(cand, o):
            if s2 == sig:
                return cand, o, w2
    return None, None, None


# ------------------------------------------------------------------ main
def run_children(cases, hashseeds, timeout=600):
    from concurrent.futures import ThreadPoolExecutor
    with ThreadPoolExecutor(max_workers=len(hashseeds)) as ex:
        return list(ex.map(lambda hs: C.run_impl_json(DRIVER, cases, timeout=timeout, env_extra={"PYTHONHASHSEED": hs}),
                           hashseeds))


def main(tier: str) -> int:
    run = C.Run(PID, tier)
    try:
        tree = L.StreamsTree().prepare()
    except Exception as exc:  # noqa
        run.violation("translated-model-not-buildable", f"the model could not be regenerated from the source: {type(exc).__name__}: {exc}",
                      {"unchecked": "coq/Streams/GenAgree.v"}, found_input=False)
        return run.finish()
    proofs_ok = L.check_proofs(run, tree, TARGETS, extra_tb=[
        "the interpreter's per-process str hash is a parameter H of the pinned model (refuted clause); the repaired code's name hash "
        "is transcribed in Gallina (Streams.Seeds.str_hash) and executed in the correspondence",
        "every configuration is evaluated in several child interpreters with different PYTHONHASHSEED; that these cover the "
        "interpreter's per-process variation is trusted",
    ])
    rng = random.Random(run.seed * 15485863 + 13)
    n_random = 2500 if tier == "quick" else 30000
    cases, sibling_of = [], {}
    corpus = C.VERIF / "corpus" / "C13.json"
    if corpus.exists():
        cases += json.loads(corpus.read_text())
    n_corpus = len(cases)
    while len(cases) < n_corpus + n_random:
        c = gen_case(rng)
        cases.append(c)
        if rng.random() < 0.4:
            sibling_of[len(cases)] = len(cases) - 1
            cases.append(permuted_sibling(rng, c))
    hashseeds = ["0", "1", str(rng.randrange(2, 2 ** 32))] + (["random"] if tier == "thorough" else [])
    try:
        per_child = run_children(cases, hashseeds)
    except Exception as exc:
        run.violation("harness-cannot-run-implementation",
                      f"running the configurations on the implementation failed: {type(exc).__name__}: {str(exc)[-1500:]}",
                      {"hashseeds": hashseeds}, found_input=False)
        return run.finish()
    base = per_child[0]

    failures: dict = {}

    def note(sig, what, replay):
        if sig not in failures:
            failures[sig] = (what, replay)

    nontriv = set()
    hist = {"update_seeds": 0, "update_seed": 0, "accepted": 0, "TypeError": 0, "ValueError": 0, "other_exception": 0,
            "simple": 0, "table_fb_simple": 0, "table_fb_custom": 0, "table_fb_nested": 0}

    def analyse(cases, sibling_of, per_child, hist, nontriv):
        """evaluate the clauses of the property on the observations of one batch of configurations"""
        base = per_child[0]
        for idx, case in enumerate(cases):
            res = base[idx]
            u = case["updater"]
            hist["simple" if u["kind"] == "simple" else "table_fb_" + u["fb"]["kind"]] += 1
            for c, ob in zip(case["calls"], res["obs"]):
                hist["update_seeds" if "all" in c else "update_seed"] += 1
                hist["accepted" if ob["exc"] is None else ob["exc"] if ob["exc"] in ("TypeError", "ValueError") else "other_exception"] += 1
            # (1) the same in every process
            for k in range(1, len(per_child)):
                o = per_child[k][idx]
                if (o["obs"] != res["obs"] or o["draws"] != res["draws"]) and "seed-differs-between-processes" not in failures:
                    ci = next(i for i in range(len(res["obs"])) if o["obs"][i] != res["obs"][i]) if o["obs"] != res["obs"] else 0
                    si = next((i for i in range(len(case["streams"])) if o["obs"][ci]["seeds"][i] != res["obs"][ci]["seeds"][i]), 0)
                    s = case["streams"][si]
                    r = case["calls"][ci].get("all", case["calls"][ci].get("r"))
                    small = {"updater": case["updater"], "streams": [dict(s, cur=s["orig"])], "calls": [{"all": r}]}
                    try:
                        outs = run_children([small], hashseeds)
                        got = {hs: o2[0]["obs"][0] for hs, o2 in zip(hashseeds, outs)}
                    except Exception:
                        got = {}
                    if len({json.dumps(v) for v in got.values()}) > 1:
                        note("seed-differs-between-processes",
                             f"stream {s['name']!r} with original seed {s['orig']}, replication {r}, updater {case['updater']['kind']}: "
                             f"seed() after update_seeds per PYTHONHASHSEED = { {hs: v['seeds'][0] for hs, v in got.items()} }",
                             {"case": small, "observations_per_PYTHONHASHSEED": got,
                              "how": "PYTHONHASHSEED=<n> python harness/c13_impl.py < [case] with PYTHONPATH=/repo/src"})
                    else:
                        note("seed-differs-between-processes",
                             f"configuration #{idx} gives different seeds in processes with PYTHONHASHSEED {hashseeds[0]} and {hashseeds[k]}",
                             {"case": case, "observations": {hashseeds[0]: res["obs"], hashseeds[k]: o["obs"]}})
                    break
            # (2)-(5) clauses on one configuration
            for sig, what in oracle_case(case, res):
                if sig in failures:
                    continue
                small, sres, swhat = shrink_case(case, sig, hashseeds[0])
                note(sig, swhat or what, {"case": small or case, "observations": (sres or res)["obs"], "PYTHONHASHSEED": hashseeds[0],
                                          "how": "python harness/c13_impl.py < [case] with PYTHONPATH=/repo/src; before call i every stream "
                                                 "draws pre[i] numbers, after it `post` numbers are recorded per stream (observations.draws)"})
            # permuted order / other current seeds: same seeds by name
            if idx in sibling_of:
                a, b = cases[sibling_of[idx]], case
                ra, rb = by_name_after_success(a, base[sibling_of[idx]]), by_name_after_success(b, res)
                for ci in ra:
                    if ci not in rb:
                        note("refusal-depends-on-stream-order", f"call #{ci} accepted in one listing order, refused in another",
                             {"case": a, "permuted": b}); break
                    if ra[ci] != rb[ci]:
                        diff = [k for k in ra[ci] if ra[ci][k] != rb[ci].get(k)]
                        note("seed-depends-on-order-or-current-seed",
                             f"call #{ci}: streams {diff} get different seeds when the same configuration is listed in another order "
                             f"with other current seeds: {[(ra[ci][k], rb[ci].get(k)) for k in diff]}",
                             {"case": a, "permuted": b, "observations": base[sibling_of[idx]]["obs"], "observations_permuted": res["obs"]})
                        break
            # history-free within a case: the same replication number twice
            done = {}
            recuts = {at for at, _n, _v in case.get("reconf", [])}
            for ci, (c, ob) in enumerate(zip(case["calls"], res["obs"])):
                if ci in recuts:
                    done = {}                   # another table: another function of (name, r)
                if "all" in c and ob["exc"] is None and not isinstance(c["all"], dict):
                    key = int(c["all"])
                    if key in done and done[key][1] != ob["seeds"]:
                        note("seed-depends-on-earlier-updates",
                             f"replication {key} requested twice (calls #{done[key][0]} and #{ci}) gives {done[key][1]} then {ob['seeds']}",
                             {"case": case, "observations": res["obs"]})
                    done[key] = (ci, ob["seeds"])
            if reached_hash_path(case, res):
                nontriv.add(json.dumps(case, sort_keys=True))

    analyse(cases, sibling_of, per_child, hist, nontriv)

    run.cov["evaluations"] = len(cases) * len(hashseeds)
    run.cov["configurations"] = len(cases)
    run.cov["child_interpreters_PYTHONHASHSEED"] = hashseeds
    run.cov["distinct_nontrivial"] = len(nontriv)
    run.cov["rule"] = ("random configurations: 1-6 named streams (names incl. empty, non-ASCII, astral, NUL, lone surrogate; ~10% ill-typed keys / "
                       "stream objects), SimpleStreamUpdater or StreamSeedUpdater with random seed table and simple / custom / nested fallback, "
                       "1-4 update_seeds / update_seed calls with replication numbers valid, repeated, 0, beyond the list, negative, ill-typed, bool, huge, "
                       "the streams drawing numbers before and after every call; the seed table configured through StreamSeedInformation."
                       "add_seed_values / get_seeds and, in 45% of the table configurations with >= 2 calls, reconfigured between two calls "
                       "(a new stream listed, a list replaced by a shorter / longer one); in 40% of the table configurations read-only queries "
                       "(get_seed_values(id) / get_seeds()[id], mostly for streams without a seed list) precede an update; "
                       "40% of the configurations re-run listed in another order with other current seeds; every configuration in "
                       f"{len(hashseeds)} child interpreters; non-trivial = distinct configuration with >= 2 streams in which an accepted update_seeds "
                       "with r > 0 reached the name-hash path (simple updater, or simple/nested fallback for an unlisted stream)")
    run.cov["histogram"] = hist
    run.cov["configurations_with_reconfigured_seed_table"] = sum(1 for c in cases if c.get("reconf"))
    run.cov["read_only_queries_before_updates"] = sum(len(c.get("queries", [])) for c in cases)
    run.cov["draws"] = dict(STATS, rule="0-5 numbers drawn from every stream before each call, the 2 draws of every stream after each call "
                            "compared with a new random.Random(assigned seed) (updated streams) or with the continuation of its sequence (others); "
                            "25% of the calls repeat the previous replication number, 35% of the seed lists have equal consecutive entries")
    run.cov["permuted_sibling_pairs"] = len(sibling_of)
    for idx in range(n_corpus, min(n_corpus + 2, len(cases))):
        run.add_sample({"case": cases[idx], "observations": base[idx]["obs"]})

    # ---- the regenerated model no longer equals the proved one: look harder for a concrete failing input
    tie = tree.broken_for(PID)
    if tie and not failures:
        rng2 = random.Random(run.seed * 7919 + 1313)
        cases2, sibling2 = [], {}
        while len(cases2) < n_random:
            c = gen_case(rng2)
            cases2.append(c)
            if rng2.random() < 0.4:
                sibling2[len(cases2)] = len(cases2) - 1
                cases2.append(permuted_sibling(rng2, c))
        try:
            analyse(cases2, sibling2, run_children(cases2, hashseeds), dict.fromkeys(hist, 0), set())
        except Exception:  # noqa
            pass
        run.cov["extra_configurations_searched_after_broken_tie"] = len(cases2)

    for sig, (what, replay) in failures.items():
        run.violation(sig, what, replay)

    # ---- model vs implementation inside coqc
    d = C.scratch_dir(PID)
    shard = 400
    files, owners = [], []
    for s in range(0, len(cases), shard):
        f = d / f"cases_c13_{s // shard}.v"
        owners.append(emit_cases(f, cases[s:s + shard], base[s:s + shard]))
        files.append(f)
    results = C.coqc_many(files)
    mism, mism_pinned = [], []
    for si, (rc, out) in enumerate(results):
        lsts = C.parse_nat_lists(out)
        if rc != 0 or len(lsts) != 2:
            run.violation("correspondence-not-evaluable",
                          "coqc could not evaluate the C13 correspondence (Streams.Seeds.case_ok): " + out[-600:],
                          {"file": str(files[si])}, found_input=False)
            return run.finish()
        mism += sorted({si * shard + owners[si][i] for i in lsts[0]})
        mism_pinned += sorted({si * shard + owners[si][i] for i in lsts[1]})
    run.cov["traces_validated_against_impl"] = len(cases) - len(mism)
    run.cov["model_impl_mismatches"] = len(mism)
    run.cov["configurations_matching_the_pinned_model_with_this_process_hash"] = len(cases) - len(mism_pinned)
    if mism and not failures:
        case = cases[mism[0]]
        run.violation("model-impl-disagree",
                      "correspondence Streams.Seeds.case_ok (repaired updaters, str_hash) no longer matches the implementation, but no "
                      "clause of the property is violated on any explored configuration"
                      + ("; the observations agree with the pinned model given this process's hash values"
                         if mism[0] not in mism_pinned else ""),
                      {"case": case, "observations": base[mism[0]]["obs"], "relation": "Streams.Seeds.case_ok",
                       "mismatching_cases": len(mism)}, found_input=False)
    if tie and not failures:
        L.report_broken_tie(run, tree, "the clause-by-clause oracle on the observations of every child interpreter",
                            {"model_impl_mismatching_cases": len(mism)})
    if not proofs_ok and not run.violations:
        run.violation("proof-broken", "a C13 proof obligation no longer checks: " + getattr(run, "proof_log", "")[-800:],
                      {"theorems": run.cov.get("theorems")}, found_input=False)
    return run.finish()


if __name__ == "__main__":
    sys.exit(main(sys.argv[1] if len(sys.argv) > 1 else "quick"))
