"""Shared machinery of the two units checks (C16 dispatch / SI strings, C17 conversions / tables).

* Tree: the tables generated from the tree under test, in a directory of their own (translator
  --out), the proof files that depend on them compiled there; check_proofs(): build + re-check of Props
* call specs: JSON descriptions of one observable call on pydsol.core.units; they are
  executed on the real classes (run_call), rendered as Coq terms for Units.Dispatch.eval
  (coq_call / coq_obs), and stored verbatim in replay files
* run_correspondence(): emit cases_*.v shards, run coqc, collect mismatching case indices
* table checks: offender lists computed by Coq over Gen_Tables.v and, independently, by
  Python over the live module
"""
from __future__ import annotations

import hashlib
import json
import math
import os
import re
import subprocess
import sys
from pathlib import Path

sys.path.insert(0, str(Path(__file__).resolve().parent))
import common as C

SI_NAMES = ("rad", "sr", "kg", "m", "s", "A", "K", "mol", "cd")
FORMATS = [(True, "", ""), (True, "^", ""), (True, "", "."), (True, "^", "."),
           (False, "", ""), (False, "^", ""), (False, "", "."), (False, "^", ".")]
EXN = {"ValueError", "TypeError", "ZeroDivisionError", "KeyError", "AttributeError"}
CMP_COQ = {"==": "CEq", "!=": "CNe", "<": "CLt", "<=": "CLe", ">": "CGt", ">=": "CGe"}
GETTERS = {"si": "GSi", "displayvalue": "GDisplayValue", "unit": "GUnit", "str": "GStrSuffix",
           "sisig": "GSisig", "asSI": "GAsSI"}


def slug(s: str) -> str:
    """signature-safe spelling of a unit name (signatures become file names)"""
    import re
    return re.sub(r"[^A-Za-z0-9_.:+-]", lambda m: "_" if m.group(0) in "/ " else "x%02X" % (ord(m.group(0)) & 0xFFFF), s)


class SafeRun(C.Run):
    """Run whose violation signatures are made file-name safe (they become part of the replay path)."""
    def violation(self, signature, what, replay, found_input=True):
        return super().violation(slug(signature), what, replay, found_input)


# ------------------------------------------------------------------ per-tree generated tables
# Every run works on a directory of its own tree: .scratch/units/trees/<key>/ holds the tables
# generated from THAT tree (Gen_Tables.v, Gen_Compound.v, dump.json), copies of the proof files
# that depend on them (GenFacts16/17.v, Props C16/C17) and their .vo, under the logical root PVT.
# <key> is a hash of the tree's units.py and of the sources the generated files depend on, so runs
# against different trees never share a generated file, a finished directory is never stale, and
# switching back to a tree seen before costs nothing.  coq/Units/Gen_*.v (written by tools/regen.sh
# for setup / `build all`) is not touched by the checks.
TREES = C.SCRATCH / "units" / "trees"
STATIC_TARGETS = ["Units/TableProofs.vo", "Units/DispatchProofs.vo", "Units/SIStringProofs.vo", "Units/Pinned.vo",
                  "Units/Dispatch.vo", "Units/SIString.vo"]
TREE_FILES = [("Gen_Tables", None), ("Gen_Compound", None),
              ("GenFacts16", "Units/GenFacts16.v"), ("GenFacts17", "Units/GenFacts17.v")]
TREE_DEPS = {"Gen_Tables": [], "Gen_Compound": [], "GenFacts16": ["Gen_Tables"],
             "GenFacts17": ["Gen_Tables", "Gen_Compound"]}
_GEN_IMPORT = re.compile(r"^From PV Require Import ((?:Units\.(?:Gen_Tables|Gen_Compound|GenFacts16|GenFacts17|Gen_Methods|GenAgree)\s*)+)\.\s*$", re.M)
# the second tie: the method bodies of Quantity / SI translated from the source text (translator/py2gallina_units.py),
# proved equal to the hand-written model (coq/Units/GenAgree.v), in the same per-tree directory
METHOD_TRANSLATOR = C.VERIF / "translator" / "py2gallina_units.py"
AGREE = C.COQ / "Units" / "GenAgree.v"
METHOD_STATIC = ["Units/Dispatch.vo", "Units/SIString.vo", "Units/TableProofs.vo", "Units/DispatchProofs.vo",
                 "Units/SIStringProofs.vo"]
_ITEM = re.compile(r"^[ \t]*(Theorem|Lemma|Definition|Fixpoint)\s+([A-Za-z0-9_']+)", re.M)
_GEN_NAME = re.compile(r"\b(?:gen|dyn)_[A-Za-z0-9_']+|\bpy_construct_type\b")
HAND_ONLY = [
    "which method an expression  x op y  calls (the left operand's own method; the reflected method of the right operand for a "
    "number or str on the left; the mirrored comparison): gen_left_method / gen_reflected in coq/Units/GenAgree.v mirror "
    "Dispatch.left_method / reflected by hand",
    "cls(value, unit) = __new__ followed by __init__, float.__new__, str(float): fixed in the translator's prelude",
    "__repr__, __ceil__, __floor__, __floordiv__, __mod__, __round__, __trunc__, __pow__ of both classes (not in the model)",
    "the exception messages (evaluated for their effects only)",
    "Python semantics fixed in the translator's prelude: type() / isinstance on the value universe (float and int are one kind of "
    "number), dict look-ups in the generated tables, list / str primitives, for = fold, while on explicit fuel",
]
COQ_WARN = "-notation-overridden,-deprecated-hint-without-locality,-abstract-large-number,-inexact-float"


def to_tree_source(text: str) -> str:
    """the same source with the generated modules taken from the per-tree root PVT"""
    return _GEN_IMPORT.sub(lambda m: "From PVT Require Import " + " ".join(x.replace("Units.", "") for x in m.group(1).split()) + ".",
                           text)


def tree_key() -> str:
    h = hashlib.sha1(str(C.REPO.resolve()).encode() + b"\0")
    for f in (C.REPO / "src" / "pydsol" / "core" / "units.py", C.VERIF / "translator" / "dump_units.py",
              C.COQ / "Units" / "Tables.v", C.COQ / "Units" / "Sig.v", METHOD_TRANSLATOR):
        h.update(f.read_bytes())
        h.update(b"\0")
    return h.hexdigest()[:16]


def coqc_tree(tree: Path, path: Path, timeout: int = 600, cwd: Path | None = None):
    cmd = ["timeout", str(timeout), "coqc", "-R", str(C.COQ), "PV", "-R", str(tree), "PVT", "-w", COQ_WARN, str(path)]
    p = subprocess.run(cmd, capture_output=True, text=True, cwd=cwd or path.parent)
    return p.returncode, p.stdout + p.stderr


def coqc_tree_many(tree: Path, paths, timeout: int = 900):
    from concurrent.futures import ThreadPoolExecutor
    with ThreadPoolExecutor(max_workers=C.NPROC) as ex:
        return list(ex.map(lambda q: coqc_tree(tree, q, timeout), paths))


class Tree:
    """The generated tables of the tree under test, built in a directory of their own."""

    def __init__(self):
        self.key = tree_key()
        self.dir = TREES / self.key
        self.log = ""
        self.failed: dict[str, str] = {}        # module -> coqc output

    def prepare(self) -> dict:
        """translate (once per key) and compile what is out of date; returns the JSON dump"""
        import fcntl
        self.dir.mkdir(parents=True, exist_ok=True)
        with open(self.dir / ".lock", "w") as lk:
            fcntl.flock(lk, fcntl.LOCK_EX)
            try:
                if not all((self.dir / n).exists() for n in ("Gen_Tables.v", "Gen_Compound.v", "dump.json")):
                    env = dict(os.environ)
                    env["VERIF_REPO"] = str(C.REPO)
                    env["PYTHONDONTWRITEBYTECODE"] = "1"
                    p = subprocess.run(["timeout", "120", C.PY, str(C.VERIF / "translator" / "dump_units.py"), "--out", str(self.dir)],
                                       capture_output=True, text=True, env=env)
                    if p.returncode != 0:
                        raise RuntimeError("translator failed: " + (p.stderr or p.stdout)[-2000:])
                    self.log = p.stdout.strip()
                    (self.dir / "translator.log").write_text(self.log + "\n")
                else:
                    self.log = (self.dir / "translator.log").read_text().strip() if (self.dir / "translator.log").exists() else ""
                for mod, src in TREE_FILES:
                    if src:
                        text = to_tree_source((C.COQ / src).read_bytes().decode("utf-8")).encode("utf-8")
                        f = self.dir / f"{mod}.v"
                        if not f.exists() or f.read_bytes() != text:
                            f.write_bytes(text)
                self._build()
            finally:
                fcntl.flock(lk, fcntl.LOCK_UN)
        self._sweep()
        dump = json.loads((self.dir / "dump.json").read_text())
        dump["_log"] = self.log + f" [tree {self.key}]"
        if Path(dump.get("repo", "")).resolve() != C.REPO.resolve():
            raise RuntimeError(f"translator dumped {dump.get('repo')} but the check runs against {C.REPO}")
        return dump

    def _build(self):
        static = [C.COQ / "Units" / "Tables.vo"]
        self.failed = {}
        for mod, _ in TREE_FILES:
            v, vo = self.dir / f"{mod}.v", self.dir / f"{mod}.vo"
            deps = [self.dir / f"{d}.vo" for d in TREE_DEPS[mod]] + static
            if any(d in self.failed for d in TREE_DEPS[mod]):
                self.failed[mod] = "a dependency failed"
                continue
            fresh = vo.exists() and vo.stat().st_mtime_ns >= v.stat().st_mtime_ns and \
                all(d.exists() and d.stat().st_mtime_ns <= vo.stat().st_mtime_ns for d in deps)
            if fresh:
                continue
            rc, out = coqc_tree(self.dir, v, cwd=self.dir)
            if rc != 0:
                vo.unlink(missing_ok=True)
                self.failed[mod] = out[-2500:]

    # ------------------------------------------------------------ second tie: method bodies translated from the source
    def prepare_methods(self):
        """translate the method bodies (once per key), compile Gen_Methods.v and the agreement proofs GenAgree.v;
        agreement theorems that no longer check are given up one by one so that each is named"""
        import fcntl
        import time
        self.info, self.failed_theorems, self.gen_error, self.timing = {}, [], "", getattr(self, "timing", {})
        t0 = time.time()
        self.dir.mkdir(parents=True, exist_ok=True)
        with open(self.dir / ".lock", "w") as lk:
            fcntl.flock(lk, fcntl.LOCK_EX)
            try:
                self._translate_methods()
                self._build_methods()
            finally:
                fcntl.flock(lk, fcntl.LOCK_UN)
        self.timing["prepare_methods_s"] = round(time.time() - t0, 2)
        return self

    def _translate_methods(self):
        import time
        j = self.dir / "Gen_Methods.json"
        if not j.exists():
            t0 = time.time()
            env = dict(os.environ)
            env["VERIF_REPO"] = str(C.REPO)
            env["PYTHONDONTWRITEBYTECODE"] = "1"
            p = subprocess.run(["timeout", "120", C.PY, str(METHOD_TRANSLATOR), "--out", str(self.dir), "--keep-going"],
                               capture_output=True, text=True, env=env)
            (self.dir / "translator_methods.log").write_text(p.stdout + p.stderr)
            if not j.exists():
                j.write_text(json.dumps({"ok": False, "repo": str(C.REPO), "methods": [], "definitions": [],
                                         "hand_transcribed_only": [], "failures": [
                    {"class": None, "method": None, "line": 0, "construct": "translator crashed",
                     "error": f"translator exit {p.returncode}: " + (p.stderr or p.stdout)[-1500:]}]}))
            self.timing["translate_methods_s"] = round(time.time() - t0, 2)
        self.info = json.loads(j.read_text())
        if Path(self.info.get("repo", "")).resolve() != C.REPO.resolve():
            raise RuntimeError(f"translator read {self.info.get('repo')} but the check runs against {C.REPO}")

    @staticmethod
    def _fresh(vo: Path, v: Path, deps) -> bool:
        return vo.exists() and vo.stat().st_mtime_ns >= v.stat().st_mtime_ns and \
            all(d.exists() and d.stat().st_mtime_ns <= vo.stat().st_mtime_ns for d in deps)

    def _build_methods(self):
        import time
        static = [C.COQ / v for v in METHOD_STATIC]
        gv, gvo = self.dir / "Gen_Methods.v", self.dir / "Gen_Methods.vo"
        av, avo = self.dir / "GenAgree.v", self.dir / "GenAgree.vo"
        state = self.dir / "agree_state.json"
        src = self.dir / "GenAgree.src.sha1"
        self.gen_error, self.failed_theorems = "", []
        if not gv.exists():
            self.gen_error = "no Gen_Methods.v (translation failed)"
            avo.unlink(missing_ok=True)
            return
        if not self._fresh(gvo, gv, static):
            t0 = time.time()
            rc, out = coqc_tree(self.dir, gv, timeout=300, cwd=self.dir)
            self.timing["coqc_gen_methods_s"] = round(time.time() - t0, 2)
            if rc != 0:
                gvo.unlink(missing_ok=True)
                avo.unlink(missing_ok=True)
                self.gen_error = out[-2500:]
                return
        text = to_tree_source(AGREE.read_text())
        sha = hashlib.sha1(text.encode()).hexdigest()
        if avo.exists() and state.exists() and src.exists() and src.read_text() == sha and \
                all(d.exists() and d.stat().st_mtime_ns <= avo.stat().st_mtime_ns for d in [gvo] + static):
            self.failed_theorems = json.loads(state.read_text())
            return
        t0 = time.time()
        seen = {}

        def note(name, why):
            if name not in seen:
                seen[name] = 0
                self.failed_theorems.append({"theorem": name, "why": why})

        # items that mention a definition the translator had to leave out cannot check: drop them (and what is built on
        # them) before the first compilation
        defined_here = {n for _k, n, _a, _b in self._items(text)}
        have = set(self.info.get("definitions", [])) | set(re.findall(r"^(?:Definition|Fixpoint) ([A-Za-z0-9_']+)", gv.read_text(), re.M))
        missing = {n for n in _GEN_NAME.findall(text) if n not in have and n not in defined_here}
        if missing:
            text = self._drop_dependents(text, missing, note, lambda n, hit: f"uses {hit}, which the translator had to leave out")
        for _ in range(60):
            av.write_text(text)
            rc, out = coqc_tree(self.dir, av, timeout=600, cwd=self.dir)
            if rc == 0:
                break
            m = re.search(r'File "[^"]*GenAgree\.v", line (\d+)', out)
            item = self._item_at(text, int(m.group(1))) if m else None
            err = re.sub(r"\s+", " ", out[out.find("Error"):])[:600]
            if item is None or seen.get(item[1], 0) >= 2:
                avo.unlink(missing_ok=True)
                note("GenAgree.v", out[-1500:])
                break
            kind, name = item[0], item[1]
            note(name, err)
            seen[name] += 1
            # first the proof is given up (the statement stays, nothing is defined); if the statement itself does not check
            # any more the whole item goes; whatever is built on it goes with it
            text = self._abort(text, name) if (kind in ("Theorem", "Lemma") and seen[name] == 1) else self._drop(text, name)
            text = self._drop_dependents(text, {name}, note, lambda n, hit: f"rests on {hit}, which no longer checks")
        state.write_text(json.dumps(self.failed_theorems))
        src.write_text(sha)
        self.timing["coqc_agree_s"] = round(time.time() - t0, 2)

    def _drop_dependents(self, text, names, note, why):
        names = set(names)
        changed = True
        while changed:
            changed = False
            for _kind, n, a, b in self._items(text):
                if n in names:
                    continue
                body = text[a:b]
                hit = next((x for x in names if re.search(r"(?<![A-Za-z0-9_'])" + re.escape(x) + r"(?![A-Za-z0-9_'])", body)), None)
                if hit is not None:
                    note(n, why(n, hit))
                    text = self._drop(text, n)
                    names.add(n)
                    changed = True
                    break
        return text

    @classmethod
    def _items(cls, text: str):
        """(kind, name, start, end) of every theorem (up to its Qed / Defined / Abort) and definition (up to its full stop)"""
        out = []
        for m in _ITEM.finditer(text):
            if out and m.start() < out[-1][3]:
                continue
            head = text[m.end():m.end() + 4000]
            is_proof = m.group(1) in ("Theorem", "Lemma") or (re.search(r"\.\s", head) and
                                                              re.match(r"\s*Proof\b", head[re.search(r"\.\s", head).end():]))
            if is_proof:
                q = re.compile(r"\b(?:Qed|Defined|Abort)\.").search(text, m.end())
            else:
                q = re.compile(r"\.(?=\s|$)").search(text, m.end())
            out.append(("Theorem" if is_proof else m.group(1), m.group(2), m.start(), q.end() if q else len(text)))
        return out

    def _item_at(self, text: str, line: int):
        pos = sum(len(l) + 1 for l in text.split("\n")[:line - 1])
        best = None
        for it in self._items(text):
            if it[2] <= pos + 1:
                best = it
        return best

    def _abort(self, text: str, name: str) -> str:
        """the same file with the proof of one theorem given up (statement kept, nothing defined)"""
        for _k, n, a, b in self._items(text):
            if n == name:
                body = text[a:b]
                i = body.find("Proof.")
                if i < 0:
                    return self._drop(text, name)
                keep_lines = "\n" * body[i:].count("\n")
                return text[:a] + body[:i] + "Proof. Abort. (* no longer checks *)" + keep_lines + text[b:]
        return text

    def _drop(self, text: str, name: str) -> str:
        for _k, n, a, b in self._items(text):
            if n == name:
                keep_lines = "\n" * text[a:b].count("\n")
                return text[:a] + f"(* {name}: no longer checks, left out *)" + keep_lines + text[b:]
        return text

    def agreement_theorems(self):
        return re.findall(r"^[ \t]*Theorem\s+([A-Za-z0-9_']+)", AGREE.read_text(), re.M)

    def broken(self, pid: str | None = None):
        """None when the regenerated methods are proved equal to the hand-written model (for `pid`: as far as the last
        section of coq/Props/<pid>.v uses the agreement); otherwise what no longer checks."""
        fails = self.info.get("failures", [])
        thms = [f for f in self.failed_theorems if f["theorem"]]
        if self.gen_error and not fails:
            return {"stage": "generated file does not compile", "detail": self.gen_error[-1200:], "theorems": []}
        if pid is not None and (thms or fails):
            used = set(re.findall(r"[A-Za-z_][A-Za-z0-9_']*", (C.COQ / "Props" / f"{pid}.v").read_text()))
            rel = [t for t in thms if t["theorem"] in used or t["theorem"] == "GenAgree.v"]
            if not rel:
                return None
            thms = rel + [t for t in thms if t not in rel]
        if fails:
            return {"stage": "translation", "detail": "; ".join(dict.fromkeys(f["error"] for f in fails)),
                    "theorems": [t["theorem"] for t in thms], "failures": fails,
                    "first": thms[0]["theorem"] if thms else None}
        if thms:
            first = next((t for t in self.failed_theorems if not t["why"].startswith(("rests on", "uses "))), thms[0])
            return {"stage": "agreement proof", "detail": first["why"], "theorems": [t["theorem"] for t in thms],
                    "first": first["theorem"]}
        return None

    def coverage(self) -> dict:
        ms = self.info.get("methods", [])
        return {"translator": "translator/py2gallina_units.py (Python ast, fail-closed; units.py is parsed, not imported, by it)",
                "source": self.info.get("source"), "source_sha1": self.info.get("source_sha1"),
                "tree_directory": f".scratch/units/trees/{self.key}",
                "translated_methods": [{"method": f"{m['class']}.{m['method']}", "lines": m["lines"], "as": m["what"],
                                        "text_sha1": m["sha1"]} for m in ms],
                "generated_definitions": self.info.get("definitions", []),
                "translated_text_sha1": self.info.get("translated_text_sha1"),
                "translation_failures": self.info.get("failures", []),
                "agreement_theorems": self.agreement_theorems(),
                "agreement_theorems_not_checking": self.failed_theorems,
                "hand_transcribed_only": list(self.info.get("hand_transcribed_only", [])) + HAND_ONLY,
                "timing": self.timing}

    def _sweep(self):
        """forget the directories of trees not used for a day"""
        import shutil
        import time
        try:
            for d in TREES.iterdir():
                if d.is_dir() and d != self.dir and time.time() - d.stat().st_mtime > 86400:
                    shutil.rmtree(d, ignore_errors=True)
            os.utime(self.dir)
        except OSError:
            pass

    def props_report(self, pid: str) -> dict:
        """re-check coq/Props/<pid>.v against the tables of this tree; theorem names and axioms"""
        text = to_tree_source((C.COQ / "Props" / f"{pid}.v").read_text())
        theorems = re.findall(r"^\s*Theorem\s+([A-Za-z0-9_']+)", text, re.M)
        printed = re.findall(r"^\s*Print Assumptions\s+([A-Za-z0-9_']+)", text, re.M)
        d = self.dir / f"props_{pid}_{os.getpid()}"
        d.mkdir(exist_ok=True)
        f = d / f"{pid}_recheck.v"
        f.write_text(text)
        rc, out = coqc_tree(self.dir, f, timeout=900)
        import shutil
        shutil.rmtree(d, ignore_errors=True)
        blocks = [b for b in re.split(r"(?=Closed under the global context|Axioms:)", out)
                  if b.startswith("Closed under the global context") or b.startswith("Axioms:")]
        assumptions = {}
        for name, b in zip(printed, blocks):
            assumptions[name] = [] if b.startswith("Closed") else \
                sorted(set(re.findall(r"^([A-Za-z_][A-Za-z0-9_'.]*)\s*:", b, re.M)))
        return {"ok": rc == 0, "theorems": theorems, "assumptions": assumptions, "log": out[-4000:], "printed": printed}


def check_proofs(run: C.Run, tree: Tree, extra_tb=None) -> bool:
    """What common.Run.check_proofs does, with the table-dependent part taken from the run's own tree
    directory: source gate, incremental build of the tree-independent files, re-check of Props/<pid>.v."""
    gate = C.source_gate()
    ok, log = C.build_coq(STATIC_TARGETS)
    gen_fail = {m: o for m, o in tree.failed.items()}
    if ok:
        try:
            tree.prepare_methods()
        except Exception as exc:  # noqa
            tree.info = {"ok": False, "methods": [], "definitions": [], "failures": [
                {"class": None, "method": None, "line": 0, "construct": "translator", "error": f"{type(exc).__name__}: {exc}"}]}
            tree.failed_theorems, tree.gen_error, tree.timing = [], str(exc), {}
    else:
        tree.info, tree.failed_theorems, tree.gen_error, tree.timing = {}, [], "the hand-written model does not build", {}
    rep = tree.props_report(run.pid)
    n = len(rep["theorems"])
    run.cov["obligations"] = max(n, 1)
    run.cov["discharged"] = n if (ok and rep["ok"] and not gate) else 0
    run.cov["theorems"] = rep["theorems"]
    run.cov["axioms_per_theorem"] = rep["assumptions"]
    run.cov["generated_modules_not_compiling"] = sorted(gen_fail)
    run.cov["source_translation"] = tree.coverage()
    tie = tree.broken(run.pid)
    run.cov["source_translation"]["tie"] = ({"status": "broken", **{k: v for k, v in tie.items() if k != "failures"}}
                                            if tie else {"status": "checked"})
    run.cov["checker_cmd"] = (f"python3 translator/dump_units.py --out .scratch/units/trees/{tree.key} && "
                              f"python3 translator/py2gallina_units.py --out .scratch/units/trees/{tree.key} && "
                              f"python3 tools/build.py {' '.join(STATIC_TARGETS)} && "
                              f"coqc -R coq PV -R .scratch/units/trees/{tree.key} PVT <Gen_Tables.v Gen_Compound.v GenFacts16.v "
                              f"GenFacts17.v Gen_Methods.v, coq/Units/GenAgree.v, coq/Props/{run.pid}.v> (generated modules imported "
                              "from PVT; full .vo; Print Assumptions under every theorem)")
    axioms = sorted({a for v in rep["assumptions"].values() for a in v})
    tb = [C.KERNEL_TB,
          "axioms reported by Print Assumptions: " + (", ".join(axioms) if axioms else "none (all theorems closed under the global context)"),
          "hand-written Gallina model tied to /repo (a) by the per-run correspondence check (harness/%s.py) and (b) by equality "
          "with the method bodies regenerated from the source text on every run (translator/py2gallina_units.py + "
          "coq/Units/GenAgree.v)" % run.pid.lower(),
          "the translator translator/py2gallina_units.py: its Python subset and the meaning it gives to it (objects = quantity "
          "instance / SI instance with stored unit text / number / str; type() and isinstance on that universe with float and int as "
          "one kind; cls(value, unit) = __new__ then __init__; a * b with a Quantity / SI on the left = that class's method; dict "
          "look-ups in the generated tables; exception messages evaluated for their effects only; for = fold, while on explicit "
          "fuel; only lists created in a method and not yet handed on may be changed in place)"]
    run.cov["trusted_base"] = tb + list(extra_tb or [])
    if gate:
        run.violation("forbidden-construct", "forbidden construct in the Coq development: " + "; ".join(gate[:5]),
                      {"lines": gate}, found_input=False)
        return False
    if not ok or not rep["ok"]:
        run.proof_log = (log[-2000:] if not ok else "") + "".join(f"\n[{m}] {o[-1200:]}" for m, o in gen_fail.items()) + rep["log"][-1500:]
        return False
    return True


def report_broken_tie(run: C.Run, tree: Tree, extra: dict | None = None):
    """the regenerated method bodies no longer equal the proved model and no explored input violates the property itself"""
    b = tree.broken(run.pid)
    if not b:
        return
    names = [t for t in b["theorems"] if t] or ["(none compiled: " + b["stage"] + ")"]
    if b["stage"] == "translation":
        how = b["detail"][:500]
    elif b["stage"] == "agreement proof":
        m = re.match(r"gen_(Quantity|SI)_(.+)_eq$", b["first"] or "")
        rec = next((x for x in tree.info.get("methods", []) if m and x["class"] == m.group(1) and x["method"] == m.group(2)), None)
        where = f" (the translation of {rec['class']}.{rec['method']}, {Path(rec['file']).name}:{rec['lines'][0]}-{rec['lines'][1]})" if rec else ""
        how = (f"agreement theorem {b['first']} of coq/Units/GenAgree.v no longer checks{where}"
               + (f" (and {len(names) - 1} that rest on it: " + ", ".join(n for n in names if n != b['first'])[:400] + ")" if len(names) > 1 else ""))
    else:
        how = b["detail"][-300:]
    what = ("the method bodies regenerated from src/pydsol/core/units.py are no longer proved equal to the model the "
            f"{run.pid} theorems are about ({b['stage']}): {how}; the clause oracle found no input on which the changed code "
            "violates the property")
    body = {"relation": "coq/Units/GenAgree.v: " + ", ".join(names), "stage": b["stage"], "detail": b["detail"],
            "unchecked_theorems": names, "generated_file": str(tree.dir / "Gen_Methods.v"),
            "how": f"VERIF_REPO={C.REPO} python3 translator/py2gallina_units.py --out <dir>; coqc -R coq PV -R <dir> PVT "
                   "<dir>/Gen_Methods.v, then coq/Units/GenAgree.v with the generated module imported from PVT"}
    if b.get("failures"):
        body["translation_failures"] = b["failures"]
    body.update(extra or {})
    run.violation("translated-model-differs", what, body, found_input=False)


def load_units():
    """The live module from VERIF_REPO (never `import *`: that fails on the pinned tree)."""
    C.use_repo_sources()
    import importlib
    U = importlib.import_module("pydsol.core.units")
    assert str(C.REPO) in str(Path(U.__file__).resolve()), U.__file__
    return U


class Ctx:
    """Live module + the class numbering of the dump."""

    def __init__(self, U, dump, tree=None):
        self.U = U
        self.dump = dump
        self.tree = tree
        self.names = [c["name"] for c in dump["classes"]]
        self.index = {n: i for i, n in enumerate(self.names)}
        self.classes = [getattr(U, n) for n in self.names]
        self.by_type = {c: i for i, c in enumerate(self.classes)}

        self.unit_const = {}
        for ci, c in enumerate(dump["classes"]):
            for j, (u, _) in enumerate(c["units"]):
                if isinstance(u, str) and (ci, u) not in self.unit_const:
                    try:
                        u.encode("utf-8")
                    except UnicodeEncodeError:
                        continue
                    self.unit_const[(ci, u)] = f"c{ci}_u{j}"

    def units_of(self, name):
        return [u for u, _ in self.dump["classes"][self.index[name]]["units"] if isinstance(u, str)]

    def cunit(self, ci: int, unit: str) -> str:
        """Coq term for a unit string: the named constant of Gen_Tables.v when the unit is declared"""
        return self.unit_const.get((ci, unit)) or C.cstr(unit)


# ------------------------------------------------------------------ harness-side SI text (independent of the code)
def sig_text(sig) -> str:
    """a spelling SI(...) accepts: name, exponent unless 1, joined by '.' (no divisor)"""
    return ".".join(n + ("" if e == 1 else str(e)) for n, e in zip(SI_NAMES, sig) if e != 0)


def fhex(x) -> str:
    return float(x).hex()


def unhex(h):
    return float.fromhex(h)


# ------------------------------------------------------------------ value specs -> live objects
def build_value(ctx: Ctx, spec):
    t = spec["t"]
    if t == "q":
        cls = getattr(ctx.U, spec["cls"])
        v = int(unhex(spec["v"])) if spec.get("int") else unhex(spec["v"])
        q = cls(v, spec["unit"])
        if "as_unit" in spec:
            q = q.as_unit(spec["as_unit"])
        return q
    if t == "si":
        v = int(unhex(spec["v"])) if spec.get("int") else unhex(spec["v"])
        s = ctx.U.SI(v, sig_text(spec["sig"]))
        assert list(s.sisig()) == list(spec["sig"]), (spec, s.sisig())
        return s
    if t == "num":
        return int(unhex(spec["v"])) if spec.get("int") else unhex(spec["v"])
    if t == "str":
        return "x"
    raise ValueError(spec)


def canon_value(ctx: Ctx, obj):
    """canonical JSON of a Python object the model distinguishes"""
    U = ctx.U
    if type(obj) in ctx.by_type:
        unit = getattr(obj, "_unit", None)
        if type(unit) is not str:
            return {"t": "bad", "repr": f"{type(obj).__name__} with _unit {unit!r}"}
        return {"t": "q", "cls": type(obj).__name__, "si": fhex(float.__float__(obj)), "unit": unit}
    if type(obj) is U.SI:
        sig = list(obj._sisig)
        if len(sig) != 9 or not all(type(x) is int for x in sig):
            return {"t": "bad", "repr": f"SI with _sisig {sig!r}"}
        return {"t": "si", "sig": sig, "si": fhex(float.__float__(obj)), "unit": obj._unit}
    if type(obj) in (float, int):
        return {"t": "num", "si": fhex(obj)}
    if type(obj) is str:
        return {"t": "str"}
    return {"t": "bad", "repr": repr(obj)[:80]}


def canon_out(ctx: Ctx, r):
    if type(r) is bool:
        return {"bool": r}
    if type(r) in ctx.by_type or type(r) is ctx.U.SI:
        return {"val": canon_value(ctx, r)}
    if type(r) is float:
        return {"num": fhex(r)}
    if type(r) is str:
        return {"text": r}
    if type(r) is list and all(type(x) is int for x in r):
        return {"sig": r}
    return {"bad": repr(r)[:80]}


def apply_bin(op, x, y):
    if op == "*":
        return x * y
    if op == "/":
        return x / y
    if op == "+":
        return x + y
    if op == "-":
        return x - y
    if op == "==":
        return x == y
    if op == "!=":
        return x != y
    if op == "<":
        return x < y
    if op == "<=":
        return x <= y
    if op == ">":
        return x > y
    if op == ">=":
        return x >= y
    raise ValueError(op)


def _outcome(ctx: Ctx, f):
    try:
        raw = f()
        return canon_out(ctx, raw), raw
    except Exception as exc:  # noqa
        return {"raise": type(exc).__name__, "msg": str(exc)[:120]}, None


def run_operator(ctx: Ctx, spec, ops, opsj):
    """x op y / op x on operand OBJECTS that are kept and used again: besides the outcome, check that the
    operation left its operands (and copies of them made earlier by scaling with a number, which may share
    state with them) as they were, and that the same expression on the same objects gives the same outcome a
    second time.  A difference is reported under the keys "operand_changed" / "second_differs"."""
    k = spec["k"]
    if k == "bin":
        def f():
            return apply_bin(spec["op"], ops[0], ops[1])
    elif k == "round":
        def f():
            return {"floor": math.floor, "ceil": math.ceil, "trunc": math.trunc, "round": round}[spec["op"]](ops[0])
    else:
        def f():
            return {"neg": lambda q: -q, "abs": abs, "pos": lambda q: +q}[spec["op"]](ops[0])
    quantities = [o for o in ops if type(o) in ctx.by_type or type(o) is ctx.U.SI]
    aliases = []
    for o in quantities:
        try:
            aliases.append(o * 2.0)
        except Exception:  # noqa
            pass
    alias_before = [canon_value(ctx, a) for a in aliases]
    out, raw = _outcome(ctx, f)
    after = [canon_value(ctx, o) for o in ops]
    alias_after = [canon_value(ctx, a) for a in aliases]
    if after != opsj:
        out["operand_changed"] = {"before": opsj, "after": after}
    elif alias_after != alias_before:
        out["operand_changed"] = {"copy_made_by_scaling_before": alias_before, "after": alias_after}
    if quantities:
        out2, _ = _outcome(ctx, f)
        if {a: b for a, b in out2.items() if a != "msg"} != {a: b for a, b in out.items() if a not in ("msg", "operand_changed")}:
            out["second_differs"] = out2
    return out, opsj, raw


def run_call(ctx: Ctx, spec):
    """Execute one call spec on the real classes.
    Returns (observed JSON, operands JSON list, raw result or None)."""
    U = ctx.U
    k = spec["k"]
    try:
        ops = [build_value(ctx, spec[a]) for a in ("x", "y") if a in spec]
    except Exception as exc:  # noqa
        return {"setup_failed": f"{type(exc).__name__}: {exc}"}, [], None
    opsj = [canon_value(ctx, o) for o in ops]
    raw = None
    if k in ("bin", "un", "round"):
        return run_operator(ctx, spec, ops, opsj)
    try:
        if False:
            pass
        elif k == "mk":
            v = build_value(ctx, spec["v"])
            cls = getattr(U, spec["cls"])
            raw = cls(v) if spec["unit"] is None else cls(v, spec["unit"])
            out = canon_out(ctx, raw)
        elif k == "mksi":
            v = build_value(ctx, spec["v"])
            raw = U.SI(v, spec["unit"])
            out = canon_out(ctx, raw)
        elif k == "get":
            g = spec["g"]
            q = ops[0]
            if g == "si":
                raw = q.si
                out = canon_out(ctx, raw)
            elif g == "displayvalue":
                raw = q.displayvalue
                out = canon_out(ctx, raw)
            elif g == "unit":
                raw = q.unit
                out = canon_out(ctx, raw)
            elif g == "sisig":
                raw = list(q.sisig())
                out = canon_out(ctx, raw)
            elif g == "asSI":
                raw = q.asSI()
                out = canon_out(ctx, raw)
            elif g == "str":
                s = str(q)
                r2 = repr(q)
                head = str(q.displayvalue) + " "
                if not s.startswith(head) or r2 != s:
                    out = {"bad": f"str() = {s!r}, repr() = {r2!r}, expected to start with {head!r}"}
                else:
                    raw = s
                    out = {"text": s[len(head):]}
            else:
                raise ValueError(g)
        elif k == "as_unit":
            raw = ops[0].as_unit(spec["unit"])
            out = canon_out(ctx, raw)
        elif k == "as_quantity":
            target = float if spec["target"] is None else getattr(U, spec["target"])
            raw = ops[0].as_quantity(target)
            out = canon_out(ctx, raw)
        elif k == "siunit":
            q = ops[0]
            raw = q.siunit(spec["div"], spec["hat"], spec["dot"])
            out = canon_out(ctx, raw)
        elif k == "reexpress":
            q = ops[0]
            vals = []
            units = []
            for u in type(q)._units:
                r = q.as_unit(u)
                vals += [fhex(r.si), fhex(r.displayvalue)]
                units.append([u, r.unit, type(r).__name__])
            raw = units
            out = {"nums": vals}
        elif k == "parse":
            raw = list(U.SI.str_to_sisig(spec["s"]))
            out = canon_out(ctx, raw)
        else:
            raise ValueError(k)
    except Exception as exc:  # noqa
        out = {"raise": type(exc).__name__, "msg": str(exc)[:120]}
    return out, opsj, raw


# ------------------------------------------------------------------ Coq rendering
PREAMBLE = """From Coq Require Import ZArith List String PrimFloat.
From PV Require Import Units.Tables Units.SIString Units.Dispatch.
From PVT Require Import Gen_Tables.
Import ListNotations.
Local Open Scope string_scope.
Definition nm (c : nat) (x : float) (u : string) : pyval float_ops := @VNamed float_ops c x u.
Definition vsi (s : list Z) (x : float) : pyval float_ops := @VSI float_ops s x.
Definition vn (x : float) : pyval float_ops := @VNum float_ops x.
Definition vs : pyval float_ops := @VStr float_ops.
Definition ov (v : pyval float_ops) : R float_ops := Val (OVal v).
Definition ob (b : bool) : R float_ops := Val (OBool b).
Definition on (x : float) : R float_ops := Val (@ONum float_ops x).
Definition ot (s : string) : R float_ops := Val (@OText float_ops s).
Definition os (l : list Z) : R float_ops := Val (@OSig float_ops l).
Definition ons (l : list float) : R float_ops := Val (@ONums float_ops l).
Definition rz (e : exn) : R float_ops := Raise e.
"""


_SIG_DEFS: dict = {}          # signature -> constant name, per emitted shard (see run_correspondence)


def csig(sig) -> str:
    key = tuple(int(e) for e in sig)
    if key not in _SIG_DEFS:
        _SIG_DEFS[key] = f"sg{len(_SIG_DEFS)}"
    return _SIG_DEFS[key]


def csig_literal(key) -> str:
    return "[" + ";".join(C.cz(e) for e in key) + "]"


def cflt(h: str) -> str:
    return C.cfloat(unhex(h))


def coq_value(ctx: Ctx, vj) -> str | None:
    t = vj["t"]
    if t == "q":
        ci = ctx.index[vj['cls']]
        return f"(nm k{ci} {cflt(vj['si'])} {ctx.cunit(ci, vj['unit'])})"
    if t == "si":
        return f"(vsi {csig(vj['sig'])} {cflt(vj['si'])})"
    if t == "num":
        return f"(vn {cflt(vj['si'])})"
    if t == "str":
        return "vs"
    return None


def coq_obs(ctx: Ctx, out) -> str:
    """Coq term for the observed outcome; an outcome the model cannot express becomes
    `rz Unmodelled`, which no in-scope model evaluation returns (certain mismatch)."""
    if "raise" in out:
        return f"(rz {out['raise']})" if out["raise"] in EXN else "(rz Unmodelled)"
    if "bool" in out:
        return f"(ob {C.cbool(out['bool'])})"
    if "val" in out:
        v = coq_value(ctx, out["val"])
        return f"(ov {v})" if v else "(rz Unmodelled)"
    if "num" in out:
        return f"(on {cflt(out['num'])})"
    if "text" in out:
        return f"(ot {C.cstr(out['text'])})"
    if "sig" in out:
        return f"(os {csig(out['sig'])})"
    if "nums" in out:
        return "(ons [" + ";".join(cflt(h) for h in out["nums"]) + "])"
    return "(rz Unmodelled)"


def coq_call(ctx: Ctx, spec, opsj) -> str | None:
    k = spec["k"]
    vals = [coq_value(ctx, v) for v in opsj]
    if any(v is None for v in vals):
        return None
    if k == "bin":
        op = spec["op"]
        cop = {"*": "Mul", "/": "Div", "+": "Add", "-": "Sub"}.get(op) or f"(Cmp {CMP_COQ[op]})"
        return f"CBin {cop} {vals[0]} {vals[1]}"
    if k == "un":
        return f"CUn {spec['op'].capitalize()} {vals[0]}"
    if k == "mk":
        v = spec["v"]
        cv = "vs" if v["t"] == "str" else f"(vn {cflt(fhex(unhex(v['v'])))})"
        ci = ctx.index[spec['cls']]
        u = "None" if spec["unit"] is None else f"(Some {ctx.cunit(ci, spec['unit'])})"
        return f"CMk k{ci} {cv} {u}"
    if k == "mksi":
        v = spec["v"]
        cv = "vs" if v["t"] == "str" else f"(vn {cflt(fhex(unhex(v['v'])))})"
        return f"CMkSI {cv} {C.cstr(spec['unit'])}"
    if k == "get":
        return f"CGet {GETTERS[spec['g']]} {vals[0]}"
    if k == "as_unit":
        return f"CAsUnit {vals[0]} {ctx.cunit(ctx.index[opsj[0]['cls']], spec['unit']) if opsj and opsj[0].get('t') == 'q' else C.cstr(spec['unit'])}"
    if k == "as_quantity":
        t = "None" if spec["target"] is None else f"(Some k{ctx.index[spec['target']]})"
        return f"CAsQuantity {vals[0]} {t}"
    if k == "siunit":
        return f"CSiunit {vals[0]} {C.cbool(spec['div'])} {C.cstr(spec['hat'])} {C.cstr(spec['dot'])}"
    if k == "reexpress":
        return f"CReexpress {vals[0]}"
    if k == "parse":
        return f"CParse {C.cstr(spec['s'])}"
    raise ValueError(k)


def run_correspondence(run: C.Run, ctx: Ctx, cases, shard: int = 500):
    """cases: list of dicts with 'spec', 'out', 'ops'.  Returns (list of mismatching
    indices, error text or None)."""
    d = C.scratch_dir(run.pid)
    files = []
    # shard by count; each shard is rendered on its own so that the signature constants it uses
    # (Definition sgN := [...]) are defined in it
    representable = []
    unrepresentable = []
    for i, cs in enumerate(cases):
        if "setup_failed" in cs["out"] or any(coq_value(ctx, v) is None for v in cs["ops"]):
            unrepresentable.append(i)
        else:
            representable.append(i)
    chunks = [representable[j:j + shard] for j in range(0, len(representable), shard)]
    for n, ch in enumerate(chunks):
        _SIG_DEFS.clear()
        body = ";\n".join(f"({coq_call(ctx, cases[i]['spec'], cases[i]['ops'])}, {coq_obs(ctx, cases[i]['out'])})" for i in ch)
        defs = "".join(f"Definition {nm} : list Z := {csig_literal(key)}.\n" for key, nm in _SIG_DEFS.items())
        f = d / f"cases_{run.pid.lower()}_{n}.v"
        f.write_text(PREAMBLE + defs + "Definition cases : list (call float_ops * R float_ops) := [\n" + body + "\n].\n"
                     "Eval vm_compute in (mismatches_from float_ops gen_module 0 cases).\n")
        files.append(f)
    _SIG_DEFS.clear()
    results = coqc_tree_many(ctx.tree.dir, files)
    mism = list(unrepresentable)
    for ch, f, (rc, out) in zip(chunks, files, results):
        lst = C.parse_nat_list(out)
        if rc != 0 or lst is None:
            return mism, f"coqc could not evaluate {f.name}: {out[-700:]}"
        mism += [ch[j] for j in lst]
    return sorted(mism), None


ROUND_COQ = {"floor": "RFloor", "ceil": "RCeil", "trunc": "RTrunc", "round": "RRound"}


def run_round_correspondence(run: C.Run, ctx: Ctx, cases, shard: int = 800):
    """math.floor / ceil / trunc / round of quantities: the same calls on Units.Dispatch.round_eval with the binary64
    roundings float_math (vm_compute in coqc), outcomes compared bit for bit.  Returns (mismatching indices, error)."""
    d = C.scratch_dir(run.pid)
    ok_idx = [i for i, cs in enumerate(cases)
              if "setup_failed" not in cs["out"] and cs["ops"] and all(coq_value(ctx, v) is not None for v in cs["ops"])]
    bad_idx = [i for i in range(len(cases)) if i not in set(ok_idx)]
    chunks = [ok_idx[j:j + shard] for j in range(0, len(ok_idx), shard)]
    files = []
    for n, ch in enumerate(chunks):
        _SIG_DEFS.clear()
        body = ";\n".join(f"({ROUND_COQ[cases[i]['spec']['op']]}, {coq_value(ctx, cases[i]['ops'][0])}, {coq_obs(ctx, cases[i]['out'])})"
                           for i in ch)
        defs = "".join(f"Definition {nm} : list Z := {csig_literal(key)}.\n" for key, nm in _SIG_DEFS.items())
        f = d / f"round_{run.pid.lower()}_{n}.v"
        f.write_text(PREAMBLE + defs + "Definition cases : list (roundkind * pyval float_ops * R float_ops) := [\n" + body + "\n].\n"
                     "Eval vm_compute in (round_mismatches_from float_ops gen_module float_math 0 cases).\n")
        files.append(f)
    _SIG_DEFS.clear()
    results = coqc_tree_many(ctx.tree.dir, files)
    mism = list(bad_idx)
    for ch, f, (rc, out) in zip(chunks, files, results):
        lst = C.parse_nat_list(out)
        if rc != 0 or lst is None:
            return mism, f"coqc could not evaluate {f.name}: {out[-700:]}"
        mism += [ch[j] for j in lst]
    return sorted(mism), None


# ------------------------------------------------------------------ table checks
COQ_TABLE_CHECKS = [
    # name, Coq offender expression, kind of result
    ("classes_plain", "classes_plain_bad gen_classes", "pairs"),
    ("mul_closed", "mul_closed_bad gen_classes", "pairs"),
    ("div_closed", "div_closed_bad gen_classes", "pairs"),
    ("sidict", "sidict_bad gen_classes", "pairs"),
    ("sisig_agrees", "sisig_agrees_bad gen_classes", "pairs"),
    ("mul_table", "mul_table_bad gen_classes", "pairs"),
    ("div_table", "div_table_bad gen_classes", "pairs"),
    ("base_factor", "base_factor_bad gen_classes", "pairs"),
    ("units_wf", "units_wf_bad gen_classes", "pairs"),
    ("described", "described_bad gen_classes", "pairs"),
    ("display", "display_bad gen_classes", "pairs"),
    ("alias_display", "alias_display_bad gen_classes", "pairs"),
    ("alias_descr", "alias_descr_bad gen_classes", "pairs"),
    ("factor_ratio", "factor_ratio_bad gen_classes", "pairs"),
    ("all_names", "all_names_bad gen_module", "nats"),
    ("compound", "compound_bad gen_classes gen_compounds", "nats"),
    ("dimensionless", "(if dimensionless_ok gen_module then [] else [0%nat])", "nats"),
    ("siunits", "(if siunits_ok gen_module then [] else [0%nat])", "nats"),
]


C16_CHECKS = {"classes_plain", "mul_closed", "div_closed", "sidict", "sisig_agrees", "mul_table", "div_table",
              "base_factor", "dimensionless", "siunits"}
C17_CHECKS = {"base_factor", "units_wf", "described", "display", "alias_display", "alias_descr", "factor_ratio",
              "all_names", "compound", "classes_plain"}


def coq_table_offenders(pid: str, names=None, tree=None):
    """Evaluate the offender list of every table check in `names` inside coqc (against the freshly
    built Gen_Tables.vo).  Returns (dict name -> list, per-class entry counts, error)."""
    d = C.SCRATCH / f"tables_{pid}" / f"run{os.getpid()}"
    d.mkdir(parents=True, exist_ok=True)
    f = d / "offenders.v"
    checks = [c for c in COQ_TABLE_CHECKS if names is None or c[0] in names]
    need_compound = any(c[0] == "compound" for c in checks)
    lines = ["From Coq Require Import ZArith List String.",
             "From PV Require Import Units.Tables.",
             "From PVT Require Import Gen_Tables" + (" Gen_Compound." if need_compound else "."),
             "Import ListNotations."]
    for name, expr, kind in checks:
        if kind == "pairs":
            lines.append(f"Eval vm_compute in (flat_map (fun p : nat * nat => [fst p; snd p]) ({expr})).")
        else:
            lines.append(f"Eval vm_compute in ({expr}).")
    lines.append("Eval vm_compute in (flat_map class_counts gen_classes).")
    f.write_text("\n".join(lines) + "\n")
    rc, out = coqc_tree(tree.dir, f, timeout=300)
    import shutil
    shutil.rmtree(d, ignore_errors=True)
    if rc != 0:
        return None, None, out[-1500:]
    lists = C.parse_nat_lists(out)
    if len(lists) != len(checks) + 1:
        return None, None, "unexpected coqc output: " + out[-800:]
    res = {}
    for (name, _, kind), lst in zip(checks, lists):
        res[name] = [tuple(lst[i:i + 2]) for i in range(0, len(lst), 2)] if kind == "pairs" else list(lst)
    flat = lists[-1]
    counts = [flat[i:i + 6] for i in range(0, len(flat), 6)]
    return res, counts, None


def live_counts(ctx: Ctx):
    out = []
    for c in ctx.classes:
        out.append([len(c._units), len(c._displayunits), len(c._descriptions), len(c._sidict),
                    len(c._mul), len(c._div)])
    return out


def sisig_of(obj_or_cls):
    return list(obj_or_cls.sisig())


def python_table_offenders(ctx: Ctx):
    """The same table clauses evaluated on the live classes, independently of the Coq
    functions.  Returns dict name -> list of human readable offender records."""
    U = ctx.U
    res = {k: [] for k, _, _ in COQ_TABLE_CHECKS}
    cls = ctx.classes
    for ci, c in enumerate(cls):
        n = c.__name__
        if c.__bases__ != (U.Quantity,):
            res["classes_plain"].append({"cls": n, "ci": ci, "ei": 0, "why": "not a direct subclass of Quantity"})
        for tab, key in ((c._mul, "mul"), (c._div, "div")):
            for ei, (b, r) in enumerate(tab.items()):
                if b not in ctx.by_type or r not in ctx.by_type:
                    res[key + "_closed"].append({"cls": n, "ci": ci, "ei": ei, "entry": [repr(b), repr(r)]})
                    res[key + "_table"].append({"cls": n, "ci": ci, "ei": ei, "entry": [repr(b), repr(r)]})
                    continue
                sa, sb, sr = sisig_of(c), sisig_of(b), sisig_of(r)
                exp = [x + y for x, y in zip(sa, sb)] if key == "mul" else [x - y for x, y in zip(sa, sb)]
                if sr != exp:
                    res[key + "_table"].append({"cls": n, "ci": ci, "ei": ei, "other": b.__name__,
                                                "result": r.__name__, "result_sig": sr, "expected_sig": exp})
        for ei, (k, v) in enumerate(c._sidict.items()):
            if type(k) is not str or k not in SI_NAMES or type(v) is not int:
                res["sidict"].append({"cls": n, "ci": ci, "ei": ei, "entry": [repr(k), repr(v)]})
        if not (type(c._baseunit) is str and c._baseunit in c._units and type(c._units[c._baseunit]) in (float, int)
                and c._units[c._baseunit] == 1):
            res["base_factor"].append({"cls": n, "ci": ci, "ei": 0, "base": repr(c._baseunit),
                                       "factor": repr(c._units.get(c._baseunit))})
        for ei, (u, f) in enumerate(c._units.items()):
            okf = (type(f) is float and math.isfinite(f) and f != 0.0) or (type(f) is int and f != 0)
            if type(u) is not str or not okf:
                res["units_wf"].append({"cls": n, "ci": ci, "ei": ei, "unit": repr(u), "factor": repr(f)})
            d = c._descriptions.get(u)
            if type(d) is not str or d == "":
                res["described"].append({"cls": n, "ci": ci, "ei": ei, "unit": repr(u), "description": repr(d)})
        for ei, (u, d) in enumerate(c._displayunits.items()):
            if type(u) is not str or type(d) is not str or u not in c._units:
                res["display"].append({"cls": n, "ci": ci, "ei": ei, "unit": repr(u), "display": repr(d)})
        units = list(c._units.items())
        for ei, (u, f) in enumerate(units):
            for v, g in units:
                if u == v or type(u) is not str or type(v) is not str:
                    continue
                du, dv = c._displayunits.get(u, u), c._displayunits.get(v, v)
                if type(du) is str and du == dv and f != g:
                    res["alias_display"].append({"cls": n, "ci": ci, "ei": ei, "unit": u, "other": v,
                                                 "display": du, "factors": [repr(f), repr(g)]})
                eu, ev = c._descriptions.get(u), c._descriptions.get(v)
                if type(eu) is str and eu == ev and f != g:
                    res["alias_descr"].append({"cls": n, "ci": ci, "ei": ei, "unit": u, "other": v,
                                               "description": eu, "factors": [repr(f), repr(g)]})
    for i, nme in enumerate(getattr(U, "__all__", [])):
        if type(nme) is not str or not hasattr(U, nme):
            res["all_names"].append({"index": i, "name": nme})
    dim = getattr(U, "Dimensionless", None)
    if dim not in ctx.by_type or sisig_of(dim) != [0] * 9:
        res["dimensionless"].append({"index": 0})
    if tuple(U.SI.SIUNITS) != SI_NAMES:
        res["siunits"].append({"index": 0, "SIUNITS": repr(U.SI.SIUNITS)})
    return res
