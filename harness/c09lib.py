"""Helpers shared by the statistics checks (C09, C10): value codec for replay
files, Coq literal emission for the Stats models, exact-arithmetic helpers and
a generic delta-debugging shrinker."""
from __future__ import annotations

import itertools
import math
import warnings
from fractions import Fraction

import common as C

EXN = ("ZeroDivisionError", "ValueError", "TypeError", "OverflowError", "StatisticsError")
HUGE_INT = 10 ** 400          # an int beyond the float range


def quiet_import():
    """statistics.py has invalid escape sequences in docstrings: silence the SyntaxWarning."""
    warnings.filterwarnings("ignore", category=SyntaxWarning)


# ------------------------------------------------------------------ JSON codec for Python values
def enc(v):
    if isinstance(v, bool):
        return {"b": v}
    if isinstance(v, int):
        return {"i": str(v)}
    if isinstance(v, float):
        return {"f": "nan" if v != v else v.hex()}
    if isinstance(v, str):
        return {"s": v}
    if v is None:
        return {"none": 1}
    raise TypeError(v)


def dec(d):
    if "b" in d:
        return bool(d["b"])
    if "i" in d:
        return int(d["i"])
    if "f" in d:
        return float("nan") if d["f"] == "nan" else float.fromhex(d["f"])
    if "s" in d:
        return d["s"]
    return None


def is_number(v) -> bool:
    return isinstance(v, (int, float))


def representable(v) -> bool:
    """int / bool / float that the model sees exactly as a float."""
    if isinstance(v, float):
        return True
    if isinstance(v, int):
        return abs(int(v)) <= 2 ** 53
    return False


# ------------------------------------------------------------------ Coq literals
def carg(v) -> str:
    """pyarg literal for an argument of a numeric parameter."""
    if isinstance(v, float):
        return f"(ONum {C.cfloat(v)})"          # NaN goes in as a float: the model's isnan decides
    if isinstance(v, int):
        if abs(int(v)) <= 2 ** 53:
            return f"(ONum {C.cfloat(float(v))})"
        if abs(int(v)) >= 10 ** 309:
            return "OHugeInt"
        raise ValueError("int not exactly representable: not generated")
    return "ONotNumber"


def cekind(kind: str):
    if kind == "ok":
        return "EOk"
    if kind in EXN:
        return f"(EExn {kind})"
    return None


def cgres(g):
    if g[0] == "v":
        return f"(GVal {C.cfloat(g[1])})"
    if g[1] in EXN:
        return f"(GRaise {g[1]})"
    return None


def fbits(x: float):
    """bit-exact key of a float (all NaNs equal)."""
    return "nan" if x != x else x.hex()


def same_float(a: float, b: float) -> bool:
    return fbits(a) == fbits(b)


def call(f, *a):
    """('v', float) | ('r', exception class name) | ('bad', repr) for non-float results."""
    try:
        v = f(*a)
    except Exception as exc:  # noqa
        return ("r", type(exc).__name__)
    if isinstance(v, (int, float)):
        return ("v", float(v))
    return ("bad", repr(v))


# ------------------------------------------------------------------ exact arithmetic
def fr(x) -> Fraction:
    return Fraction(x)


def power_sums(xs):
    """n, sum, mean, central power sums 2..4 (Fractions) of a non-empty list of numbers."""
    fx = [Fraction(x) for x in xs]
    n = len(fx)
    s = sum(fx, Fraction(0))
    mean = s / n
    d = [x - mean for x in fx]
    d2 = [e * e for e in d]
    m2 = sum(d2, Fraction(0))
    m3 = sum((a * b for a, b in zip(d2, d)), Fraction(0))
    m4 = sum((a * a for a in d2), Fraction(0))
    return n, s, mean, m2, m3, m4, max(abs(x) for x in fx), max(abs(e) for e in d)


def widen(lo: float, hi: float, rel: float = 1e-9, tiny: float = 1e-300):
    return lo - (abs(lo) * rel + tiny), hi + (abs(hi) * rel + tiny)


def corners(f, *ivs):
    """range of f over the corners of a box (f monotone in each argument)."""
    vals = []
    for c in itertools.product(*ivs):
        try:
            vals.append(f(*c))
        except (ZeroDivisionError, ValueError, OverflowError):
            return None
    if any(v != v for v in vals):
        return None
    return widen(min(vals), max(vals))


def within(x: float, iv) -> bool:
    return iv is None or (x == x and iv[0] <= x <= iv[1])


# ------------------------------------------------------------------ shrinking
def shrink_list(items: list, failing, min_len: int = 1, budget: int = 400):
    """Greedy delta debugging: drop chunks / single items while `failing(list)` stays true."""
    cur = list(items)
    tries = 0
    chunk = max(1, len(cur) // 2)
    while chunk >= 1 and tries < budget:
        i = 0
        changed = False
        while i < len(cur) and tries < budget:
            cand = cur[:i] + cur[i + chunk:]
            tries += 1
            if len(cand) >= min_len and failing(cand):
                cur = cand
                changed = True
            else:
                i += chunk
        if chunk == 1 and not changed:
            break
        chunk = max(1, chunk // 2) if chunk > 1 else (1 if changed else 0)
    return cur


# ------------------------------------------------------------------ coqc diagnosis of one mismatching case
def coq_eval(pid: str, header: list[str], body: str, name: str = "diag") -> str:
    d = C.SCRATCH / pid
    d.mkdir(parents=True, exist_ok=True)
    f = d / f"{name}.v"
    f.write_text("\n".join(header) + "\n" + body + "\n")
    rc, out = C.coqc_file(f, timeout=300)
    return out.strip()[-1500:]
