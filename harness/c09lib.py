"""Helpers shared by the statistics checks (C09, C10): value codec for replay
files, Coq literal emission for the Stats models, exact-arithmetic helpers and
a generic delta-debugging shrinker."""
from __future__ import annotations

import itertools
import math
import warnings
from fractions import Fraction

import common as C

EXN = ("ZeroDivisionError", "ValueError", "TypeError", "OverflowError", "StatisticsError")
HUGE_INT = 10 ** 400          # an int beyond the float range


def quiet_import():
    """statistics.py has invalid escape sequences in docstrings: silence the SyntaxWarning."""
    warnings.filterwarnings("ignore", category=SyntaxWarning)


# ------------------------------------------------------------------ JSON codec for Python values
def enc(v):
    if isinstance(v, bool):
        return {"b": v}
    if isinstance(v, int):
        return {"i": str(v)}
    if isinstance(v, float):
        return {"f": "nan" if v != v else v.hex()}
    if isinstance(v, str):
        return {"s": v}
    if v is None:
        return {"none": 1}
    raise TypeError(v)


def qenc(cls: str, value: float, unit: str):
    """a pydsol Quantity (a float subclass): class name, display value, unit"""
    return {"q": [cls, float(value).hex(), unit]}


def _quantity(d):
    import pydsol.core.units as U          # resolves to the tree under test (common.use_repo_sources)
    cls, hx, unit = d["q"]
    return getattr(U, cls)(float.fromhex(hx), unit)


_FOREIGN_TYPES = {}


def foreign_event_type(name: str):
    """an EventType with the given NAME that is NOT the StatEvents one: defined in another class (`Sensor`).
    EventBased*.notify must refuse a notification of such a type, whatever its payload."""
    if name not in _FOREIGN_TYPES:
        from pydsol.core.pubsub import EventType      # the tree under test

        class Sensor:                                  # EventType records the name of the defining class body
            TYPE = EventType(name)
        _FOREIGN_TYPES[name] = Sensor.TYPE
    return _FOREIGN_TYPES[name]


def make_init_listener(mode, snapf, regf):
    """A listener of INITIALIZED_EVENT.  It is told that the statistic "has been initialised": inside notify it reads
    every reported value of the statistic it is handed (they must be those of a freshly initialised statistic) and, in
    mode 'register', registers the seed observation of the current initialize call -- the first observation since
    that initialisation."""
    from pydsol.core.pubsub import EventListener

    class InitListener(EventListener):
        def __init__(self):
            self.seen, self.errors, self.seed = [], [], None

        def notify(self, event):
            stat = event.content
            try:
                self.seen.append(snapf(stat))
                if mode == "register" and self.seed is not None:
                    regf(stat, self.seed)
            except Exception as exc:  # noqa
                self.errors.append(type(exc).__name__ + ": " + str(exc)[:80])
    return InitListener()


def dec_impl(d):
    """the Python object handed to the implementation"""
    return _quantity(d) if "q" in d else dec(d)


def show(d):
    if "q" in d:
        return f"{d['q'][0]}({float.fromhex(d['q'][1])!r}, {d['q'][2]!r})"
    return repr(dec(d))


def dec(d):
    """the number an argument stands for (a Quantity counts with float(q), its si-value); non-numbers as they are"""
    if "q" in d:
        return float(_quantity(d))
    if "b" in d:
        return bool(d["b"])
    if "i" in d:
        return int(d["i"])
    if "f" in d:
        return float("nan") if d["f"] == "nan" else float.fromhex(d["f"])
    if "s" in d:
        return d["s"]
    return None


def is_number(v) -> bool:
    return isinstance(v, (int, float))


def representable(v) -> bool:
    """int / bool / float that the model sees exactly as a float."""
    if isinstance(v, float):
        return True
    if isinstance(v, int):
        return abs(int(v)) <= 2 ** 53
    return False


# ------------------------------------------------------------------ Coq literals
def carg(v) -> str:
    """pyarg literal for an argument of a numeric parameter."""
    if isinstance(v, float):
        return f"(ONum {C.cfloat(v)})"          # NaN goes in as a float: the model's isnan decides
    if isinstance(v, int):
        if abs(int(v)) <= 2 ** 53:
            return f"(ONum {C.cfloat(float(v))})"
        if abs(int(v)) >= 10 ** 309:
            return "OHugeInt"
        raise ValueError("int not exactly representable: not generated")
    return "ONotNumber"


def cekind(kind: str):
    if kind == "ok":
        return "EOk"
    if kind in EXN:
        return f"(EExn {kind})"
    return None


def cgres(g):
    if g[0] == "v":
        return f"(GVal {C.cfloat(g[1])})"
    if g[1] in EXN:
        return f"(GRaise {g[1]})"
    return None


def fbits(x: float):
    """bit-exact key of a float (all NaNs equal)."""
    return "nan" if x != x else x.hex()


def same_float(a: float, b: float) -> bool:
    return fbits(a) == fbits(b)


def call(f, *a):
    """('v', float) | ('r', exception class name) | ('bad', repr) for non-float results."""
    try:
        v = f(*a)
    except Exception as exc:  # noqa
        return ("r", type(exc).__name__)
    if isinstance(v, (int, float)):
        return ("v", float(v))
    return ("bad", repr(v))


# ------------------------------------------------------------------ exact arithmetic
def fr(x) -> Fraction:
    return Fraction(x)


def power_sums(xs):
    """n, sum, mean, central power sums 2..4 (Fractions) of a non-empty list of numbers."""
    fx = [Fraction(x) for x in xs]
    n = len(fx)
    s = sum(fx, Fraction(0))
    mean = s / n
    d = [x - mean for x in fx]
    d2 = [e * e for e in d]
    m2 = sum(d2, Fraction(0))
    m3 = sum((a * b for a, b in zip(d2, d)), Fraction(0))
    m4 = sum((a * a for a in d2), Fraction(0))
    return n, s, mean, m2, m3, m4, max(abs(x) for x in fx), max(abs(e) for e in d)


def widen(lo: float, hi: float, rel: float = 1e-9, tiny: float = 1e-300):
    return lo - (abs(lo) * rel + tiny), hi + (abs(hi) * rel + tiny)


def corners(f, *ivs):
    """range of f over the corners of a box (f monotone in each argument)."""
    vals = []
    for c in itertools.product(*ivs):
        try:
            vals.append(f(*c))
        except (ZeroDivisionError, ValueError, OverflowError):
            return None
    if any(v != v for v in vals):
        return None
    return widen(min(vals), max(vals))


def within(x: float, iv) -> bool:
    return iv is None or (x == x and iv[0] <= x <= iv[1])


# ------------------------------------------------------------------ shrinking
def shrink_list(items: list, failing, min_len: int = 1, budget: int = 400):
    """Greedy delta debugging: drop chunks / single items while `failing(list)` stays true."""
    cur = list(items)
    tries = 0
    chunk = max(1, len(cur) // 2)
    while chunk >= 1 and tries < budget:
        i = 0
        changed = False
        while i < len(cur) and tries < budget:
            cand = cur[:i] + cur[i + chunk:]
            tries += 1
            if len(cand) >= min_len and failing(cand):
                cur = cand
                changed = True
            else:
                i += chunk
        if chunk == 1 and not changed:
            break
        chunk = max(1, chunk // 2) if chunk > 1 else (1 if changed else 0)
    return cur


# ------------------------------------------------------------------ coqc diagnosis of one mismatching case
def coq_eval(pid: str, header: list[str], body: str, name: str = "diag") -> str:
    d = C.SCRATCH / pid
    d.mkdir(parents=True, exist_ok=True)
    f = d / f"{name}.v"
    f.write_text("\n".join(header) + "\n" + body + "\n")
    rc, out = C.coqc_file(f, timeout=300)
    return out.strip()[-1500:]


# ------------------------------------------------------------------ the model regenerated from the source (second tie)
# Every run translates src/pydsol/core/statistics.py of the tree under test with
# translator/py2gallina_stats.py into .scratch/stats/trees/<key>/Gen_Stats.v, compiles it and the
# agreement proofs coq/Stats/GenAgree.v (copied there, generated module imported from the second
# logical root PVT) and re-checks Props/<pid>.v against them.  <key> hashes the tree's statistics.py,
# the translator, GenAgree.v and the model sources, so runs against different trees never share a
# generated file and a finished directory is never stale.  coq/Stats/Gen_Stats.v (tools/regen.sh) is
# only for setup / `build all` and is not touched here.
import fcntl  # noqa: E402
import hashlib  # noqa: E402
import json  # noqa: E402
import os  # noqa: E402
import re  # noqa: E402
import shutil  # noqa: E402
import subprocess  # noqa: E402
import time  # noqa: E402
from pathlib import Path  # noqa: E402

STAT_TREES = C.SCRATCH / "stats" / "trees"
STAT_TREE_LAYOUT = b"3"       # bump when the way a tree directory is filled changes (old directories are then ignored)
STAT_MODEL_VO = ["Stats/Num.vo", "Stats/Tally.vo", "Stats/Weighted.vo", "Stats/Timestamp.vo"]
_STAT_IMPORT = re.compile(r"^From PV Require Import ((?:Stats\.(?:Gen_Stats|GenAgree)\s*)+)\.\s*$", re.M)
_COQ_WARN = "-notation-overridden,-deprecated-hint-without-locality,-abstract-large-number,-inexact-float"
_THM = re.compile(r"^[ \t]*(?:Theorem|Lemma)\s+([A-Za-z0-9_']+)", re.M)
STAT_CLASSES = {"C09": ("Counter", "Tally"), "C10": ("WeightedTally", "TimestampWeightedTally")}


def stats_tree_source(text: str) -> str:
    return _STAT_IMPORT.sub(lambda m: "From PVT Require Import " + " ".join(x.replace("Stats.", "") for x in m.group(1).split()) + ".", text)


def _coqc_tree(tree: Path, path: Path, timeout: int = 600):
    cmd = ["timeout", str(timeout), "coqc", "-R", str(C.COQ), "PV", "-R", str(tree), "PVT", "-w", _COQ_WARN, str(path)]
    p = subprocess.run(cmd, capture_output=True, text=True, cwd=path.parent)
    return p.returncode, p.stdout + p.stderr


class StatsTree:
    """Gen_Stats.v / GenAgree.v of the tree under test, built in a directory of their own."""

    def __init__(self):
        src = C.REPO / "src" / "pydsol" / "core" / "statistics.py"
        h = hashlib.sha1(str(C.REPO.resolve()).encode() + b"\0" + STAT_TREE_LAYOUT + b"\0")
        for f in [src, C.VERIF / "translator" / "py2gallina_stats.py", C.COQ / "Stats" / "GenAgree.v"] + \
                 [C.COQ / v[:-1] for v in STAT_MODEL_VO]:
            try:
                h.update(f.read_bytes())
            except OSError:
                h.update(b"<missing>")
            h.update(b"\0")
        self.key = h.hexdigest()[:16]
        self.dir = STAT_TREES / self.key
        self.info: dict = {}
        self.failed_theorems: list[dict] = []       # agreement theorems that no longer check
        self.gen_error = ""                          # Gen_Stats.v itself does not compile
        self.timing: dict = {}

    # -- translation + compilation (once per key; later runs only re-check freshness)
    def prepare(self):
        self.dir.mkdir(parents=True, exist_ok=True)
        t0 = time.time()
        with open(self.dir / ".lock", "w") as lk:
            fcntl.flock(lk, fcntl.LOCK_EX)
            try:
                self._translate()
                self._build()
            finally:
                fcntl.flock(lk, fcntl.LOCK_UN)
        self._sweep()
        self.timing["prepare_s"] = round(time.time() - t0, 2)
        return self

    def _translate(self):
        j = self.dir / "Gen_Stats.json"
        if not j.exists():
            t0 = time.time()
            env = dict(os.environ)
            env["VERIF_REPO"] = str(C.REPO)
            env["PYTHONDONTWRITEBYTECODE"] = "1"
            p = subprocess.run(["timeout", "120", C.PY, str(C.VERIF / "translator" / "py2gallina_stats.py"),
                                "--out", str(self.dir), "--keep-going"], capture_output=True, text=True, env=env)
            (self.dir / "translator.log").write_text(p.stdout + p.stderr)
            if not j.exists():
                j.write_text(json.dumps({"ok": False, "repo": str(C.REPO), "methods": [], "failures": [
                    {"class": None, "line": 0, "construct": "translator crashed",
                     "error": f"translator exit {p.returncode}: " + (p.stderr or p.stdout)[-1500:]}]}))
            self.timing["translate_s"] = round(time.time() - t0, 2)
        self.info = json.loads(j.read_text())
        if Path(self.info.get("repo", "")).resolve() != C.REPO.resolve():
            raise RuntimeError(f"translator read {self.info.get('repo')} but the check runs against {C.REPO}")

    def _fresh(self, vo: Path, v: Path, deps) -> bool:
        return vo.exists() and vo.stat().st_mtime_ns >= v.stat().st_mtime_ns and \
            all(d.exists() and d.stat().st_mtime_ns <= vo.stat().st_mtime_ns for d in deps)

    def _build(self):
        static = [C.COQ / v for v in STAT_MODEL_VO]
        gv, gvo = self.dir / "Gen_Stats.v", self.dir / "Gen_Stats.vo"
        av, avo = self.dir / "GenAgree.v", self.dir / "GenAgree.vo"
        state = self.dir / "agree_state.json"
        self.gen_error, self.failed_theorems = "", []
        if not gv.exists():
            self.gen_error = "no Gen_Stats.v (translation failed)"
            return
        if not self._fresh(gvo, gv, static):
            t0 = time.time()
            rc, out = _coqc_tree(self.dir, gv, timeout=300)
            self.timing["coqc_gen_s"] = round(time.time() - t0, 2)
            if rc != 0:
                gvo.unlink(missing_ok=True)
                self.gen_error = out[-2500:]
                return
        if self._fresh(avo, av, [gvo] + static) and state.exists():
            self.failed_theorems = json.loads(state.read_text())
            return
        t0 = time.time()
        text = stats_tree_source((C.COQ / "Stats" / "GenAgree.v").read_text())
        self.failed_theorems = []
        seen = {}

        def note(name, why):
            if name not in seen:
                seen[name] = 0
                self.failed_theorems.append({"theorem": name, "why": why})

        # items about a class the translator had to leave out cannot check: drop them first
        for cname in [f["class"] for f in self.info.get("failures", []) if f.get("class")]:
            for kind, name, _a, _b in self._items(text):
                if f"gen_{cname}_" in self._item_text(text, name):
                    note(name, f"class {cname} could not be translated")
                    seen[name] = 2
                    text = self._drop(text, name)
        for _ in range(120):
            av.write_text(text)
            rc, out = _coqc_tree(self.dir, av, timeout=600)
            if rc == 0:
                break
            m = re.search(r'File "[^"]*GenAgree\.v", line (\d+)', out)
            item = self._item_at(text, int(m.group(1))) if m else None
            err = re.sub(r"\s+", " ", out[out.find("Error"):])[:600]
            if item is None or seen.get(item[1], 0) >= 2:
                avo.unlink(missing_ok=True)
                note("GenAgree.v", out[-1500:])
                break
            kind, name = item[0], item[1]
            note(name, err)
            seen[name] += 1
            # first the proof is given up (the statement stays, nothing is defined); if the statement itself
            # does not check any more (it mentions something given up before), the whole item goes
            text = self._abort(text, name) if (kind in ("Theorem", "Lemma") and seen[name] == 1) else self._drop(text, name)
        state.write_text(json.dumps(self.failed_theorems))
        self.timing["coqc_agree_s"] = round(time.time() - t0, 2)

    _ITEM = re.compile(r"^[ \t]*(Theorem|Lemma|Definition|Fixpoint)\s+([A-Za-z0-9_']+)", re.M)

    @classmethod
    def _items(cls, text: str):
        """(kind, name, start, end) of every theorem (up to its Qed) and definition (up to its full stop)"""
        out = []
        for m in cls._ITEM.finditer(text):
            if out and m.start() < out[-1][3]:
                continue
            if m.group(1) in ("Theorem", "Lemma"):
                q = re.compile(r"\bQed\.").search(text, m.end())
            else:
                q = re.compile(r"\.(?=\s|$)").search(text, m.end())
            out.append((m.group(1), m.group(2), m.start(), q.end() if q else len(text)))
        return out

    def _item_text(self, text: str, name: str) -> str:
        for _k, n, a, b in self._items(text):
            if n == name:
                return text[a:b]
        return ""

    def _item_at(self, text: str, line: int):
        pos = sum(len(l) + 1 for l in text.split("\n")[:line - 1])
        best = None
        for it in self._items(text):
            if it[2] <= pos + 1:
                best = it
        return best

    def _abort(self, text: str, name: str) -> str:
        """the same file with the proof of one theorem given up (statement kept, nothing defined)"""
        for _k, n, a, b in self._items(text):
            if n == name:
                body = text[a:b]
                i = body.find("Proof.")
                if i < 0:
                    return self._drop(text, name)
                return text[:a] + body[:i] + "Proof. Abort. (* no longer checks *)" + text[b:]
        return text

    def _drop(self, text: str, name: str) -> str:
        for _k, n, a, b in self._items(text):
            if n == name:
                keep_lines = "\n" * text[a:b].count("\n")
                return text[:a] + f"(* {name}: no longer checks, left out *)" + keep_lines + text[b:]
        return text

    def _sweep(self):
        try:
            for d in STAT_TREES.iterdir():
                if d.is_dir() and d != self.dir and time.time() - d.stat().st_mtime > 86400:
                    shutil.rmtree(d, ignore_errors=True)
            os.utime(self.dir)
        except OSError:
            pass

    # -- what a check needs to know
    def agreement_theorems(self):
        return _THM.findall((C.COQ / "Stats" / "GenAgree.v").read_text())

    def broken_for(self, pid: str):
        """None when the regenerated model of this property's classes is proved equal to the hand-written one;
        otherwise a description of what no longer checks."""
        classes = STAT_CLASSES[pid]
        own = {"C09": ("gen_tstep", "gen_trun", "gen_trun_eq", "gen_cstep", "gen_crun", "gen_crun_eq",
                       "tally_counter_generated_agree", "ofZ_order", "ofZ_order_Q", "icdf_no_nan"),
               "C10": ("gen_wstep", "gen_wrun", "gen_wrun_eq", "gen_tsstep", "gen_tsrun", "gen_tsrun_eq",
                       "weighted_timestamp_generated_agree")}[pid]

        def mine(n):
            return any(f"gen_{c}_" in n for c in classes) or n in own or n == "GenAgree.v"
        fails = [f for f in self.info.get("failures", []) if f.get("class") in classes or f.get("class") is None]
        thms = [f for f in self.failed_theorems if mine(f["theorem"] or "")]
        if self.gen_error and not fails:
            return {"stage": "generated file does not compile", "detail": self.gen_error[-1200:], "theorems": []}
        if fails:
            return {"stage": "translation", "detail": "; ".join(f["error"] for f in fails),
                    "theorems": [t["theorem"] for t in thms], "failures": fails}
        if thms:
            return {"stage": "agreement proof", "detail": thms[0]["why"], "theorems": [t["theorem"] for t in thms]}
        return None

    def coverage(self, pid: str) -> dict:
        classes = STAT_CLASSES[pid]
        ms = [m for m in self.info.get("methods", []) if m["class"] in classes]
        h = hashlib.sha1()
        for m in sorted(ms, key=lambda r: (r["lines"][0], r["definition"])):
            h.update((m["definition"] + ":" + m["sha1"] + "\n").encode())
        return {"translator": "translator/py2gallina_stats.py (Python ast, fail-closed; module under test not imported)",
                "source": self.info.get("source"), "source_sha1": self.info.get("source_sha1"),
                "tree_directory": f".scratch/stats/trees/{self.key}",
                "translated_methods": [{"method": f"{m['class']}.{m['method']}" + ("" if not m.get("static") else
                                                   " [" + ", ".join(f"{k}={v}" for k, v in m["static"].items()) + "]"),
                                        "lines": m["lines"], "definition": m["definition"]} for m in ms],
                "translated_text_sha1": h.hexdigest() if ms else None,
                "translated_text_sha1_all_classes": self.info.get("translated_text_sha1"),
                "translation_failures": self.info.get("failures", []),
                "agreement_theorems": [n for n in self.agreement_theorems()],
                "agreement_theorems_not_checking": self.failed_theorems,
                "timing": self.timing}

    def props_report(self, pid: str, keep: bool = False) -> dict:
        """re-check coq/Props/<pid>.v against the generated model of this tree; theorem names and axioms"""
        text = stats_tree_source((C.COQ / "Props" / f"{pid}.v").read_text())
        theorems = re.findall(r"^\s*Theorem\s+([A-Za-z0-9_']+)", text, re.M)
        printed = re.findall(r"^\s*Print Assumptions\s+([A-Za-z0-9_']+)", text, re.M)
        d = self.dir / f"props_{pid}_{os.getpid()}"
        d.mkdir(exist_ok=True)
        f = d / f"{pid}_recheck.v"
        f.write_text(text)
        rc, out = _coqc_tree(self.dir, f, timeout=900)
        if not keep:
            shutil.rmtree(d, ignore_errors=True)
        blocks = [b for b in re.split(r"(?=Closed under the global context|Axioms:)", out)
                  if b.startswith("Closed under the global context") or b.startswith("Axioms:")]
        assumptions = {}
        for name, b in zip(printed, blocks):
            assumptions[name] = [] if b.startswith("Closed") else \
                sorted(set(re.findall(r"^([A-Za-z_][A-Za-z0-9_'.]*)\s*:", b, re.M)))
        return {"ok": rc == 0, "theorems": theorems, "assumptions": assumptions, "log": out[-4000:], "printed": printed,
                "dir": d, "module": f"PVT.{d.name}.{pid}_recheck"}


def check_proofs(run: C.Run, tree: StatsTree, static_targets, extra_tb=None) -> bool:
    """What common.Run.check_proofs does, with the part that depends on the source text (Gen_Stats, GenAgree,
    the last section of Props/<pid>.v) taken from the run's own tree directory."""
    gate = C.source_gate()
    ok, log = C.build_coq(static_targets)
    thorough = run.tier == "thorough" and not os.environ.get("VERIF_NO_COQCHK")
    rep = tree.props_report(run.pid, keep=thorough)
    n = len(rep["theorems"])
    run.cov["obligations"] = max(n, 1)
    run.cov["discharged"] = n if (ok and rep["ok"] and not gate) else 0
    run.cov["theorems"] = rep["theorems"]
    run.cov["axioms_per_theorem"] = rep["assumptions"]
    run.cov["source_translation"] = tree.coverage(run.pid)
    rel = f".scratch/stats/trees/{tree.key}"
    run.cov["checker_cmd"] = (f"python3 translator/py2gallina_stats.py --out {rel} && python3 tools/build.py {' '.join(static_targets)} && "
                              f"coqc -R coq PV -R {rel} PVT <Gen_Stats.v, coq/Stats/GenAgree.v, coq/Props/{run.pid}.v> "
                              "(generated module imported from PVT; full .vo; Print Assumptions under every theorem)")
    axioms = sorted({a for v in rep["assumptions"].values() for a in v})
    tb = [C.KERNEL_TB,
          "axioms reported by Print Assumptions: " + (", ".join(axioms) if axioms else "none (all theorems closed under the global context)"),
          "hand-written Gallina model tied to /repo (a) by the per-run correspondence check (harness/%s.py) and (b) by "
          "equality with the model regenerated from the source text on every run (translator/py2gallina_stats.py + "
          "coq/Stats/GenAgree.v)" % run.pid.lower(),
          "the translator translator/py2gallina_stats.py: its Python subset and the meaning it gives to it (float / and math.sqrt "
          "raise exactly on a zero divisor / negative argument, static math.nan, int meets float through ofZ, self.m() resolved "
          "statically, parameters range over the model's value universe), and its tables saying which record field stands for "
          "which attribute"]
    run.cov["trusted_base"] = tb + list(extra_tb or [])
    good = ok and rep["ok"] and not gate
    if good and thorough:
        run.coqchk([rep["module"]], extra_roots=["-R", str(tree.dir), "PVT"])
    if thorough:
        shutil.rmtree(rep["dir"], ignore_errors=True)
    if gate:
        run.violation("forbidden-construct", "forbidden construct in the Coq development: " + "; ".join(gate[:5]),
                      {"lines": gate}, found_input=False)
        return False
    if not good:
        run.proof_log = (log[-2000:] if not ok else "") + rep["log"][-2000:]
        return False
    return True


def report_broken_tie(run: C.Run, tree: StatsTree, extra: dict | None = None):
    """the regenerated model no longer equals the proved one and no explored input violates the property itself"""
    b = tree.broken_for(run.pid)
    if not b:
        return
    names = [t for t in b["theorems"] if t] or ["(none compiled: " + b["stage"] + ")"]
    what = ("the model regenerated from src/pydsol/core/statistics.py is no longer proved equal to the model the "
            f"{run.pid} theorems are about ({b['stage']}): " +
            (b["detail"][:300] if b["stage"] == "translation" else "agreement theorem(s) " + ", ".join(names[:6]) + " of coq/Stats/GenAgree.v no longer check") +
            "; the Fraction oracle found no input on which the changed code violates the property")
    body = {"relation": "coq/Stats/GenAgree.v: " + ", ".join(names), "stage": b["stage"], "detail": b["detail"],
            "unchecked_theorems": names, "generated_file": str(tree.dir / "Gen_Stats.v"),
            "how": f"VERIF_REPO={C.REPO} python3 translator/py2gallina_stats.py --out <dir>; coqc -R coq PV -R <dir> PVT "
                   "<dir>/Gen_Stats.v, then coq/Stats/GenAgree.v with the generated module imported from PVT"}
    if b.get("failures"):
        body["translation_failures"] = b["failures"]
    body.update(extra or {})
    run.violation("translated-model-differs", what, body, found_input=False)
