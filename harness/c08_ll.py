"""C08, library listeners: the listeners of a plain EventProducer are the library's OWN listener classes --
EventBasedCounter / EventBasedTally objects of pydsol.core.statistics -- several of them with the same name and,
at the moment they are subscribed / unsubscribed, the same state (fresh, or made equal again by initialize()).
The property speaks of listeners, i.e. objects: two distinct objects are two listeners however alike they look.
The reference subscription map written here identifies a listener by object identity (its index in the case);
deliveries are observed through each object's own n() / count().  The Gallina model is not involved in this
family (its listeners are indices already; the order of delivery cannot be observed through n()).
"""
from __future__ import annotations

import random
import warnings

N_ET = 2          # type 0 = StatEvents.DATA_EVENT (the only one these listeners accept), type 1 = a type that is never fired
LISTENER_SETS = [
    [["counter", "A"], ["counter", "A"], ["counter", "B"], ["tally", "A"], ["tally", "A"]],
    [["counter", "A"], ["counter", "A"], ["counter", "A"], ["tally", "T"]],
    [["tally", "A"], ["tally", "A"], ["counter", "A"], ["counter", "B"], ["counter", "B"]],
    [["counter", "X"], ["counter", "Y"], ["counter", "X"]],
]
_uid = [0]


def gen_lcase(rng: random.Random):
    """-> {"listeners": [[kind, name]], "ops": [...]}
    ops: [add, et, l] [remove, et, l] [remove_all, et|None, l|None] [fire, value] [init, l] [has]"""
    r = rng
    lis = [list(x) for x in r.choice(LISTENER_SETS)]
    n = len(lis)
    ops = []
    for _ in range(r.randint(5, 16)):
        x = r.random()
        et = 0 if r.random() < 0.8 else 1
        if x < 0.36:
            ops.append(["add", et, r.randrange(n)])
        elif x < 0.56:
            ops.append(["remove", et, r.randrange(n)])
        elif x < 0.64:
            ops.append(["remove_all", r.choice([None, et]), r.choice([None, r.randrange(n)])])
        elif x < 0.88:
            ops.append(["fire", r.randint(1, 5)])
        elif x < 0.96:
            ops.append(["init", r.randrange(n)])
        else:
            ops.append(["has"])
    ops += [["has"], ["fire", 1]]
    return {"listeners": lis, "ops": ops}


def run_lcase(ps, case):
    """run one case on the real classes with the reference map alongside -> (observations, findings)"""
    warnings.filterwarnings("ignore", category=SyntaxWarning)
    import pydsol.core.statistics as st
    from pydsol.core.interfaces import StatEvents
    _uid[0] += 1
    ets = [StatEvents.DATA_EVENT, ps.EventType(f"C08_LL{_uid[0]}")]
    prod = ps.EventProducer()
    objs = [(st.EventBasedCounter if k == "counter" else st.EventBasedTally)(f"c08-{name}") for k, name in case["listeners"]]
    ref = {e: [] for e in range(N_ET)}           # event type -> listener indices, in subscription order (identity)
    obs, findings = [], []

    def snap():
        return [(o.n(), o.count() if isinstance(o, st.EventBasedCounter) else None) for o in objs]
    for op in case["ops"]:
        kind = op[0]
        try:
            if kind == "add":
                prod.add_listener(ets[op[1]], objs[op[2]])
                if op[2] not in ref[op[1]]:
                    ref[op[1]].append(op[2])
                obs.append(["ret"])
            elif kind == "remove":
                prod.remove_listener(ets[op[1]], objs[op[2]])
                if op[2] in ref[op[1]]:
                    ref[op[1]].remove(op[2])
                obs.append(["ret"])
            elif kind == "remove_all":
                et, l = op[1], op[2]
                prod.remove_all_listeners(None if et is None else ets[et], None if l is None else objs[l])
                for e in ref:
                    if et is None or e == et:
                        ref[e] = [] if l is None else [x for x in ref[e] if x != l]
                obs.append(["ret"])
            elif kind == "init":
                objs[op[1]].initialize()
                obs.append(["ret"])
            elif kind == "has":
                h = prod.has_listeners()
                obs.append(["h", h])
                if h is not any(ref.values()):
                    findings.append(("has-listeners-wrong", f"has_listeners() returned {h!r}, subscribed listeners (by identity) {ref}"))
            elif kind == "fire":
                before = snap()
                prod.fire(ets[0], op[1])
                after = snap()
                got = [a[0] - b[0] for a, b in zip(after, before)]
                obs.append(["f", got])
                exp = [1 if i in ref[0] else 0 for i in range(len(objs))]
                if got != exp:
                    if any(g > 0 and e == 0 for g, e in zip(got, exp)):
                        sig = "delivered-to-non-subscriber"
                    elif any(g == 0 and e == 1 for g, e in zip(got, exp)):
                        sig = "subscriber-missed"
                    else:
                        sig = "delivered-twice"
                    findings.append((sig, f"fire(DATA_EVENT, {op[1]}) with library listeners {case['listeners']}: listeners subscribed "
                                          f"(by object identity) {ref[0]}, notifications per listener (increase of its n()) {got}, expected {exp}"))
                elif any(a[1] is not None and a[1] - b[1] != op[1] * e for a, b, e in zip(after, before, exp)):
                    findings.append(("delivered-event-differs", f"fire(DATA_EVENT, {op[1]}): a counter's count() did not grow by the fired value"))
        except Exception as exc:  # noqa
            obs.append(["raise", type(exc).__name__])
            findings.append(("unexpected-exception", f"{op} with library listeners raised {type(exc).__name__}: {exc}"))
    return obs, findings


def shrink_lcase(case, failing):
    cur = {"listeners": [list(x) for x in case["listeners"]], "ops": [list(o) for o in case["ops"]]}
    changed = True
    while changed:
        changed = False
        for i in range(len(cur["ops"])):
            cand = {"listeners": cur["listeners"], "ops": cur["ops"][:i] + cur["ops"][i + 1:]}
            if cand["ops"] and failing(cand):
                cur, changed = cand, True
                break
    return cur
