"""C11, second tie: the simulation statistics regenerated from the source text (translator/py2gallina_simstats.py)
must be proved equal to the hand-written model (coq/Stats/SimGenAgree.v) on every run.

Every run translates src/pydsol/core/statistics.py (EventBased* / Sim* classes), model.py (the dictionary methods of
DSOLModel) and simulator.py (the statements of Simulator.initialize about the model) of the tree under test into
.scratch/simstats/trees/<key>/Gen_SimStats.v, compiles it and the agreement proofs (copied there, the generated module
imported from the second logical root PVT) and re-checks Props/C11.v against them.  <key> hashes the tree's sources,
the translator, SimGenAgree.v and the model sources, so runs against different trees never share a generated file and
a finished directory is never stale.  coq/Stats/Gen_SimStats.v (tools/regen.sh) is only for setup / `build all` and
is not touched here.  (Same machinery as harness/simtr.py / c08lib.py: an item ends at Qed|Abort; everything that
rests on a failed item is given up in the same pass, so the ROOT failures are what is named.)

Also here: the extra batch of cases run when the tie is broken -- the EventBased* classes driven directly (the Sim*
classes override _fire_events / _fire_initialized, so a change in the EventBased* versions is invisible through them)
with a re-entrant subscriber, judged by the clauses of C11 that speak of any statistic: every published payload equals
a fresh query made inside notify, the observation is registered before anything is published, and the statistic ends
in the state of the ordinary statistic fed the same registrations.
"""
from __future__ import annotations

import fcntl
import hashlib
import json
import os
import re
import shutil
import subprocess
import time
from pathlib import Path

import common as C

TREES = C.SCRATCH / "simstats" / "trees"
LAYOUT = b"2"        # bump when the way a tree directory is filled changes
MODEL_VO = ["EventList/Key.vo", "Sim/Model.vo", "Sim/Case.vo", "Stats/Num.vo", "Stats/Tally.vo", "Stats/Weighted.vo", "Stats/Timestamp.vo",
            "Stats/TallyProofs.vo", "Stats/TimestampProofs.vo", "Stats/SimStats.vo", "Stats/SimStatsProofs.vo"]
SOURCES = ["statistics.py", "model.py", "simulator.py", "pubsub.py", "interfaces.py"]
_IMPORT = re.compile(r"^From PV Require Import ((?:Stats\.(?:Gen_SimStats|SimGenAgree)\s*)+)\.\s*$", re.M)
_COQ_WARN = "-notation-overridden,-deprecated-hint-without-locality,-abstract-large-number"
_THM = re.compile(r"^[ \t]*(?:Theorem|Lemma)\s+([A-Za-z0-9_']+)", re.M)
TRANSLATOR = "translator/py2gallina_simstats.py"
GEN = "Gen_SimStats"
AGREE = "SimGenAgree"


def tree_source(text: str) -> str:
    return _IMPORT.sub(lambda m: "From PVT Require Import " + " ".join(x.replace("Stats.", "") for x in m.group(1).split()) + ".", text)


def _coqc_tree(tree: Path, path: Path, timeout: int = 600):
    cmd = ["timeout", str(timeout), "coqc", "-R", str(C.COQ), "PV", "-R", str(tree), "PVT", "-w", _COQ_WARN, str(path)]
    p = subprocess.run(cmd, capture_output=True, text=True, cwd=path.parent)
    return p.returncode, p.stdout + p.stderr


class SimStatsTree:
    """Gen_SimStats.v / SimGenAgree.v of the tree under test, built in a directory of their own."""

    def __init__(self):
        core = C.REPO / "src" / "pydsol" / "core"
        self.src = core / "statistics.py"
        h = hashlib.sha1(str(C.REPO.resolve()).encode() + b"\0" + LAYOUT + b"\0")
        for f in [core / n for n in SOURCES] + [C.VERIF / TRANSLATOR, C.COQ / "Stats" / f"{AGREE}.v"] + [C.COQ / v[:-1] for v in MODEL_VO]:
            try:
                h.update(f.read_bytes())
            except OSError:
                h.update(b"<missing>")
            h.update(b"\0")
        self.key = h.hexdigest()[:16]
        self.dir = TREES / self.key
        self.info: dict = {}
        self.failed_theorems: list[dict] = []
        self.gen_error = ""
        self.timing: dict = {}

    def prepare(self):
        self.dir.mkdir(parents=True, exist_ok=True)
        t0 = time.time()
        ok, log = C.build_coq(MODEL_VO)
        if not ok:
            raise RuntimeError("the model the agreement proofs are about does not build: " + log[-800:])
        with open(self.dir / ".lock", "w") as lk:
            fcntl.flock(lk, fcntl.LOCK_EX)
            try:
                self._translate()
                self._build()
            finally:
                fcntl.flock(lk, fcntl.LOCK_UN)
        self._sweep()
        self.timing["prepare_s"] = round(time.time() - t0, 2)
        return self

    def _translate(self):
        j = self.dir / f"{GEN}.json"
        if not j.exists():
            t0 = time.time()
            env = dict(os.environ)
            env["VERIF_REPO"] = str(C.REPO)
            env["PYTHONDONTWRITEBYTECODE"] = "1"
            p = subprocess.run(["timeout", "120", C.PY, str(C.VERIF / TRANSLATOR), "--out", str(self.dir), "--keep-going"],
                               capture_output=True, text=True, env=env)
            (self.dir / "translator.log").write_text(p.stdout + p.stderr)
            if not j.exists():
                j.write_text(json.dumps({"ok": False, "repo": str(C.REPO), "methods": [], "failures": [
                    {"class": None, "method": None, "definition": None, "line": 0, "construct": "translator crashed",
                     "error": f"translator exit {p.returncode}: " + (p.stderr or p.stdout)[-1500:]}]}))
            self.timing["translate_s"] = round(time.time() - t0, 2)
        self.info = json.loads(j.read_text())
        if Path(self.info.get("repo", "")).resolve() != C.REPO.resolve():
            raise RuntimeError(f"translator read {self.info.get('repo')} but the check runs against {C.REPO}")

    @staticmethod
    def _fresh(vo: Path, v: Path, deps) -> bool:
        return vo.exists() and vo.stat().st_mtime_ns >= v.stat().st_mtime_ns and \
            all(d.exists() and d.stat().st_mtime_ns <= vo.stat().st_mtime_ns for d in deps)

    def _build(self):
        static = [C.COQ / v for v in MODEL_VO]
        gv, gvo = self.dir / f"{GEN}.v", self.dir / f"{GEN}.vo"
        av, avo = self.dir / f"{AGREE}.v", self.dir / f"{AGREE}.vo"
        state = self.dir / "agree_state.json"
        self.gen_error, self.failed_theorems = "", []
        if not gv.exists():
            self.gen_error = f"no {GEN}.v (translation failed)"
            return
        if not self._fresh(gvo, gv, static):
            t0 = time.time()
            rc, out = _coqc_tree(self.dir, gv, timeout=300)
            self.timing["coqc_gen_s"] = round(time.time() - t0, 2)
            if rc != 0:
                gvo.unlink(missing_ok=True)
                avo.unlink(missing_ok=True)
                self.gen_error = out[-2500:]
                return
        if self._fresh(avo, av, [gvo] + static) and state.exists():
            self.failed_theorems = json.loads(state.read_text())
            return
        t0 = time.time()
        text = tree_source((C.COQ / "Stats" / f"{AGREE}.v").read_text())
        seen = {}

        def note(name, why):
            if name not in seen:
                seen[name] = 0
                self.failed_theorems.append({"theorem": name, "why": why})

        def give_up_dependents(text, root):
            """everything whose text mentions something that is gone cannot check either: give it up in the same pass
            (named as depending on the root failure, not as a failure of its own)"""
            gone = {t["theorem"] for t in self.failed_theorems}
            changed = True
            while changed:
                changed = False
                for kind, name, _a, _b in self._items(text):
                    if name in gone:
                        continue
                    body = self._item_text(text, name)
                    hit = next((g for g in gone if re.search(r"\b" + re.escape(g) + r"\b", body)), None)
                    if hit:
                        note(name, f"depends on {hit} (root: {root})")
                        self.failed_theorems[-1]["root"] = False
                        seen[name] = 1
                        i = body.find("Proof.")
                        in_statement = kind in self._PROVED and i >= 0 and re.search(r"\b" + re.escape(hit) + r"\b", body[:i])
                        text = self._abort(text, name) if (kind in self._PROVED and not in_statement) else self._drop(text, name)
                        gone.add(name)
                        changed = True
                        break
            return text

        # items about a method the translator had to leave out cannot check: drop them first
        for d in [f["definition"] for f in self.info.get("failures", []) if f.get("definition")]:
            pat = re.compile(r"\b" + re.escape(d) + r"\b")
            for _kind, name, _a, _b in self._items(text):
                if pat.search(self._item_text(text, name)):
                    note(name, f"{d} could not be translated")
                    seen[name] = 2
                    text = self._drop(text, name)
        if self.failed_theorems:
            text = give_up_dependents(text, "a method that could not be translated")

        for _ in range(60):
            av.write_text(text)
            rc, out = _coqc_tree(self.dir, av, timeout=600)
            if rc == 0:
                break
            m = re.search(r'File "[^"]*SimGenAgree\.v", line (\d+)', out)
            item = self._item_at(text, int(m.group(1))) if m else None
            err = re.sub(r"\s+", " ", out[out.find("Error"):])[:600]
            if item is None or seen.get(item[1], 0) >= 2:
                avo.unlink(missing_ok=True)
                note(f"{AGREE}.v", out[-1500:])
                break
            kind, name = item[0], item[1]
            note(name, err)
            seen[name] += 1
            # first the proof is given up (the statement stays, nothing is defined); if the statement itself does
            # not check any more (it mentions something given up before), the whole item goes
            text = self._abort(text, name) if (kind in self._PROVED and seen[name] == 1) else self._drop(text, name)
            text = give_up_dependents(text, name)
        state.write_text(json.dumps(self.failed_theorems))
        self.timing["coqc_agree_s"] = round(time.time() - t0, 2)

    _PROVED = ("Theorem", "Lemma", "Example")
    _ITEM = re.compile(r"^[ \t]*(Theorem|Lemma|Example|Definition|Fixpoint|Inductive|Local Notation)\s+([A-Za-z0-9_']+)", re.M)

    @classmethod
    def _items(cls, text: str):
        out = []
        for m in cls._ITEM.finditer(text):
            if out and m.start() < out[-1][3]:
                continue
            if m.group(1) in cls._PROVED:
                q = re.compile(r"\b(?:Qed|Abort)\.").search(text, m.end())
            else:
                q = re.compile(r"\.(?=\s|$)").search(text, m.end())
            out.append((m.group(1), m.group(2), m.start(), q.end() if q else len(text)))
        return out

    def _item_text(self, text: str, name: str) -> str:
        for _k, n, a, b in self._items(text):
            if n == name:
                return text[a:b]
        return ""

    def _item_at(self, text: str, line: int):
        """the item the given line lies in (None: the line is outside every item)"""
        lines = text.split("\n")
        pos = sum(len(l) + 1 for l in lines[:line - 1])
        end = pos + len(lines[line - 1]) if line - 1 < len(lines) else pos
        for it in self._items(text):
            if it[2] <= end and pos < it[3]:
                return it
        return None

    def _abort(self, text: str, name: str) -> str:
        for _k, n, a, b in self._items(text):
            if n == name:
                body = text[a:b]
                i = body.find("Proof.")
                if i < 0:
                    return self._drop(text, name)
                keep_lines = "\n" * body[i:].count("\n")
                return text[:a] + body[:i] + "Proof. Abort. (* no longer checks *)" + keep_lines + text[b:]
        return text

    def _drop(self, text: str, name: str) -> str:
        for _k, n, a, b in self._items(text):
            if n == name:
                keep_lines = "\n" * text[a:b].count("\n")
                return text[:a] + f"(* {name}: no longer checks, left out *)" + keep_lines + text[b:]
        return text

    def _sweep(self):
        try:
            for d in TREES.iterdir():
                if d.is_dir() and d != self.dir and time.time() - d.stat().st_mtime > 86400:
                    shutil.rmtree(d, ignore_errors=True)
            os.utime(self.dir)
        except OSError:
            pass

    # -- what the check needs to know
    def agreement_theorems(self):
        return _THM.findall((C.COQ / "Stats" / f"{AGREE}.v").read_text())

    def broken(self):
        """None when the regenerated model is proved equal to the hand-written one; otherwise what no longer checks."""
        fails = self.info.get("failures", [])
        thms = [t for t in self.failed_theorems if t.get("theorem")]
        thms = [t for t in thms if t.get("root", True)] + [t for t in thms if not t.get("root", True)]
        if self.gen_error and not fails:
            return {"stage": "generated file does not compile", "detail": self.gen_error[-1200:], "theorems": []}
        if fails:
            return {"stage": "translation", "detail": "; ".join(f["error"] for f in fails),
                    "theorems": [t["theorem"] for t in thms], "failures": fails}
        if thms:
            return {"stage": "agreement proof", "detail": thms[0]["why"], "theorems": [t["theorem"] for t in thms],
                    "roots": [t["theorem"] for t in thms if t.get("root", True)]}
        return None

    def coverage(self) -> dict:
        ms = self.info.get("methods", [])
        return {"translator": TRANSLATOR + " (Python ast, fail-closed; module under test not imported)",
                "source": self.info.get("source"), "source_sha1": self.info.get("source_sha1"),
                "tree_directory": f".scratch/simstats/trees/{self.key}",
                "translated_methods": [{"method": f"{m['class']}.{m['method']}", "for_objects_of_class": m.get("concrete_class"),
                                        "file": m.get("file"), "lines": m["lines"], "text_sha1": m.get("sha1"),
                                        "definition": m["definition"]} for m in ms],
                "translated_text_sha1": self.info.get("translated_text_sha1"),
                "translation_failures": self.info.get("failures", []),
                "agreement_theorems": self.agreement_theorems(),
                "agreement_theorems_not_checking": self.failed_theorems,
                "hand_transcribed_only": self.info.get("hand_transcribed_only", []),
                "timing": self.timing}

    def props_report(self, pid: str, keep: bool = False) -> dict:
        """re-check coq/Props/<pid>.v against the generated model of this tree; theorem names and axioms"""
        text = tree_source((C.COQ / "Props" / f"{pid}.v").read_text())
        theorems = re.findall(r"^\s*Theorem\s+([A-Za-z0-9_']+)", text, re.M)
        printed = re.findall(r"^\s*Print Assumptions\s+([A-Za-z0-9_']+)", text, re.M)
        d = self.dir / f"props_{pid}_{os.getpid()}"
        d.mkdir(exist_ok=True)
        f = d / f"{pid}_recheck.v"
        f.write_text(text)
        rc, out = _coqc_tree(self.dir, f, timeout=900)
        if not keep:
            shutil.rmtree(d, ignore_errors=True)
        blocks = [b for b in re.split(r"(?=Closed under the global context|Axioms:)", out)
                  if b.startswith("Closed under the global context") or b.startswith("Axioms:")]
        assumptions = {}
        for name, b in zip(printed, blocks):
            assumptions[name] = [] if b.startswith("Closed") else \
                sorted(set(re.findall(r"^([A-Za-z_][A-Za-z0-9_'.]*)\s*:", b, re.M)))
        return {"ok": rc == 0, "theorems": theorems, "assumptions": assumptions, "log": out[-4000:], "printed": printed,
                "dir": d, "module": f"PVT.{d.name}.{pid}_recheck"}


def prepare(run: C.Run):
    """the tree of this run, or None (reported) when the model could not even be regenerated"""
    try:
        return SimStatsTree().prepare()
    except Exception as exc:  # noqa
        run.violation("translated-model-not-buildable", f"the model could not be regenerated from the source: {type(exc).__name__}: {exc}"[:600],
                      {"unchecked": "coq/Stats/SimGenAgree.v"}, found_input=False)
        return None


def static_targets(targets):
    """the part of a check's targets that does not depend on the source text (Props files import GenAgree)"""
    return [t for t in targets if not t.startswith("Props/") and t not in ("Stats/SimGenAgree.vo", "Stats/Gen_SimStats.vo")]


def check_proofs(run: C.Run, tree: SimStatsTree, targets, extra_tb=None) -> bool:
    """What common.Run.check_proofs does, with the part that depends on the source text (Gen_Sim, GenAgree, the
    last section of Props/<pid>.v) taken from the run's own tree directory."""
    gate = C.source_gate()
    st = static_targets(targets)
    ok, log = C.build_coq(st)
    thorough = run.tier == "thorough" and not os.environ.get("VERIF_NO_COQCHK")
    rep = tree.props_report(run.pid, keep=thorough)
    n = len(rep["theorems"])
    run.cov["obligations"] = max(n, 1)
    run.cov["discharged"] = n if (ok and rep["ok"] and not gate) else 0
    run.cov["theorems"] = rep["theorems"]
    run.cov["axioms_per_theorem"] = rep["assumptions"]
    run.cov["source_translation"] = tree.coverage()
    rel = f".scratch/simstats/trees/{tree.key}"
    run.cov["checker_cmd"] = (f"python3 {TRANSLATOR} --out {rel} && python3 tools/build.py {' '.join(st)} && "
                              f"coqc -R coq PV -R {rel} PVT <Gen_SimStats.v, coq/Stats/SimGenAgree.v, coq/Props/{run.pid}.v> "
                              "(generated module imported from PVT; full .vo; Print Assumptions under every theorem)")
    axioms = sorted({a for v in rep["assumptions"].values() for a in v})
    tb = [C.KERNEL_TB,
          "axioms reported by Print Assumptions: " + (", ".join(axioms) if axioms else "none (all theorems closed under the global context)"),
          "hand-written Gallina model tied to /repo (a) by the per-run correspondence check (harness/c11.py) and (b), for the methods of "
          "the EventBased* / Sim* classes, the dictionary methods of DSOLModel and the statements of Simulator.initialize about the model, "
          "by equality with the model regenerated from the source text on every run (translator/py2gallina_simstats.py + "
          "coq/Stats/SimGenAgree.v)",
          "the translator translator/py2gallina_simstats.py: its Python subset and the meaning it gives to it (the object is threaded "
          "through the statements in program order and the rest of a method is skipped while an exception propagates; the payload of "
          "fire / fire_timed is evaluated where the call stands, on the object as it is then; self.m() / super().m() / P.m(self) "
          "resolved statically per concrete class by the C3 order computed from the class statements; the listener tables of the "
          "simulator and of the model's producer and the model's dict are association lists in insertion order; a method returning "
          "the dict attribute returns the dict itself, dict(..) / .copy() a new one), its tables (value universe of every parameter, "
          "index of each published event type per kind, model function behind each query method of the ordinary statistics) and its "
          "fixed Gallina prelude (py_fire, py_notify_listener, py_plain, the constructor primitives); the ordinary statistics "
          "themselves are tied by translator/py2gallina_stats.py (C09 / C10)"]
    run.cov["trusted_base"] = tb + list(extra_tb or [])
    good = ok and rep["ok"] and not gate
    if good and thorough:
        run.coqchk([rep["module"]], extra_roots=["-R", str(tree.dir), "PVT"])
    if thorough:
        shutil.rmtree(rep["dir"], ignore_errors=True)
    if gate:
        run.violation("forbidden-construct", "forbidden construct in the Coq development: " + "; ".join(gate[:5]),
                      {"lines": gate}, found_input=False)
        return False
    if not good:
        run.proof_log = (log[-2000:] if not ok else "") + rep["log"][-2000:]
        return False
    return True


def report_broken_tie(run: C.Run, tree: SimStatsTree, extra: dict | None = None):
    """the regenerated model no longer equals the proved one and no explored input violates the property itself"""
    b = tree.broken()
    if not b:
        return
    names = [t for t in b["theorems"] if t] or ["(none compiled: " + b["stage"] + ")"]
    what = (f"the model regenerated from src/pydsol/core/{{statistics,model,simulator}}.py is no longer proved equal to the model the {run.pid} theorems "
            f"are about ({b['stage']}): " +
            (b["detail"][:400] if b["stage"] == "translation" else
             "agreement theorem(s) " + ", ".join((b.get("roots") or names)[:6]) + " of coq/Stats/SimGenAgree.v no longer check"
             + (f" (and {len(names) - len(b['roots'])} that rest on them)" if b.get("roots") and len(names) > len(b["roots"]) else "")) +
            "; the oracle (ordinary statistics fed the observations at or after the warm-up time, payload == fresh getter "
            "inside notify, lookup by key; plus the EventBased* classes driven directly) found no input on which the changed code "
            "violates the property")
    body = {"relation": "coq/Stats/SimGenAgree.v: " + ", ".join(b.get("roots") or names), "stage": b["stage"], "detail": b["detail"],
            "unchecked_theorems": names, "generated_file": str(tree.dir / f"{GEN}.v"),
            "how": f"VERIF_REPO={C.REPO} python3 {TRANSLATOR} --out <dir>; coqc -R coq PV -R <dir> PVT <dir>/{GEN}.v, "
                   "then coq/Stats/SimGenAgree.v with the generated module imported from PVT"}
    if b.get("failures"):
        body["translation_failures"] = b["failures"]
    body.update(extra or {})
    run.violation("translated-model-differs", what, body, found_input=False)


# ----------------------------------------------------------------------------- the EventBased* classes driven directly
DIRECT_KINDS = ["counter", "tally", "weighted", "persistent"]
DIRECT_EVENTS = {
    "counter": ["INITIALIZED_EVENT", "OBSERVATION_ADDED_EVENT", "N_EVENT", "COUNT_EVENT"],
    "tally": ["INITIALIZED_EVENT", "OBSERVATION_ADDED_EVENT", "N_EVENT", "MIN_EVENT", "MAX_EVENT", "SUM_EVENT", "MEAN_EVENT",
              "POPULATION_STDEV_EVENT", "POPULATION_VARIANCE_EVENT", "POPULATION_SKEWNESS_EVENT", "POPULATION_KURTOSIS_EVENT",
              "POPULATION_EXCESS_K_EVENT", "SAMPLE_STDEV_EVENT", "SAMPLE_VARIANCE_EVENT", "SAMPLE_SKEWNESS_EVENT",
              "SAMPLE_KURTOSIS_EVENT", "SAMPLE_EXCESS_K_EVENT"],
    "weighted": ["INITIALIZED_EVENT", "OBSERVATION_ADDED_EVENT", "N_EVENT", "MIN_EVENT", "MAX_EVENT", "WEIGHTED_SUM_EVENT",
                 "WEIGHTED_MEAN_EVENT", "WEIGHTED_POPULATION_STDEV_EVENT", "WEIGHTED_POPULATION_VARIANCE_EVENT",
                 "WEIGHTED_SAMPLE_STDEV_EVENT", "WEIGHTED_SAMPLE_VARIANCE_EVENT"],
}
DIRECT_EVENTS["persistent"] = DIRECT_EVENTS["weighted"]


def gen_direct_case(rng, i: int) -> dict:
    """operations on one EventBased* object: register / notify(data event) / initialize / end_observations, a subscriber on
    some of its event types that registers further observations from inside notify"""
    kind = DIRECT_KINDS[i % 4]
    ne = len(DIRECT_EVENTS[kind]) - 1
    r = rng.random()
    lsub = list(range(0, ne + 1)) if r < 0.5 else sorted(rng.sample(range(0, ne + 1), rng.randint(1, ne)))
    react = [(rng.randint(-3, 9) if rng.random() < 0.5 else None) for _ in range(rng.randint(0, 6))]
    ops, t = [], 0
    for _ in range(rng.randint(1, 7)):
        t += rng.choice([0, 1, 1, 2, 5])
        u = rng.random()
        v = rng.choice([rng.randint(-4, 9), 2.5, rng.uniform(-50.0, 50.0)])
        if kind == "counter":
            v = rng.randint(-3, 6)
        w = rng.choice([0.0, 1.0, 0.25, 2.0, rng.uniform(0.0, 5.0)])
        if u < 0.12:
            ops.append(["init"])
        elif u < 0.2 and kind == "persistent":
            ops.append(["end", t])
        elif u < 0.6:
            ops.append(["reg", t, w, v])
        else:
            ops.append(["notify", t, w, v])
    return {"kind": kind, "lsub": lsub, "react": react, "ops": ops}


def run_direct(case: dict):
    """(signature, description) of the first violated clause, or None"""
    from pydsol.core import statistics as ST
    from pydsol.core.interfaces import StatEvents
    from pydsol.core.pubsub import Event, TimedEvent, EventListener
    kind = case["kind"]
    names = DIRECT_EVENTS[kind]
    cls = {"counter": ST.EventBasedCounter, "tally": ST.EventBasedTally, "weighted": ST.EventBasedWeightedTally,
           "persistent": ST.EventBasedTimestampWeightedTally}[kind]
    plain = {"counter": ST.Counter, "tally": ST.Tally, "weighted": ST.WeightedTally,
             "persistent": ST.TimestampWeightedTally}[kind]("plain")
    o = cls("direct")
    now = [0.0]
    bad = []
    calls = []          # every registration in the order it was asked for: (args)

    def getters(st):
        if kind == "counter":
            return [None, None, st.n, st.count]
        if kind == "tally":
            return [None, None, st.n, st.min, st.max, st.sum, st.mean, st.stdev, st.variance, st.skewness, st.kurtosis,
                    st.excess_kurtosis, lambda: st.stdev(False), lambda: st.variance(False), lambda: st.skewness(False),
                    lambda: st.kurtosis(False), lambda: st.excess_kurtosis(False)]
        return [None, (st.last_value if kind == "persistent" else None), st.n, st.min, st.max, st.weighted_sum, st.weighted_mean,
                st.weighted_stdev, st.weighted_variance, lambda: st.weighted_stdev(False), lambda: st.weighted_variance(False)]

    def same(a, b):
        if isinstance(a, float) and isinstance(b, float):
            return a == b or (a != a and b != b)
        return type(a) is type(b) and a == b

    def reg_args(v, w):
        if kind == "counter":
            return (int(v),)
        if kind == "tally":
            return (float(v),)
        if kind == "weighted":
            return (float(w), float(v))
        return (now[0], float(v))

    def mark(a):
        """what must hold once the registration of a has been counted (the time-stamped statistic counts intervals, not
        observations: there the witness is last_value)"""
        return ("last", a[1]) if kind == "persistent" else ("n", o.n() + 1)

    def registered(m):
        return (o.last_value() == m[1]) if m[0] == "last" else (o.n() >= m[1])

    class Sub(EventListener):
        def __init__(self):
            self.react = list(case["react"])
            self.index = {id(getattr(StatEvents, nm)): j for j, nm in enumerate(names)}
            self.expect_n = None

        def notify(self, event):
            j = self.index.get(id(event.event_type), 99)
            if j == 99:
                bad.append(("unexpected-event-type-published", f"{kind}: an event type it never fires was delivered"))
                return
            if j == 0:
                if event.content is not o or o.n() != 0:
                    bad.append(("published-payload-differs-from-getter:" + kind,
                                f"event-based {kind}: INITIALIZED delivered before the statistic was reset (n() = {o.n()})"))
            else:
                m, self.expect_n = self.expect_n, None        # judged at the first delivery of that registration
                if m is not None and not registered(m):
                    bad.append(("published-before-registered:" + kind,
                                f"event-based {kind}: event #{j} was published before the observation being registered was "
                                f"counted (n() = {o.n()}" + (f", last_value() = {o.last_value()}" if kind == "persistent" else "") + ")"))
                g = getters(o)[j]
                if g is not None:
                    try:
                        fresh = g()
                    except Exception as exc:  # noqa
                        fresh = exc
                    if not same(event.content, fresh):
                        bad.append(("published-payload-differs-from-getter:" + kind,
                                    f"event-based {kind} published {event.content!r} on {names[j]} while the query method "
                                    f"answered {fresh!r} inside notify"))
            if self.react:
                r = self.react.pop(0)
                if r is not None:
                    a = reg_args(r, 1.0)
                    calls.append(a)
                    keep = self.expect_n
                    self.expect_n = mark(a)
                    try:
                        o.register(*a)
                    finally:
                        self.expect_n = keep

    sub = Sub()
    for j in case["lsub"]:
        o.add_listener(getattr(StatEvents, names[j]), sub)
    std = {"counter": StatEvents.DATA_EVENT, "tally": StatEvents.DATA_EVENT, "weighted": StatEvents.WEIGHT_DATA_EVENT,
           "persistent": StatEvents.TIMESTAMP_DATA_EVENT}[kind]
    try:
        for op in case["ops"]:
            if op[0] == "init":
                calls.append("init")
                sub.expect_n = None
                o.initialize()
            elif op[0] == "end":
                now[0] = float(op[1])
                calls.append(("end", now[0]))
                sub.expect_n = None
                o.end_observations(now[0])
            else:
                now[0] = float(op[1])
                a = reg_args(op[3], op[2])
                calls.append(a)
                sub.expect_n = mark(a)
                if op[0] == "reg":
                    o.register(*a)
                elif kind == "persistent":
                    o.notify(TimedEvent(now[0], std, a[1]))
                elif kind == "weighted":
                    o.notify(Event(std, (a[0], a[1])))
                else:
                    o.notify(Event(std, a[0]))
                sub.expect_n = None
    except Exception as exc:  # noqa
        return ("event-based-statistic-raises:" + kind, f"event-based {kind}: {type(exc).__name__}: {exc}"[:300])
    if bad:
        return bad[0]
    # the same registrations on the ordinary statistic
    try:
        for c in calls:
            if c == "init":
                plain.initialize()
            elif isinstance(c, tuple) and c and c[0] == "end":
                plain.end_observations(c[1])
            else:
                plain.register(*c)
    except Exception as exc:  # noqa
        return None          # the generator produced something the ordinary statistic refuses: not a finding
    for j, (g1, g2) in enumerate(zip(getters(o), getters(plain))):
        if g1 is None:
            continue
        try:
            a, b = g1(), g2()
        except Exception:  # noqa
            continue
        if not same(a, b):
            return ("event-based-statistic-differs-from-ordinary:" + kind,
                    f"event-based {kind}: {names[j]} query answers {a!r}, the ordinary statistic fed the same registrations {b!r}")
    return None


def direct_batch(rng, n: int):
    """first failing direct case: (signature, what, case) or None; number run"""
    for i in range(n):
        case = gen_direct_case(rng, i)
        f = run_direct(case)
        if f:
            # shrink: drop operations / reactions while the same clause fails
            cur = case
            changed = True
            while changed:
                changed = False
                for key in ("ops", "react"):
                    for k in range(len(cur[key]) - 1, -1, -1):
                        cand = json.loads(json.dumps(cur))
                        del cand[key][k]
                        if not cand["ops"]:
                            continue
                        g = run_direct(cand)
                        if g and g[0] == f[0]:
                            cur, changed = cand, True
                            break
                    if changed:
                        break
            g = run_direct(cur) or f
            return (g[0], g[1], cur), i + 1
    return None, n
