"""C08, EventType part: EventType(name, metadata) constructions from several defining sites
(function bodies, a class body, a lambda), interleaving accepted and refused ones, followed by
Event / TimedEvent constructions against the created types.  Run on the real classes, on the
Gallina model PubSub.TypeModel (inside coqc), and on a reference rule written here.
"""
from __future__ import annotations

import random

import common as C

N_SITES = 4
SITE_NAMES = ["c08_site_a", "c08_site_b", "C08SiteClass", "<lambda>"]
NOT_STR_NAMES = ["int", "none", "bytes", "tuple"]
NOT_TYPES = ["nt:int", "nt:str", "nt:none", "nt:inst"]
_uid = [0]


def make_sites(ps):
    def c08_site_a(name, md):
        return ps.EventType(name, md)

    def c08_site_b(name, md):
        return ps.EventType(name, md)

    def in_class(name, md):
        class C08SiteClass:
            ET = ps.EventType(name, md)
        return C08SiteClass.ET

    lam = lambda name, md: ps.EventType(name, md)  # noqa: E731
    return [c08_site_a, c08_site_b, in_class, lam]


def gen_tcase(rng: random.Random, main_gen_cls, value_types):
    """-> {"ctors": [[site, name, md]], "events": [[created_index, ts|None, content, chk]]}
    name: int (a str, numbered) or one of NOT_STR_NAMES; md: None or [[key_index, value]] with
    key_index 0..3 = str keys, 4..5 = non-str keys; value = class name or one of NOT_TYPES."""
    r = rng
    ctors = []
    for _ in range(r.randint(2, 8)):
        site = r.randrange(N_SITES)
        name = r.choice(NOT_STR_NAMES) if r.random() < 0.08 else r.randrange(3)
        x = r.random()
        if x < 0.3:
            md = None
        elif x < 0.36:
            md = []
        else:
            keys = r.sample(range(6), r.choice([1, 1, 2, 2, 3])) if r.random() < 0.2 else r.sample(range(4), r.choice([1, 1, 2, 2, 3]))
            md = [[k, (r.choice(NOT_TYPES) if r.random() < 0.12 else
                       r.choice(["TInt", "TInt", "TFloat", "TStr", "TBool", "TBase", "TObject", "TList", "TDict", "TDerived", "TNone"]))]
                  for k in keys]
        ctors.append([site, name, md])
    # events against the types the REFERENCE rule expects to be created
    exp = ref_types(ctors)
    created = [c for c, ok in zip(ctors, exp) if ok]
    events = []
    g = main_gen_cls(r, True)
    for i, (_, _, md) in enumerate(created[:4]):
        for _ in range(r.randint(1, 3)):
            c = g.content(md, 0.45)
            ts = g.ts() if r.random() < 0.3 else None
            events.append([i, ts, c, r.random() > 0.2])
    return {"ctors": ctors, "events": events}


# ---------------------------------------------------------------- reference rule (independent of Coq)
def ref_types(ctors, strict=True):
    """accepted? per construction, by the documented rules: name is a str, no event type with this
    (site, name) exists, metadata None or all keys str and all values types.  One point the
    documentation leaves open: the code registers the name before it looks at the metadata, so after
    an attempt refused because of its metadata the name stays taken.  strict=True answers as the
    pinned code does (refused); strict=False answers None (either outcome is acceptable)."""
    defined, burnt, unknown = set(), set(), set()
    out = []
    for site, name, md in ctors:
        if not isinstance(name, int):
            out.append(False)
            continue
        if (site, name) in unknown:
            out.append(None)
            continue
        if (site, name) in defined:
            out.append(False)
            continue
        md_ok = md is None or all(k < 4 and not str(v).startswith("nt:") for k, v in md)
        if (site, name) in burnt:
            if strict or not md_ok:
                out.append(False)
            else:
                out.append(None)
                unknown.add((site, name))
            continue
        if md_ok:
            defined.add((site, name))
        else:
            burnt.add((site, name))
        out.append(md_ok)
    return out


# ---------------------------------------------------------------- implementation
def run_tcase(ps, case, helpers):
    """-> (type observations, event observations).  helpers: module c08 (payload / timestamp builders)."""
    _uid[0] += 1
    uid = _uid[0]
    sites = make_sites(ps)
    KEYS, PYCLASS, Base = helpers.KEYS, helpers.PYCLASS, helpers.Base
    tobs, created = [], []
    for site, name, md in case["ctors"]:
        if isinstance(name, int):
            pname = f"c08n{uid}_{name}"
        else:
            pname = {"int": 5, "none": None, "bytes": b"x", "tuple": ("n",)}[name]
        if md is None:
            pmd = None
        else:
            pmd = {}
            for k, v in md:
                pmd[KEYS[k]] = PYCLASS[v] if not v.startswith("nt:") else {"nt:int": 3, "nt:str": "int", "nt:none": None, "nt:inst": Base()}[v]
        try:
            et = sites[site](pname, pmd)
        except ps.EventError:
            tobs.append(["refused"])
            continue
        except Exception as exc:  # noqa
            tobs.append(["other", type(exc).__name__])
            continue
        try:
            s_idx = SITE_NAMES.index(et.defining_class)
            n_idx = int(et.name.split("_")[1]) if isinstance(et.name, str) and et.name.startswith(f"c08n{uid}_") else -1
            same = (et.metadata is pmd)
            shown = str(et) == f"EventType[{et.defining_class}.{et.name}]"
            tobs.append(["accepted", s_idx, n_idx, bool(same and shown)])
        except Exception as exc:  # noqa
            tobs.append(["other", type(exc).__name__])
        created.append(et)
    eobs = []
    for i, ts, c, chk in case["events"]:
        if i >= len(created):
            eobs.append("other:no-such-type")
            continue
        ctx = helpers.Ctx.__new__(helpers.Ctx)
        ctx.keep, ctx.ident = [], {}
        payload = helpers.Ctx.payload(ctx, c)
        try:
            if ts is None:
                e = ps.Event(created[i], payload, chk)
                good = e.content is payload and e.event_type is created[i] and not isinstance(e, ps.TimedEvent)
            else:
                tv = helpers.Ctx.timestamp(ts)
                e = ps.TimedEvent(tv, created[i], payload, chk)
                good = e.content is payload and e.event_type is created[i] and helpers.Ctx.ts_canon(e.timestamp) == list(ts)
            eobs.append(True if good else "other:fields")
        except ps.EventError:
            eobs.append(False)
        except Exception as exc:  # noqa
            eobs.append("other:" + type(exc).__name__)
    return tobs, eobs


def judge_tcase(case, tobs, eobs, helpers):
    """reference verdicts -> list of (signature, what)"""
    out = []
    exp = ref_types(case["ctors"], strict=False)
    created_md = []
    for (site, name, md), ok, o in zip(case["ctors"], exp, tobs):
        if o[0] == "accepted":
            created_md.append(md)
        if o[0] == "other":
            out.append(("event-type-unexpected-exception", f"EventType construction {[site, name, md]} raised {o[1]}"))
        elif ok is None:
            continue
        elif ok and o[0] != "accepted":
            out.append(("event-type-rejected-wrongly", f"EventType(site={SITE_NAMES[site]}, name#{name}, metadata={md}) refused; constructions {case['ctors']}"))
        elif not ok and o[0] == "accepted":
            out.append(("event-type-accepted-wrongly", f"EventType(site={SITE_NAMES[site]}, name={name}, metadata={md}) accepted; constructions {case['ctors']}"))
        elif ok and (o[1] != site or o[2] != name or not o[3]):
            out.append(("event-type-fields-wrong", f"EventType(site={SITE_NAMES[site]}, name#{name}) reports defining_class/name/metadata {o[1:]}"))
    if out:
        return out
    for (i, ts, c, chk), o in zip(case["events"], eobs):
        want = helpers.ref_ctor(created_md[i], ts, c, chk) if i < len(created_md) else None
        if o is not want:
            sig = "event-accepted-wrongly" if o is True else ("event-rejected-wrongly" if o is False else "constructor-unexpected-exception")
            out.append((sig, f"{'TimedEvent' if ts else 'Event'}(type declared with metadata={created_md[i] if i < len(created_md) else None}, "
                             f"timestamp={ts}, content={c}, check={chk}): implementation accepted={o}, the rule says {want}"))
    return out


# ---------------------------------------------------------------- Coq emission
def cname(n):
    return f"(NameStr {n})" if isinstance(n, int) else "NameNotStr"


def craw(md):
    if md is None:
        return "None"
    return "(Some " + C.clist(f"({'KStr ' + str(k) if k < 4 else 'KNotStr'}, {'VNotType' if v.startswith('nt:') else 'VType ' + v})" for k, v in md) + ")"


def ctobs(o):
    if o[0] == "refused":
        return "TRefused"
    if o[0] == "accepted" and o[1] >= 0 and o[2] >= 0:
        return f"(TAccepted {o[1]} {o[2]} {C.cbool(o[3])})"
    return "TOther"


def emit_tcases(path, items, helpers):
    """items: [(case, tobs, eobs)]"""
    rows = []
    for case, tobs, eobs in items:
        ctors = C.clist(f"({s}, {cname(n)}, {craw(md)})" for s, n, md in case["ctors"])
        obs = C.clist(ctobs(o) for o in tobs)
        # an observation that is neither acceptance nor EventError gets an index no type has: always a mismatch
        evs = C.clist(f"({i if (o is True or o is False) else 999}, {'None' if ts is None else '(Some ' + helpers.cts(ts) + ')'}, "
                      f"{helpers.ccontent(c)}, {C.cbool(chk)}, {C.cbool(o is True)})"
                      for (i, ts, c, chk), o in zip(case["events"], eobs))
        rows.append(f"mkTCase {ctors} {obs} {evs}")
    path.write_text("\n".join(["From Coq Require Import ZArith List.", "From PV Require Import PubSub.Model PubSub.TypeModel.",
                               "Import ListNotations.", "Definition cases : list tcase := [", ";\n".join(rows), "].",
                               "Eval vm_compute in (tmismatches_from 0 cases)."]) + "\n")
