"""C14 — draws are a pure function of parameters and stream output, within the
support, never raising; constructor domain checks.

Tie: scenarios (construct / draw / re-point / quantity-wrapper draw on several
instances and streams) are run on the real classes of /repo, driven by finite
scripted StreamInterface implementations that fall through to a seeded tail,
and on the Gallina model Dist.Draw instantiated with PrimFloat (Dist.NumF)
inside coqc.  libm calls are recorded through a proxy on the imported `math`
of distributions.py / utils.py and handed to the model as oracle tables; the
`**` operator's table is filled by guesses plus refinement rounds (coqc reports
the (x, y) pairs it missed, CPython evaluates them).  Draws are compared bit
for bit, together with the number of uniforms consumed and exception types.

A model-independent oracle (documented support and parameter domain of every
class, twin-stream equality, isolation, old stream untouched after
re-pointing) classifies disagreements and finds / shrinks failing inputs.
"""
from __future__ import annotations

import json
import math
import os
import random
import re
import sys
from pathlib import Path

sys.path.insert(0, str(Path(__file__).resolve().parent))
import common as C
import c14lib as L

PID = "C14"
# built in coq/ (independent of the source text); Gen_Dist / GenAgree / Props are compiled per tree (c14lib.DistTree)
TARGETS = ["Dist/NumF.vo", "Dist/Frame.vo", "Dist/Support.vo", "Dist/Ctor.vo", "Dist/Refuted.vo", "Dist/Density.vo"]
IMPL = Path(__file__).resolve().parent / "c14_impl.py"

EPS1 = 1.0 - 2.0 ** -53          # largest double below 1
U53 = 2.0 ** -53                 # smallest non-zero output of a 53-bit generator
SUBN = 5e-324
TINY_LIMIT = 2.0 ** -64          # below this no 53-bit generator can deliver a non-zero value
INF = math.inf
NAN = math.nan

COQ_CLS = {
    "DistBernoulli": "CBernoulli", "DistBeta": "CBeta", "DistBinomial": "CBinomial",
    "DistConstant": "CConstant", "DistDiscreteUniform": "CDiscreteUniform", "DistErlang": "CErlang",
    "DistExponential": "CExponential", "DistGamma": "CGamma", "DistGeometric": "CGeometric",
    "DistLogNormal": "CLogNormal", "DistNegBinomial": "CNegBinomial", "DistNormal": "CNormal",
    "DistNormalTrunc": "CNormalTrunc", "DistPearson5": "CPearson5", "DistPearson6": "CPearson6",
    "DistPoisson": "CPoisson", "DistTriangular": "CTriangular", "DistUniform": "CUniform",
    "DistWeibull": "CWeibull",
}
CLASSES = sorted(COQ_CLS)
DISCRETE = {"DistBernoulli", "DistBinomial", "DistDiscreteUniform", "DistGeometric", "DistNegBinomial",
            "DistPoisson"}
# documented parameter kinds: "float" = float only, "num" = float or int, "int" = int only
SIG = {
    "DistBernoulli": ["float"], "DistBeta": ["num", "num"], "DistBinomial": ["int", "float"],
    "DistConstant": ["num"], "DistDiscreteUniform": ["int", "int"], "DistErlang": ["num", "int"],
    "DistExponential": ["num"], "DistGamma": ["num", "num"], "DistGeometric": ["float"],
    "DistLogNormal": ["num", "num"], "DistNegBinomial": ["int", "float"], "DistNormal": ["num", "num"],
    "DistNormalTrunc": ["num", "num", "num", "num"], "DistPearson5": ["num", "num"],
    "DistPearson6": ["num", "num", "num"], "DistPoisson": ["num"], "DistTriangular": ["num", "num", "num"],
    "DistUniform": ["num", "num"], "DistWeibull": ["num", "num"],
}
EXN = {"ValueError": "EValue", "ZeroDivisionError": "EZeroDiv", "OverflowError": "EOverflow",
       "TypeError": "EType"}
FN = {"log": "FLog", "exp": "FExp", "pow": "FPow", "**": "FPowOp", "erf": "FErf", "gamma": "FGamma",
      "lgamma": "FLgamma"}
FN_BY_CODE = ["log", "exp", "pow", "**", "erf", "gamma", "lgamma"]
QUANTITIES = [("Length", "km"), ("Duration", "min"), ("Speed", "km/h"), ("Mass", "g"), ("Area", "ha"),
              ("Frequency", "kHz"), ("Dimensionless", ""), ("SI", "m/s")]


# ------------------------------------------------------------------ parameters
def PFv(x):
    return ["f", float(x).hex()]


def PIv(n):
    return ["i", int(n)]


def pval(p):
    """Python value of an encoded parameter (None for the malformed ones)."""
    if p[0] == "f":
        return float.fromhex(p[1])
    if p[0] == "i":
        return int(p[1])
    return None


POS_REG = [0.001, 0.01, 0.1, 0.3, 0.5, 0.9, 1.0, 1.1, 2.0, 2.5, 5.0, 10.0, 37.5, 1000.0]
POS_EXT = [SUBN, 2.2250738585072014e-308, 1e-300, 1e-12, 1e12, 1e300, 1.7976931348623157e308]


def g_pos(rng, ext=False, ints=True):
    if ext and rng.random() < 0.5:
        return PFv(rng.choice(POS_EXT))
    r = rng.random()
    if r < 0.45:
        return PFv(rng.choice(POS_REG))
    if r < 0.60 and ints:
        return PIv(rng.choice([1, 2, 3, 7, 12, 100]))
    if r < 0.80:
        return PFv(rng.uniform(0.001, 20.0))
    return PFv(10.0 ** rng.uniform(-3, 3))


def g_shape(rng, ext=False):
    r = rng.random()
    if r < 0.15:
        return PFv(1.0)
    if r < 0.20:
        return PIv(1)
    if r < 0.28:
        return PFv(rng.choice([math.nextafter(1.0, 0.0), math.nextafter(1.0, 2.0)]))
    if r < 0.55:
        return PFv(rng.choice([0.05, 0.2, 0.5, 0.75, 0.999, rng.uniform(0.02, 1.0)]))
    if r < 0.85:
        return PFv(rng.choice([1.001, 1.5, 2.0, 3.7, 10.0, 50.0, rng.uniform(1.0, 30.0)]))
    return g_pos(rng, ext)


def g_real(rng, ext=False):
    if ext and rng.random() < 0.4:
        return PFv(rng.choice([1e300, -1e300, 1e-300, -1e-300, 1e12, -1e12]))
    r = rng.random()
    if r < 0.5:
        return PFv(rng.choice([0.0, -0.0, 1.0, -1.0, 2.5, -3.25, 100.0, -100.0]))
    if r < 0.65:
        return PIv(rng.choice([0, -2, 5, 1, -1]))
    return PFv(rng.uniform(-10.0, 10.0))


def g_prob(rng):
    r = rng.random()
    if r < 0.08:
        return PFv(0.0)
    if r < 0.16:
        return PFv(1.0)
    if r < 0.30:
        return PFv(rng.choice([U53, EPS1, 1e-17, SUBN, 1e-9, 1.0 - 1e-9, -0.0]))
    if r < 0.60:
        return PFv(rng.choice([0.5, 0.3, 0.25, 0.9, 0.1, 0.75]))
    return PFv(rng.random())


def gen_params(rng, cname, ext=False):
    """A parameter list inside the documented domain of the class."""
    if cname == "DistBernoulli":
        return [g_prob(rng)]
    if cname == "DistBeta":
        return [g_shape(rng, ext), g_shape(rng, ext)]
    if cname == "DistBinomial":
        return [PIv(rng.choice([1, 2, 3, 5, 8, 12, 30])), g_prob(rng)]
    if cname == "DistConstant":
        return [g_real(rng, ext)]
    if cname == "DistDiscreteUniform":
        if rng.random() < 0.15:
            lo = rng.choice([-2 ** 40, -2 ** 20, 0])
            return [PIv(lo), PIv(lo + rng.choice([2 ** 41, 2 ** 30, 2 ** 52 - 1]))]
        lo = rng.randint(-6, 6)
        return [PIv(lo), PIv(lo + rng.choice([1, 1, 2, 5, 6, 10, 100]))]
    if cname == "DistErlang":
        return [g_pos(rng, ext), PIv(rng.choice([1, 2, 3, 5, 9, 10, 11, 15, 40]))]
    if cname == "DistExponential":
        return [g_pos(rng, ext)]
    if cname == "DistGamma":
        return [g_shape(rng, ext), g_pos(rng, ext)]
    if cname == "DistGeometric":
        return [g_prob(rng)]
    if cname == "DistLogNormal":
        return [g_real(rng, ext), g_pos(rng, ext)]
    if cname == "DistNegBinomial":
        return [PIv(rng.choice([1, 2, 3, 6])), g_prob(rng)]
    if cname == "DistNormal":
        return [g_real(rng, ext), g_pos(rng, ext)]
    if cname == "DistNormalTrunc":
        mu = rng.choice([0.0, 1.0, -2.0, 100.0, rng.uniform(-5, 5)])
        sigma = rng.choice([1.0, 0.5, 10.0, rng.uniform(0.1, 4.0)])
        r = rng.random()
        if r < 0.2:
            lo, hi = -INF, INF
        elif r < 0.4:
            lo, hi = rng.choice([0.0, mu - sigma, mu - 2 * sigma, mu + sigma]), INF
        elif r < 0.55:
            lo, hi = -INF, rng.choice([0.0, mu + sigma, mu - sigma, mu + 3 * sigma])
        else:
            lo = rng.choice([0.0, mu - sigma, mu - 3 * sigma, mu + 0.5 * sigma, rng.uniform(mu - 3 * sigma, mu + 2 * sigma)])
            hi = lo + rng.choice([0.01, 0.5, 1.0, 3.0]) * sigma
        mk = (lambda v: PIv(int(v))) if rng.random() < 0.1 and all(
            math.isfinite(v) and float(v).is_integer() for v in (mu, sigma, lo, hi)) else PFv
        return [mk(mu), mk(sigma), mk(lo), mk(hi)]
    if cname == "DistPearson5":
        return [g_shape(rng, ext), g_pos(rng, ext)]
    if cname == "DistPearson6":
        return [g_shape(rng, ext), g_shape(rng, ext), g_pos(rng, ext)]
    if cname == "DistPoisson":
        r = rng.random()
        if r < 0.05:
            return [PFv(rng.choice([1e-300, 1e-12, 745.0, 800.0]))]
        if r < 0.2:
            return [PIv(rng.choice([1, 2, 5, 20]))]
        return [PFv(rng.choice([0.1, 0.5, 1.0, 3.0, 7.5, 30.0, rng.uniform(0.05, 15.0)]))]
    if cname == "DistTriangular":
        lo = pval(g_real(rng, False))
        w = rng.choice([1.0, 0.5, 3.0, 1e-3, 100.0, rng.uniform(0.01, 10)])
        hi = float(lo) + w
        r = rng.random()
        mode = float(lo) if r < 0.25 else hi if r < 0.5 else float(lo) + w * rng.random()
        mode = min(max(mode, float(lo)), hi)
        if rng.random() < 0.1 and all(float(v).is_integer() for v in (lo, mode, hi)):
            return [PIv(int(lo)), PIv(int(mode)), PIv(int(hi))]
        return [PFv(lo), PFv(mode), PFv(hi)]
    if cname == "DistUniform":
        lo = pval(g_real(rng, ext))
        if abs(lo) > 1e200:
            hi = lo / 2 if lo > 0 else 0.0
            lo, hi = min(lo, hi), max(lo, hi)
            if lo == hi:
                hi = lo + 1.0
        else:
            hi = float(lo) + rng.choice([1.0, 0.5, 3.0, 1e-3, 100.0, rng.uniform(0.01, 10)])
            if hi <= lo:
                hi = math.nextafter(float(lo), INF)
        if rng.random() < 0.1 and float(lo).is_integer() and float(hi).is_integer() and abs(lo) < 1e9:
            return [PIv(int(lo)), PIv(int(hi))]
        return [PFv(lo), PFv(hi)]
    if cname == "DistWeibull":
        return [g_pos(rng, ext), g_pos(rng, ext)]
    raise ValueError(cname)


def boundary_grid(cname):
    """Constructor grid: every parameter position set to boundary / malformed
    values while the others stay valid."""
    base = {
        "DistBernoulli": [PFv(0.5)], "DistBeta": [PFv(2.0), PFv(3.0)], "DistBinomial": [PIv(5), PFv(0.5)],
        "DistConstant": [PFv(2.0)], "DistDiscreteUniform": [PIv(1), PIv(6)], "DistErlang": [PFv(2.0), PIv(3)],
        "DistExponential": [PFv(2.0)], "DistGamma": [PFv(2.0), PFv(3.0)], "DistGeometric": [PFv(0.5)],
        "DistLogNormal": [PFv(0.0), PFv(1.0)], "DistNegBinomial": [PIv(3), PFv(0.5)],
        "DistNormal": [PFv(0.0), PFv(1.0)], "DistNormalTrunc": [PFv(0.0), PFv(1.0), PFv(-1.0), PFv(2.0)],
        "DistPearson5": [PFv(2.0), PFv(3.0)], "DistPearson6": [PFv(2.0), PFv(3.0), PFv(1.5)],
        "DistPoisson": [PFv(3.0)], "DistTriangular": [PFv(1.0), PFv(2.0), PFv(4.0)],
        "DistUniform": [PFv(1.0), PFv(4.0)], "DistWeibull": [PFv(1.5), PFv(2.0)],
    }[cname]
    specials = [PFv(0.0), PFv(-0.0), PFv(-1.0), PFv(1.0), PFv(NAN), PFv(INF), PFv(-INF), PFv(SUBN),
                PFv(-SUBN), PFv(1e308), PFv(2.0), PFv(4.0), PFv(U53), PFv(EPS1), PFv(math.nextafter(1.0, 2.0)),
                PIv(0), PIv(1), PIv(-1), PIv(2), PIv(4), PIv(6), PIv(10), ["bad", "str"], ["bad", "none"],
                ["bad", "list"]]
    out = []
    for pos in range(len(base)):
        for s in specials:
            ps = list(base)
            ps[pos] = s
            out.append(ps)
    # equal / crossed bounds
    extra = {
        "DistUniform": [[PFv(2.0), PFv(2.0)], [PFv(3.0), PFv(2.0)], [PIv(2), PFv(2.0)], [PFv(2.0), PFv(math.nextafter(2.0, 3.0))]],
        "DistDiscreteUniform": [[PIv(3), PIv(3)], [PIv(4), PIv(3)], [PIv(3), PIv(4)]],
        "DistTriangular": [[PFv(1.0), PFv(1.0), PFv(1.0)], [PFv(1.0), PFv(1.0), PFv(2.0)], [PFv(1.0), PFv(2.0), PFv(2.0)],
                           [PFv(1.0), PFv(0.5), PFv(2.0)], [PFv(1.0), PFv(2.5), PFv(2.0)], [PFv(2.0), PFv(1.5), PFv(1.0)],
                           [PIv(1), PFv(1.0), PIv(1)]],
        "DistNormalTrunc": [[PFv(0.0), PFv(1.0), PFv(1.0), PFv(1.0)], [PFv(0.0), PFv(1.0), PFv(2.0), PFv(1.0)],
                            [PFv(0.0), PFv(1.0), PFv(6.0), PFv(7.0)], [PFv(0.0), PFv(1.0), PFv(-INF), PFv(INF)],
                            [PFv(0.0), PFv(1.0), PFv(4.7), PFv(INF)], [PFv(0.0), PFv(1.0), PFv(4.8), PFv(INF)],
                            [PFv(0.0), PFv(1.0), PFv(0.0), PFv(2e-6)], [PFv(0.0), PFv(1.0), PFv(0.0), PFv(3e-6)]],
    }.get(cname, [])
    return out + extra


# ------------------------------------------------------------------ scripts
SPECIAL_U = [0.0, EPS1, U53, SUBN, 1e-300, 2.2250738585072014e-308, 0.5, 0.25, 0.75, 1e-9, 1.0 - 1e-9,
             2.0 ** -30, 0.5 + 2.0 ** -53]


def gen_script(rng, targeted=True):
    r = rng.random()
    if not targeted or r < 0.25:
        return []
    if r < 0.40:
        return [rng.choice(SPECIAL_U)]
    if r < 0.50:
        return [0.5, 0.5] + ([rng.choice(SPECIAL_U)] if rng.random() < 0.5 else [])
    if r < 0.58:
        u = rng.choice(SPECIAL_U)
        return [u] * rng.randint(2, 5)
    n = rng.randint(1, 8)
    return [rng.choice(SPECIAL_U) if rng.random() < 0.4 else rng.random() for _ in range(n)]


def stream_spec(rng, script=None, seed=None, kind=None):
    return {"script": [float(u).hex() for u in (gen_script(rng) if script is None else script)],
            "seed": rng.randrange(1, 2 ** 31) if seed is None else seed,
            "kind": kind or ("mt" if rng.random() < 0.3 else "script")}


# ------------------------------------------------------------------ scenarios
def gen_case(rng, idx):
    """One scenario.  'kind' names the clause it is aimed at."""
    r = rng.random()
    cname = CLASSES[idx % len(CLASSES)]
    ext = rng.random() < 0.12
    if r < 0.40:       # single instance, a few draws
        ops = [["new", 0, cname, True, 0, gen_params(rng, cname, ext)]]
        ops += [["draw", 0]] * rng.randint(1, 5)
        return {"kind": "single", "streams": [stream_spec(rng)], "ops": ops}
    if r < 0.52:       # twin: equal parameters on equally seeded streams
        ps = gen_params(rng, cname, ext)
        s = stream_spec(rng)
        ops = [["new", 0, cname, True, 0, ps], ["new", 1, cname, True, 1, ps]]
        n = rng.randint(1, 4)
        for _ in range(n):
            ops += [["draw", 0], ["draw", 1]]
        return {"kind": "twin", "streams": [s, dict(s)], "ops": ops}
    if r < 0.66:       # isolation: two instances on different streams, interleaved; "solo" = A alone
        other = rng.choice(CLASSES)
        pa, pb = gen_params(rng, cname, ext), gen_params(rng, other, False)
        sa, sb = stream_spec(rng), stream_spec(rng)
        ops = [["new", 0, cname, True, 0, pa], ["new", 1, other, True, 1, pb]]
        solo = [["new", 0, cname, True, 0, pa]]
        for _ in range(rng.randint(2, 6)):
            if rng.random() < 0.5:
                ops.append(["draw", 0]); solo.append(["draw", 0])
            else:
                ops.append(["draw", 1])
        ops.append(["draw", 0]); solo.append(["draw", 0])
        return {"kind": "isolation", "streams": [sa, sb], "ops": ops,
                "solo": {"kind": "solo", "streams": [sa], "ops": solo}}
    if r < 0.72:       # two instances sharing one stream
        other = rng.choice(CLASSES)
        ops = [["new", 0, cname, True, 0, gen_params(rng, cname, ext)],
               ["new", 1, other, True, 0, gen_params(rng, other, False)]]
        for _ in range(rng.randint(2, 6)):
            ops.append(["draw", rng.randint(0, 1)])
        return {"kind": "shared", "streams": [stream_spec(rng)], "ops": ops}
    if r < 0.73:       # a quantity wrapper built before the wrapped distribution is re-pointed
        q, unit = rng.choice(QUANTITIES)
        s_old, s_new = stream_spec(rng), stream_spec(rng)
        return {"kind": "wrapped-repoint", "streams": [s_old, s_new, dict(s_new)],
                "ops": wrapped_repoint_ops(cname, gen_params(rng, cname, False), q, unit, rng.randint(0, 3), rng.randint(1, 3))}
    if r < 0.74:       # rewind the stream, re-assign the same stream object, compare with a fresh twin
        s = stream_spec(rng)
        return {"kind": "sameobj", "streams": [s, dict(s)],
                "ops": same_object_ops(cname, gen_params(rng, cname, ext), rng.randint(0, 5),
                                       rng.choice(["reset", "set_seed"]), rng.randint(1, 3))}
    if r < 0.76:       # a refused re-pointing next to an undisturbed twin
        ps = gen_params(rng, cname, ext)
        s = stream_spec(rng)
        ops = [["new", 0, cname, True, 0, ps], ["new", 1, cname, True, 1, ps]]
        for _ in range(rng.randint(0, 4)):
            ops += [["draw", 0], ["draw", 1]]
        ops.append(["set", 0, False, rng.randint(0, 2)])
        for _ in range(rng.randint(1, 3)):
            ops += [["draw", 0], ["draw", 1]]
        return {"kind": "refused", "streams": [s, dict(s)], "ops": ops}
    if r < 0.88:       # re-pointing
        ops = [["new", 0, cname, True, 0, gen_params(rng, cname, ext)]]
        ops += [["draw", 0]] * rng.randint(0, 3)
        ops.append(["set", 0, True, 1])
        ops += [["draw", 0]] * rng.randint(1, 3)
        if rng.random() < 0.3:
            ops.append(["set", 0, False, 0])          # a non-stream: TypeError, still on stream 1
            ops.append(["draw", 0])
        if rng.random() < 0.3:
            ops.append(["set", 0, True, 0])           # back to the first stream
            ops.append(["draw", 0])
        return {"kind": "repoint", "streams": [stream_spec(rng), stream_spec(rng)], "ops": ops}
    # quantity wrappers
    q, unit = rng.choice(QUANTITIES)
    ops = [["new", 0, cname, True, 0, gen_params(rng, cname, False)]]
    for _ in range(rng.randint(1, 3)):
        ops.append(["drawq", 0, q, unit] if rng.random() < 0.8 else ["draw", 0])
    return {"kind": "quantity", "streams": [stream_spec(rng)], "ops": ops}


def gen_ctor_cases(rng):
    cases = []
    for cname in CLASSES:
        grid = boundary_grid(cname)
        for k in range(0, len(grid), 12):
            ops = [["new", i, cname, True, 0, ps] for i, ps in enumerate(grid[k:k + 12])]
            cases.append({"kind": "ctor", "streams": [stream_spec(rng, script=[])], "ops": ops})
        # not a stream
        cases.append({"kind": "ctor", "streams": [stream_spec(rng, script=[])],
                      "ops": [["new", 0, cname, False, 0, gen_params(rng, cname)],
                              ["new", 1, cname, False, 1, boundary_grid(cname)[2]],
                              ["new", 2, cname, False, 0, boundary_grid(cname)[-1]]]})
    return cases


def refused_repoint_cases(rng):
    """Every class: k draws, then `dist.stream = <not a stream>` (None / 3 / a string: TypeError), then more draws -
    next to a twin with the same parameters on an equally seeded stream that does not see the refused assignment.
    A refused operation must change nothing: the twins keep drawing identical values from identical positions."""
    cases = []
    for cname in CLASSES:
        for k in (1, 2, 3):
            ps = gen_params(rng, cname, False)
            s = stream_spec(rng, script=[])
            ops = [["new", 0, cname, True, 0, ps], ["new", 1, cname, True, 1, ps]]
            for _ in range(k):
                ops += [["draw", 0], ["draw", 1]]
            ops.append(["set", 0, False, k - 1])             # None, 3, "stream"
            for _ in range(2):
                ops += [["draw", 0], ["draw", 1]]
            cases.append({"kind": "refused", "streams": [s, dict(s)], "ops": ops})
    return cases


def same_object_ops(cname, ps, k, how, m=3):
    ops = [["new", 0, cname, True, 0, ps], ["new", 1, cname, True, 1, ps]]
    ops += [["draw", 0]] * k
    ops.append(["reset", 0, how])                 # rewind the stream (replication loop)
    ops.append(["set", 0, True, 0])               # dist.stream = <the stream object already in use>
    ops += [["draw", 0]] * m
    ops += [["draw", 1]] * m                      # the twin: a fresh instance on an equally seeded stream
    return ops


def same_object_cases(rng):
    """Every class: k draws (odd and even), the stream is reset / re-seeded, `dist.stream = <the same stream object>`,
    then draws again.  Re-pointing - also to the object already in use - starts afresh on the stream as it is now: the
    draws must equal those of an identical twin on an equally seeded, untouched stream."""
    cases = []
    for ci, cname in enumerate(CLASSES):
        for k in (1, 2, 3):
            ps = gen_params(rng, cname, False)
            s = stream_spec(rng, script=[], kind="mt" if (ci + k) % 2 else "script")
            cases.append({"kind": "sameobj", "streams": [s, dict(s)],
                          "ops": same_object_ops(cname, ps, k, "reset" if k % 2 else "set_seed")})
    return cases


def wrapped_repoint_ops(cname, ps, q, unit, k, m=3):
    ops = [["new", 0, cname, True, 0, ps], ["new", 1, cname, True, 2, ps],
           ["wrap", 0, q, unit], ["wrap", 1, q, unit]]
    ops += [["drawq", 0, q, unit]] * k
    ops.append(["set", 0, True, 1])               # re-point the WRAPPED distribution; the wrapper exists already
    ops += [["drawq", 0, q, unit]] * m
    ops += [["drawq", 1, q, unit]] * m             # reference: the same on a stream seeded like the new one
    return ops


def wrapped_repoint_cases(rng):
    """Every class inside a quantity wrapper (DurationDist, LengthDist, ...) that was built BEFORE the wrapped
    distribution is pointed at another stream: the wrapper's draws must come from the new stream (nothing more of the
    old one is consumed) and equal those of a reference wrapper on a stream seeded like the new one."""
    cases = []
    for ci, cname in enumerate(CLASSES):
        for k in (0, 1):
            q, unit = QUANTITIES[(ci + k) % len(QUANTITIES)]
            ps = gen_params(rng, cname, False)
            s_old, s_new = stream_spec(rng, script=[]), stream_spec(rng, script=[])
            cases.append({"kind": "wrapped-repoint", "streams": [s_old, s_new, dict(s_new)],
                          "ops": wrapped_repoint_ops(cname, ps, q, unit, k)})
    return cases


def nonfinite_parameter_cases(rng):
    """Every class with NaN / +inf / -inf at each float position (the others valid): if the constructor accepts, the
    object must be usable - two draws on ordinary uniforms must not raise."""
    cases = []
    for cname in CLASSES:
        for ps in boundary_grid(cname):
            if any(p[0] == "f" and not math.isfinite(float.fromhex(p[1])) for p in ps):
                cases.append({"kind": "nonfinite", "streams": [stream_spec(rng, script=[], kind="script")],
                              "ops": [["new", 0, cname, True, 0, ps], ["draw", 0], ["draw", 0]]})
    return cases


def ordinary(us):
    return all(1e-9 < u < 1.0 - 1e-9 for u in us)


def targeted_cases(rng):
    """Every class on the scripts the property names explicitly."""
    cases = []
    scripts = [[0.0], [EPS1], [SUBN], [U53], [0.5, 0.5], [0.3, 0.0], [EPS1, EPS1, EPS1], [0.0, 0.0, 0.0],
               [SUBN, 0.5, 0.5], [1e-300, 1e-300], [0.5], [0.75, 0.25, 0.0]]
    for cname in CLASSES:
        for sc in scripts:
            for _ in range(2):
                ops = [["new", 0, cname, True, 0, gen_params(rng, cname, False)], ["draw", 0], ["draw", 0]]
                cases.append({"kind": "single", "streams": [stream_spec(rng, script=sc)], "ops": ops})
    return cases


# ------------------------------------------------------------------ documented domain and support (oracle)
def is_num(v):
    return type(v) in (float, int)


def kind_ok(v, k):
    if k == "float":
        return type(v) is float
    if k == "int":
        return type(v) is int
    return is_num(v)


def domain(cname, vals):
    """('in' | 'out' | 'unspecified', expected exception kinds if 'out').
    Written from the docstrings (Parameters / Raises sections), not from the code."""
    kinds = SIG[cname]
    if len(vals) != len(kinds):
        return "out", {"TypeError"}
    bad_type = [not kind_ok(v, k) for v, k in zip(vals, kinds)]
    exp = set()
    if any(bad_type):
        exp.add("TypeError")
    def num(i):
        return None if bad_type[i] else vals[i]
    viol = False
    unspecified = False

    def pos(i):              # documented "ValueError when x <= 0": the domain is x > 0 (a NaN is not > 0)
        nonlocal viol, unspecified
        v = num(i)
        if v is None:
            return
        if not v > 0:
            viol = True
        elif math.isinf(v):
            unspecified = True

    def fin(i):              # no documented range: NaN / inf are neither inside nor outside
        nonlocal unspecified
        v = num(i)
        if v is not None and type(v) is float and not math.isfinite(v):
            unspecified = True

    def prob(i):
        nonlocal viol
        v = num(i)
        if v is not None and not (0 <= v <= 1):
            viol = True

    def prob_open(i):        # geometric / negative binomial: Law & Kelton's p in (0, 1)
        nonlocal viol
        v = num(i)
        if v is not None and not (0 < v < 1):
            viol = True
    if cname == "DistBernoulli":
        prob(0)
    elif cname == "DistGeometric":
        prob_open(0)
    elif cname in ("DistBeta", "DistGamma", "DistPearson5", "DistWeibull"):
        pos(0); pos(1)
    elif cname == "DistPearson6":
        pos(0); pos(1); pos(2)
    elif cname in ("DistBinomial", "DistNegBinomial"):
        (prob if cname == "DistBinomial" else prob_open)(1)
        if num(0) is not None and num(0) <= 0:
            viol = True
    elif cname == "DistConstant":
        fin(0)
    elif cname == "DistDiscreteUniform":
        if num(0) is not None and num(1) is not None and num(0) >= num(1):
            viol = True
    elif cname == "DistErlang":
        pos(0)
        if num(1) is not None and num(1) <= 0:
            viol = True
    elif cname in ("DistExponential", "DistPoisson"):
        pos(0)
    elif cname in ("DistNormal", "DistLogNormal"):
        fin(0); pos(1)
    elif cname == "DistNormalTrunc":
        fin(0); pos(1)
        lo, hi = num(2), num(3)
        if lo is not None and hi is not None:
            if not lo < hi:
                viol = True
            elif not viol and not unspecified and num(0) is not None and num(1) is not None:
                mu, sg = float(num(0)), float(num(1))
                try:
                    pr = 0.5 * (math.erf((hi - mu) / (math.sqrt(2.0) * sg)) - math.erf((lo - mu) / (math.sqrt(2.0) * sg)))
                except (OverflowError, ZeroDivisionError):
                    pr = None
                if pr is None or abs(pr - 1e-6) < 2e-8:
                    unspecified = True       # too close to the documented 1E-6 cut-off to call
                elif pr < 1e-6:
                    viol = True
    elif cname == "DistTriangular":
        lo, mode, hi = num(0), num(1), num(2)
        for v in (lo, mode, hi):
            if v is not None and type(v) is float and math.isinf(v):
                unspecified = True
        if lo is not None and mode is not None and not lo <= mode:
            viol = True
        if hi is not None and mode is not None and not mode <= hi:
            viol = True
        if lo is not None and hi is not None and not lo < hi:
            viol = True
    elif cname == "DistUniform":
        lo, hi = num(0), num(1)
        for v in (lo, hi):
            if v is not None and type(v) is float and math.isinf(v):
                unspecified = True
        if lo is not None and hi is not None and not lo < hi:
            viol = True
    if viol:
        exp.add("ValueError")
    if exp:
        return "out", exp
    if unspecified:
        return "unspecified", set()
    return "in", set()


def in_support(cname, vals, tag, v):
    """Is the drawn value inside the documented support (and of the documented type)?"""
    if cname == "DistConstant":
        c = vals[0]
        return (tag == "i") == (type(c) is int) and (v == c or (v != v and c != c))
    if cname in DISCRETE:
        if tag != "i":
            return False
        if cname == "DistBernoulli":
            return v in (0, 1)
        if cname == "DistBinomial":
            return 0 <= v <= vals[0]
        if cname == "DistDiscreteUniform":
            return vals[0] <= v <= vals[1]
        return v >= 0
    if tag != "f" or v != v:
        return False
    if cname in ("DistExponential", "DistErlang", "DistGamma", "DistWeibull", "DistPearson5", "DistPearson6",
                 "DistLogNormal"):
        return v >= 0.0
    if cname == "DistBeta":
        return 0.0 <= v <= 1.0
    if cname == "DistUniform":
        return vals[0] <= v <= vals[1]
    if cname == "DistTriangular":
        return vals[0] <= v <= vals[2]
    if cname == "DistNormalTrunc":
        return vals[2] <= v <= vals[3]
    return True     # DistNormal: any real number


def outside_by_rounding(cname, vals, v):
    """A bounded continuous draw that misses its interval by a few units in the last place."""
    if type(v) is not float or v != v:
        return False
    bounds = {"DistUniform": (0, 1), "DistTriangular": (0, 2), "DistNormalTrunc": (2, 3)}.get(cname)
    if bounds is None:
        return False
    lo, hi = float(vals[bounds[0]]), float(vals[bounds[1]])
    if not (math.isfinite(lo) and math.isfinite(hi)):
        return False
    excess = lo - v if v < lo else v - hi
    return 0 < excess <= 1e-13 * max(abs(lo), abs(hi), hi - lo)


def extreme_params(vals):
    """A parameter of a magnitude at which intermediate results leave the double range."""
    for v in vals:
        if type(v) is float and v != 0.0 and math.isfinite(v) and not (1e-3 <= abs(v) <= 1e3):
            return True
        if type(v) is float and math.isinf(v):
            return True
    return False


# ------------------------------------------------------------------ running the implementation
def run_impl(cases):
    payload = {"mode": "cases", "cases": [{"streams": c["streams"], "ops": c["ops"]} for c in cases]}
    res = []
    # several interpreters in parallel
    from concurrent.futures import ThreadPoolExecutor
    chunk = max(1, (len(cases) + 7) // 8)
    parts = [cases[i:i + chunk] for i in range(0, len(cases), chunk)]

    def work(part):
        return C.run_impl_json(IMPL, {"mode": "cases", "cases": [{"streams": c["streams"], "ops": c["ops"]}
                                                                for c in part]}, timeout=1200)
    with ThreadPoolExecutor(max_workers=8) as ex:
        for r in ex.map(work, parts):
            res += r
    del payload
    return res


def eval_pow(pairs):
    if not pairs:
        return []
    return C.run_impl_json(IMPL, {"mode": "pow", "pairs": pairs}, timeout=600)


# ------------------------------------------------------------------ oracle over one executed case
def classify_draw_raise(cname, vals, exc, msg, consumed_vals):
    """Signature for an exception raised by draw() on an accepted instance:
    exception type and class first (the cause), then the class of input."""
    if cname == "DistNormalTrunc" and exc == "ValueError" and "outside of interval" in msg:
        return f"draw-raises-near-bound:{cname}"
    if exc == "ZeroDivisionError":
        if cname in ("DistGeometric", "DistNegBinomial"):
            p = vals[0] if cname == "DistGeometric" else vals[1]
            if 1.0 - p == 1.0:
                return f"draw-raises-zero-division:{cname}"       # 0 < p < 2^-53: 1.0 - p rounds to 1.0, ln = 0
        if cname in ("DistPearson5", "DistPearson6", "DistBeta"):
            return f"draw-raises-zero-division:{cname}"       # an inner gamma draw was 0.0
    if exc == "OverflowError" and cname in ("DistLogNormal", "DistWeibull"):
        return f"draw-raises-overflow:{cname}"                # math.exp / math.pow beyond the double range
    if exc == "ValueError" and "math domain error" in msg:
        # a uniform below 2^-64 (no 53-bit generator delivers one) makes products of uniforms underflow;
        # it takes precedence over a 0.0 in the same draw (every class also runs on scripts with 0.0 alone)
        if any(0.0 < u < TINY_LIMIT for u in consumed_vals):
            return f"draw-raises-on-tiny-uniform:{cname}"
        if any(u == 0.0 for u in consumed_vals):
            return f"draw-raises-on-uniform-0.0:{cname}"
        if cname in ("DistNormal", "DistLogNormal"):
            for a, b in zip(consumed_vals, consumed_vals[1:]):
                if a == 0.5 and b == 0.5:
                    return f"draw-raises-on-uniforms-0.5-0.5:{cname}"
    if extreme_params(vals):
        return f"draw-raises-for-extreme-parameter:{cname}"
    return f"draw-raises:{cname}"


def oracle(case, res):
    """Evaluate the property's clauses on the implementation's outputs.
    Returns (findings, info): findings = [(signature, what, op index)]."""
    findings = []
    info = {"special": False, "retry": False, "raises": 0, "draws": 0}
    ops, outs = case["ops"], res["outs"]
    if res["timeout"]:
        k = len(outs)
        op = ops[k] if k < len(ops) else None
        findings.append((f"draw-does-not-terminate:{inst_cls(case, op)}", f"op #{k} {op} did not return within the per-case time limit", k))
        return findings, info
    delivered = [[float.fromhex(h) for h in d] for d in res["delivered"]]
    pos = [0] * len(delivered)          # per stream: uniforms attributed so far
    cls_of, vals_of, sid_of, accepted = {}, {}, {}, {}
    min_consumed = {"DistBernoulli": 1, "DistConstant": 1, "DistDiscreteUniform": 1, "DistExponential": 1,
                    "DistGeometric": 1, "DistNormalTrunc": 1, "DistTriangular": 1, "DistUniform": 1,
                    "DistWeibull": 1, "DistPoisson": 1}
    for k, (op, out) in enumerate(zip(ops, outs)):
        if op[0] == "reset":
            continue            # the harness rewinds a stream; what it delivers afterwards is appended to `delivered`
        if op[0] == "wrap":
            if out and out[0] == "raise":
                findings.append((f"quantity-wrapper-raises:{op[2]}", f"{op[2]}Dist(<{inst_cls(case, op)}>, {op[3]!r}) raised {out[1]}: {out[2]}", k))
            continue            # building a quantity wrapper: no stream output may be consumed (accounted below)
        if op[0] == "new":
            _, i, cname, sok, sid, params = op
            vals = [pval(p) for p in params]
            cls_of[i], vals_of[i], sid_of[i] = cname, vals, sid
            accepted[i] = out[0] == "accept"
            dom, exp = domain(cname, vals)
            if not sok:
                dom, exp = "out", exp | {"TypeError"}
            if out[0] == "accept":
                if out[1] or out[2]:
                    findings.append((f"ctor-consumes-stream:{cname}", f"constructing {cname}{vals} consumed stream output", k))
                if dom == "out":
                    nanp = any(type(v) is float and v != v for v in vals)
                    p0 = cname in ("DistGeometric", "DistNegBinomial") and (vals[0] if cname == "DistGeometric" else vals[1]) == 0.0
                    sig = (f"ctor-accepts-nan:{cname}" if nanp else f"ctor-accepts-p-0:{cname}" if p0
                           else f"ctor-accepts-outside-domain:{cname}")
                    findings.append((sig, f"{cname}{tuple(vals)} is outside the documented domain but was accepted", k))
            else:
                exc = out[1]
                if dom == "in":
                    sig = f"ctor-rejects-inside-domain:{cname}"
                    findings.append((sig, f"{cname}{tuple(vals)} is inside the documented domain but the constructor raised {exc}: {out[2]}", k))
                elif dom == "out" and exc not in exp:
                    findings.append((f"ctor-wrong-exception:{cname}", f"{cname}{tuple(vals)}: raised {exc}, documented {sorted(exp)}", k))
            continue
        i = op[1]
        if not accepted.get(i):
            continue
        cname, vals = cls_of[i], vals_of[i]
        if op[0] == "set":
            if op[2]:
                if out[0] != "none":
                    findings.append((f"set-stream-raises:{cname}", f"assigning a valid stream raised {out[1]}", k))
                else:
                    if out[1] or out[2]:
                        findings.append((f"set-stream-consumes:{cname}", "re-pointing consumed stream output", k))
                    if not out[3]:
                        findings.append((f"set-stream-ignored:{cname}", "stream property does not return the assigned stream", k))
                    sid_of[i] = op[3]
                    case.setdefault("_repointed", {})[i] = k
            else:
                if out[0] != "raise" or out[1] != "TypeError":
                    findings.append((f"set-stream-accepts-non-stream:{cname}", f"assigning a non-stream: {out[:2]}", k))
            continue
        # draw / drawq
        info["draws"] += 1
        sid = sid_of[i]
        n = out[3] if out[0] in ("val", "raise") else out[4]
        other = out[4] if out[0] in ("val", "raise") else out[5]
        used = delivered[sid][pos[sid]:pos[sid] + n]
        pos[sid] += n
        if other:
            findings.append((f"draw-consumes-foreign-stream:{cname}", f"draw on stream {sid} also consumed {other} values of another stream", k))
        if any(u in (0.0, EPS1, 0.5) or u <= U53 for u in used):
            info["special"] = True
        if n > max(min_consumed.get(cname, 0), 0) and cname in min_consumed or \
                (cname in ("DistNormal", "DistLogNormal") and n > 2) or \
                (cname in ("DistGamma", "DistBeta", "DistPearson5", "DistPearson6", "DistErlang") and n > 4):
            info["retry"] = True
        dom, _ = domain(cname, vals)
        if dom == "unspecified":
            # no documented range says whether NaN / inf is allowed here, so accepting or refusing is both fine -
            # but what the constructor ACCEPTS must be usable: drawing on ordinary uniforms does not raise
            if out[0] == "raise" and ordinary(used):
                infp = any(type(v) is float and math.isinf(v) for v in vals)
                findings.append(((f"accepted-but-unusable-with-infinite-parameter:{cname}" if infp
                                  else f"accepted-but-unusable:{cname}"),
                                 f"{cname}{tuple(vals)} was accepted at construction but draw() raised {out[1]}: {out[2]} "
                                 f"after consuming {[u.hex() for u in used]}", k))
            continue
        if dom != "in":
            continue        # no verdict on draws of instances outside the documented domain
        if out[0] == "raise":
            info["raises"] += 1
            sig = classify_draw_raise(cname, [float(v) if type(v) is int and cname not in DISCRETE else v for v in vals],
                                      out[1], out[2], used)
            findings.append((sig, f"{cname}{tuple(vals)}.draw() raised {out[1]}: {out[2]} after consuming {[u.hex() for u in used]}", k))
            continue
        if op[0] == "draw":
            if out[1] == "other":
                findings.append((f"draw-returns-wrong-type:{cname}", f"draw returned {out[2]}", k))
                continue
            v = float.fromhex(out[2]) if out[1] == "f" else int(out[2])
            if not in_support(cname, vals, out[1], v):
                ext = extreme_params([float(x) for x in vals if is_num(x)])
                sig = (f"draw-outside-support-for-extreme-parameter:{cname}" if ext
                       else f"draw-outside-support-by-rounding:{cname}" if outside_by_rounding(cname, vals, v)
                       else f"draw-outside-support:{cname}")
                findings.append((sig, f"{cname}{tuple(vals)}.draw() = {v!r} ({out[1]}) is outside the documented support; consumed {[u.hex() for u in used]}", k))
        else:
            if out[2] != op[3] or (op[2] != "SI" and out[6] != op[2]):
                findings.append((f"quantity-wrapper-wrong-unit:{op[2]}", f"{op[2]}Dist(..., {op[3]!r}).draw() returned a {out[6]} with unit {out[2]!r}", k))
        # the cached gaussian must be dropped on re-pointing: the first draw afterwards runs the polar method
        rp = case.get("_repointed", {}).get(i)
        if rp is not None and cname in ("DistNormal", "DistLogNormal"):
            first_after = all(o[0] not in ("draw", "drawq") or o[1] != i for o in ops[rp + 1:k])
            if first_after and n < 2:
                findings.append((f"cached-gaussian-survives-repointing:{cname}", "first draw after re-pointing consumed no uniforms from the new stream", k))
    # old stream untouched after re-pointing: everything delivered is accounted for by the draws above
    for sid, d in enumerate(delivered):
        if pos[sid] != len(d) and not findings:
            findings.append(("stream-consumed-outside-draws", f"stream {sid} delivered {len(d)} values, draws account for {pos[sid]}", len(ops)))
    return findings, info


def inst_cls(case, op):
    if not op:
        return "?"
    if op[0] == "new":
        return op[2]
    for o in case["ops"]:
        if o[0] == "new" and o[1] == op[1]:
            return o[2]
    return "?"


def pair_oracles(case, res, solo_res):
    """Clauses that compare two executions."""
    findings = []
    ops, outs = case["ops"], res["outs"]
    if case["kind"] == "twin":
        a = [o for op, o in zip(ops, outs) if op[0] == "draw" and op[1] == 0]
        b = [o for op, o in zip(ops, outs) if op[0] == "draw" and op[1] == 1]
        if a != b:
            k = next(j for j, (x, y) in enumerate(zip(a, b)) if x != y)
            findings.append((f"twin-streams-differ:{ops[0][2]}", f"equal parameters on equally seeded streams: draw #{k} gives {a[k][:3]} vs {b[k][:3]}", k))
    if case["kind"] == "wrapped-repoint":
        ks = next(j for j, op in enumerate(ops) if op[0] == "set")
        a = [o for op, o in list(zip(ops, outs))[ks + 1:] if op[0] == "drawq" and op[1] == 0]
        b = [o for op, o in zip(ops, outs) if op[0] == "drawq" and op[1] == 1]
        n = min(len(a), len(b))
        if a[:n] != b[:n]:
            k = next(j for j, (x, y) in enumerate(zip(a, b)) if x != y)
            findings.append((f"quantity-wrapper-ignores-repointing:{ops[0][2]}",
                             f"{ops[2][2]}Dist({ops[0][2]}{tuple(pval(p) for p in ops[0][5])}, {ops[2][3]!r}) built before "
                             f"`dist.stream = other`: draw #{k} through the wrapper afterwards gives {a[k][1:6]} (value, unit, factor, "
                             f"uniforms of the new stream, uniforms of other streams) but a reference wrapper on a stream seeded like "
                             f"the new one gives {b[k][1:6]}", ks))
    if case["kind"] == "sameobj":
        ks = next(j for j, op in enumerate(ops) if op[0] == "set")
        a = [o for op, o in list(zip(ops, outs))[ks + 1:] if op[0] == "draw" and op[1] == 0]
        b = [o for op, o in zip(ops, outs) if op[0] == "draw" and op[1] == 1]
        n = min(len(a), len(b))
        if a[:n] != b[:n]:
            k = next(j for j, (x, y) in enumerate(zip(a, b)) if x != y)
            nb = sum(1 for op in ops[:ks] if op[0] == "draw")
            findings.append((f"stale-state-after-reassigning-same-stream:{ops[0][2]}",
                             f"{ops[0][2]}{tuple(pval(p) for p in ops[0][5])}: after {nb} draws the stream was rewound "
                             f"({ops[ks - 1][2]}) and assigned again (dist.stream = the same object); draw #{k} afterwards gives "
                             f"{a[k][1:4]} (value, uniforms consumed) but a fresh twin on an equally seeded stream gives {b[k][1:4]}", ks))
    if case["kind"] == "refused":
        a = [o for op, o in zip(ops, outs) if op[0] == "draw" and op[1] == 0]
        b = [o for op, o in zip(ops, outs) if op[0] == "draw" and op[1] == 1]
        if a != b:
            k = next((j for j, (x, y) in enumerate(zip(a, b)) if x != y), min(len(a), len(b)))
            ks = next(j for j, op in enumerate(ops) if op[0] == "set")
            obj = ["None", "3", "'stream'"][ops[ks][3] % 3]
            findings.append((f"refused-set-stream-changes-state:{ops[0][2]}",
                             f"{ops[0][2]}{tuple(pval(p) for p in ops[0][5])}: after the refused assignment dist.stream = {obj} "
                             f"(TypeError) draw #{k} gives {a[k][1:4] if k < len(a) else None} (value, uniforms consumed) but the twin "
                             f"that did not see the assignment gives {b[k][1:4] if k < len(b) else None}", ks))
    if case["kind"] == "isolation" and solo_res is not None:
        a = [o for op, o in zip(ops, outs) if op[0] == "draw" and op[1] == 0]
        b = [o for op, o in zip(case["solo"]["ops"], solo_res["outs"]) if op[0] == "draw"]
        if a != b:
            k = next((j for j, (x, y) in enumerate(zip(a, b)) if x != y), min(len(a), len(b)))
            findings.append((f"instances-influence-each-other:{ops[0][2]}", f"draw #{k} of instance 0 differs when instance 1 ({ops[1][2]}) draws in between", k))
    return findings


# ------------------------------------------------------------------ Coq emission
def cparam(p):
    if p[0] == "f":
        return f"PF {C.cfloat(float.fromhex(p[1]))}"
    if p[0] == "i":
        return f"PI {C.cz(int(p[1]))}"
    return "PBad"


def cexn(name):
    return EXN.get(name)


def coq_case(case, res, powtab):
    """Coq term for one case, or None when an output is not representable
    (then the case counts as a certain mismatch)."""
    ops_c, exp_c = [], []
    accepted = {}
    for op, out in zip(case["ops"], res["outs"]):
        if op[0] in ("reset", "wrap"):
            continue        # not operations of the model: the recorded stream output simply goes on; the wrapper is the instance
        if op[0] == "new":
            _, i, cname, sok, sid, params = op
            ops_c.append(f"ONew {i} {COQ_CLS[cname]} {C.cbool(sok)} {sid} {C.clist(cparam(p) for p in params)}")
            accepted[i] = out[0] == "accept"
            if out[0] == "accept":
                exp_c.append("XAccept")
            else:
                e = cexn(out[1])
                if e is None:
                    return None
                exp_c.append(f"XRaise {e} 0")
            continue
        i = op[1]
        if not accepted.get(i):
            continue
        if op[0] == "set":
            ops_c.append(f"OSetStream {i} {C.cbool(op[2])} {op[3]}")
            if out[0] == "none":
                exp_c.append("XNone")
            else:
                e = cexn(out[1])
                if e is None:
                    return None
                exp_c.append(f"XRaise {e} 0")
            continue
        if op[0] == "draw":
            ops_c.append(f"ODraw {i}")
        else:
            factor = out[3] if out[0] == "valq" else None
            if factor is None:      # the wrapper raised: model the plain draw
                ops_c.append(f"ODraw {i}")
            else:
                ops_c.append(f"ODrawQ {i} {C.cfloat(float.fromhex(factor))}")
        if out[0] == "val":
            if out[1] == "f":
                exp_c.append(f"XVal (VF {C.cfloat(float.fromhex(out[2]))}) {out[3]}")
            elif out[1] == "i":
                exp_c.append(f"XVal (VI {C.cz(int(out[2]))}) {out[3]}")
            else:
                return None
        elif out[0] == "valq":
            exp_c.append(f"XVal (VF {C.cfloat(float.fromhex(out[1]))}) {out[4]}")
        elif out[0] == "raise":
            e = cexn(out[1])
            if e is None:
                return None
            exp_c.append(f"XRaise {e} {out[3]}")
        else:
            return None
    tab = []
    for fn, x, y, r in res["table"] + powtab:
        v = (f"OV {C.cfloat(float.fromhex(r[1]))}" if r[0] == "v"
             else f"OE {cexn(r[1])}" if r[0] == "e" and cexn(r[1]) else "OU")
        yy = C.cfloat(float.fromhex(y)) if y is not None else "0%float"
        tab.append(f"({FN[fn]}, {C.cfloat(float.fromhex(x))}, {yy}, {v})")
    streams = [C.clist(C.cfloat(float.fromhex(h)) for h in d + e) for d, e in zip(res["delivered"], res["extra"])]
    return (f"(mkCase {C.clist(tab)}\n  {C.clist(streams)}\n  {C.clist(ops_c)}\n  {C.clist(exp_c)})")


def emit_shard(path: Path, terms):
    lines = ["From Coq Require Import ZArith List PrimFloat.", "From PV Require Import Dist.Num Dist.Draw Dist.NumF.",
             "Import ListNotations.", "Open Scope nat_scope.",
             "Definition cases : list case := [", ";\n".join(terms), "].",
             "Eval vm_compute in (report_from 0 false cases)."]
    path.write_text("\n".join(lines) + "\n")


def parse_z_list(out: str):
    m = re.search(r"=\s*(\[.*?\]|nil)\s*:\s*list Z", out, re.S)
    if not m:
        return None
    body = m.group(1)
    if body == "nil":
        return []
    body = body[1:-1].strip()
    if not body:
        return []
    return [int(x.replace("%Z", "").replace("(", "").replace(")", "").strip()) for x in body.split(";")]


def decode_float(k, s, m, e):
    if k == 0:
        return -0.0 if s else 0.0
    if k == 1:
        return -INF if s else INF
    if k == 2:
        return NAN
    v = math.ldexp(float(m), e)
    return -v if s else v


def parse_report(zs):
    """-> (set of mismatching case indices, {case index: [(fn, x, y)]})"""
    mism, misses = set(), {}
    j = 0
    while j < len(zs):
        if zs[j] == -1:
            mism.add(zs[j + 1]); j += 2
        elif zs[j] == -2:
            idx, fn = zs[j + 1], zs[j + 2]
            x = decode_float(*zs[j + 3:j + 7])
            y = decode_float(*zs[j + 7:j + 11])
            misses.setdefault(idx, []).append((FN_BY_CODE[fn], x, y))
            j += 11
        else:
            raise ValueError(f"bad report at {j}: {zs[j:j + 12]}")
    return mism, misses


def pow_guesses(case, res):
    """(x, y) pairs the gamma acceptance-rejection for shape < 1 is likely to
    raise to a power.  Only a cache warm-up: the values are always computed by
    CPython's own x ** y, wrong guesses are merely unused entries."""
    shapes = set()
    for op in case["ops"]:
        if op[0] != "new":
            continue
        vals = [pval(p) for p in op[5]]
        cand = {"DistGamma": vals[:1], "DistBeta": vals[:2], "DistPearson5": vals[:1],
                "DistPearson6": vals[:2]}.get(op[2], [])
        for v in cand:
            if is_num(v) and 0 < v < 1:
                shapes.add(float(v))
    pairs = set()
    for s in shapes:
        b = (math.e + s) / math.e
        inv = 1.0 / s
        for d in res["delivered"]:
            for h in d:
                p = b * float.fromhex(h)
                if p <= 1.0:
                    pairs.add((p.hex(), inv.hex()))
        for fn, x, y, r in res["table"]:
            if fn == "log" and r[0] == "v":
                yv = -float.fromhex(r[1])
                pairs.add((yv.hex(), (s - 1.0).hex()))
    return sorted(pairs)


def correspondence(run, cases, results, max_rounds):
    """Model vs implementation inside coqc, with refinement rounds for `**`.
    Returns (mismatching case indices, unresolved case indices, rounds used) or None on a coqc failure."""
    d = C.scratch_dir(PID)
    powtabs = [[] for _ in cases]
    # warm-up guesses
    guess_idx, guess_pairs = [], []
    for i, (c, r) in enumerate(zip(cases, results)):
        for pr in pow_guesses(c, r):
            guess_idx.append(i); guess_pairs.append(list(pr))
    for i, pr, v in zip(guess_idx, guess_pairs, eval_pow(guess_pairs)):
        powtabs[i].append(["**", pr[0], pr[1], v])
    pending = list(range(len(cases)))
    mismatches, unrepresentable = set(), set()
    rounds = 0
    shard = 250
    while pending and rounds < max_rounds:
        rounds += 1
        terms, index = [], []
        for i in pending:
            t = coq_case(cases[i], results[i], powtabs[i])
            if t is None:
                unrepresentable.add(i)
            else:
                terms.append(t); index.append(i)
        files = []
        for s in range(0, len(terms), shard):
            f = d / f"cases_c14_r{rounds}_{s // shard}.v"
            emit_shard(f, terms[s:s + shard])
            files.append(f)
        outs = C.coqc_many(files)
        nxt = []
        want_idx, want_pairs = [], []
        for si, (rc, out) in enumerate(outs):
            zs = parse_z_list(out)
            if rc != 0 or zs is None:
                run.violation("correspondence-not-evaluable",
                              "coqc could not evaluate the C14 correspondence (Dist.NumF.report_from): " + out[-800:],
                              {"file": str(files[si])}, found_input=False)
                return None
            mism, misses = parse_report(zs)
            for local in mism:
                gi = index[si * shard + local]
                pw = [(x, y) for fn, x, y in misses.get(local, []) if fn == "**"]
                if pw and len(pw) == len(misses.get(local, [])):
                    for x, y in pw:
                        want_idx.append(gi); want_pairs.append([x.hex(), y.hex()])
                    nxt.append(gi)
                else:
                    mismatches.add(gi)
        for gi, pr, v in zip(want_idx, want_pairs, eval_pow(want_pairs)):
            powtabs[gi].append(["**", pr[0], pr[1], v])
        pending = sorted(set(nxt))
    return mismatches | unrepresentable, set(pending), rounds


# ------------------------------------------------------------------ shrinking
def shrink(case, res, k, sig):
    """Reduce a failing case to the failing instance, its consumed uniforms and the failing op."""
    op = case["ops"][k] if k < len(case["ops"]) else None
    if op is None:
        return case
    if op[0] == "new":
        cand = {"kind": "ctor", "streams": [{"script": [], "seed": 1, "kind": "script"}],
                "ops": [["new", 0, op[2], op[3], 0, op[5]]]}
    else:
        i = op[1]
        new = next(o for o in case["ops"] if o[0] == "new" and o[1] == i)
        keep = [o for o in case["ops"][:k + 1] if o[0] not in ("new", "reset") and o[1] == i]
        sids = sorted({new[4]} | {o[3] for o in keep if o[0] == "set" and o[2]})
        remap = {s: j for j, s in enumerate(sids)}
        streams = [{"script": res["delivered"][s], "seed": 1, "kind": "script"} for s in sids]
        ops = [["new", 0, new[2], True, remap[new[4]], new[5]]]
        for o in keep:
            if o[0] == "set":
                ops.append(["set", 0, o[2], remap.get(o[3], 0)])
            elif o[0] == "drawq":
                ops.append(["drawq", 0, o[2], o[3]])
            elif o[0] == "wrap":
                ops.append(["wrap", 0, o[2], o[3]])
            else:
                ops.append(["draw", 0])
        cand = {"kind": "shrunk", "streams": streams, "ops": ops}
    try:
        r2 = run_impl([cand])[0]
        f2, _ = oracle(cand, r2)
    except Exception:  # noqa
        return case
    if any(s == sig for s, _, _ in f2):
        # drop leading draws that are not needed
        while len(cand["ops"]) > 2:
            c3 = dict(cand); c3["ops"] = [cand["ops"][0]] + cand["ops"][2:]
            try:
                r3 = run_impl([c3])[0]
                f3, _ = oracle(c3, r3)
            except Exception:  # noqa
                break
            if any(s == sig for s, _, _ in f3):
                cand = c3
            else:
                break
        return cand
    return case


def public(case):
    return {k: v for k, v in case.items() if not k.startswith("_") and k != "solo"}


# ------------------------------------------------------------------ main
def main(tier: str) -> int:
    run = C.Run(PID, tier)
    extra_known = os.environ.get("VERIF_KNOWN")
    if extra_known and Path(extra_known).exists():       # builders' local testing only
        ek = json.loads(Path(extra_known).read_text())
        ek = ek if isinstance(ek, list) else ek.get("findings", [])
        have = {k.get("signature") for k in run._known}
        run._known += [k for k in ek if k.get("property") == PID and k.get("signature") not in have]
    try:
        tree = L.DistTree().prepare()
    except Exception as exc:  # noqa
        run.violation("translated-model-not-buildable", f"the model could not be regenerated from the source: {type(exc).__name__}: {exc}",
                      {"unchecked": "coq/Dist/GenAgree.v"}, found_input=False)
        return run.finish()
    proofs_ok = L.check_proofs(run, tree, TARGETS, extra_tb=[
        "libm (log, exp, pow, erf) and the ** operator are oracle tables recorded from CPython in the same run; "
        "the PrimFloat model is exact only relative to them",
        "purity / isolation / re-pointing theorems hold for every number structure (closed under the global context); "
        "support, totality and constructor theorems are over the real-number instance (Dist.NumR: stdlib ln/exp/Rpower/sqrt, "
        "the four standard real-number axioms) of the SAME Gallina text (Dist.Draw) that is executed with PrimFloat "
        "(Dist.NumF) in the correspondence; float rounding, underflow and overflow are only exercised, not proved",
        "the PrimFloat/PrimInt63 entries under 'axioms' are the kernel's primitive operations used by the executed "
        "witnesses (NaN constructor table, subnormal-uniform witness), not logical axioms",
        "erf / erf_inv / gamma are arbitrary functions in the real-number theorems; rejection loops: termination not proved",
        "int parameters restricted to |n| < 2^53 (exact int -> float conversion)",
    ])
    rng = random.Random(run.seed * 104729 + 14)
    n_random = 1500 if tier == "quick" else 16000
    cases = []
    corpus = C.VERIF / "corpus" / "C14.json"
    if corpus.exists():
        cases += json.loads(corpus.read_text())
    n_corpus = len(cases)
    cases += gen_ctor_cases(rng)
    cases += targeted_cases(rng)
    cases += refused_repoint_cases(rng)
    cases += same_object_cases(rng)
    cases += wrapped_repoint_cases(rng)
    cases += nonfinite_parameter_cases(rng)
    for i in range(n_random):
        cases.append(gen_case(rng, i))
    solo_of = {}
    for i, c in enumerate(list(cases)):
        if c.get("solo"):
            solo_of[i] = len(cases)
            cases.append(c["solo"])
    try:
        results = run_impl(cases)
    except Exception as exc:  # noqa
        run.violation("harness-cannot-run-implementation",
                      f"running the scenarios on the implementation failed: {type(exc).__name__}: {str(exc)[-1500:]}",
                      {}, found_input=False)
        return run.finish()

    # ---- oracle
    all_findings = []          # (case index, signature, what, op index)
    nontrivial = set()
    hist_kind, hist_cls, hist_exc = {}, {}, {}
    n_draws = 0
    for i, (c, r) in enumerate(zip(cases, results)):
        f, info = oracle(c, r)
        f += pair_oracles(c, r, results[solo_of[i]] if i in solo_of else None)
        for sig, what, k in f:
            all_findings.append((i, sig, what, k))
        hist_kind[c["kind"]] = hist_kind.get(c["kind"], 0) + 1
        for op, out in zip(c["ops"], r["outs"]):
            if op[0] == "new":
                hist_cls[op[2]] = hist_cls.get(op[2], 0) + 1
            if out and out[0] == "raise":
                hist_exc[out[1]] = hist_exc.get(out[1], 0) + 1
        n_draws += info["draws"]
        if info["special"] or info["retry"] or c["kind"] in ("twin", "isolation", "repoint", "refused", "sameobj", "wrapped-repoint", "shared", "quantity") \
                or (c["kind"] == "ctor"):
            nontrivial.add(json.dumps(public(c), sort_keys=True))
    run.cov["evaluations"] = len(cases)
    run.cov["distinct_nontrivial"] = len(nontrivial)
    run.cov["rule"] = ("scenarios over all 19 classes: constructor boundary grids (0, -0, negative, NaN, +-inf, subnormal, "
                       "equal/crossed bounds, p in {0,1}, wrong types, non-stream), two draws from whatever is accepted with a NaN / inf "
                       "parameter, every class with a refused stream assignment (None / 3 / str) after 1, 2, 3 draws, every class on the scripts "
                       "[0.0], [1-2^-53], [5e-324], [2^-53], [0.5,0.5], ... and random scenarios (single / twin streams / "
                       "isolation / shared stream / re-pointing / refused re-pointing next to an undisturbed twin / quantity wrappers) with parameters across the documented "
                       "domain (magnitudes 1e-3..1e3, 12% with extremes 5e-324..1.8e308) and scripted uniforms falling "
                       "through to a seeded tail; non-trivial = distinct scenario that is a boundary-constructor, twin, "
                       "isolation, shared, re-pointing or wrapper scenario, or contains a draw that consumed a special "
                       "uniform (0.0, 1-2^-53, <= 2^-53, 0.5) or needed a rejection retry")
    run.cov["scenario_histogram"] = hist_kind
    run.cov["class_histogram"] = hist_cls
    run.cov["exception_histogram"] = hist_exc
    run.cov["draw_calls"] = n_draws
    for c, r in list(zip(cases, results))[n_corpus + 400:n_corpus + 403]:
        run.add_sample({"scenario": public(c), "impl_outputs": r["outs"], "libm_calls_recorded": len(r["table"])})

    reported = {}
    for i, sig, what, k in all_findings:
        if sig in reported:
            continue
        reported[sig] = i
        small = shrink(cases[i], results[i], k, sig)
        run.violation(sig, what, {"scenario": public(small), "original_scenario": public(cases[i]),
                                  "how": "run harness/c14_impl.py (mode 'cases') on the scenario: ops are executed on the "
                                         "real pydsol.core.distributions classes with scripted StreamInterface objects"})
    run.cov["oracle_findings"] = {s: sum(1 for f in all_findings if f[1] == s) for s in reported}

    # ---- model vs implementation inside coqc
    usable = [i for i, r in enumerate(results) if not r["timeout"]]
    corr = correspondence(run, [cases[i] for i in usable], [results[i] for i in usable],
                          max_rounds=14 if tier == "quick" else 20)
    if corr is None:
        return run.finish()
    mism, unresolved, rounds = corr
    mism = {usable[i] for i in mism}
    unresolved = {usable[i] for i in unresolved}
    run.cov["traces_validated_against_impl"] = len(usable) - len(mism) - len(unresolved)
    run.cov["model_impl_mismatches"] = len(mism)
    run.cov["pow_refinement_rounds"] = rounds
    run.cov["pow_unresolved_cases"] = len(unresolved)
    failing_cases = {i for i, _, _, _ in all_findings}
    unexplained = sorted(mism - failing_cases)
    if os.environ.get("C14_DEBUG"):
        for i in sorted(mism):
            print("MISMATCH", i, i in failing_cases, json.dumps(public(cases[i]))[:600], json.dumps(results[i]["outs"])[:600])
    tie = tree.broken_for(PID)
    if unexplained and not tie:
        i = unexplained[0]
        run.violation("model-impl-disagree",
                      "correspondence Dist.NumF.case_ok (Dist.Draw over PrimFloat with recorded libm tables) no longer matches "
                      "the implementation, but the support / domain / isolation oracle found no violated clause",
                      {"scenario": public(cases[i]), "impl_outputs": results[i]["outs"], "relation": "Dist.NumF.case_ok",
                       "mismatching_cases": len(unexplained)}, found_input=False)
    if len(unresolved) > max(3, len(usable) // 100):
        i = sorted(unresolved)[0]
        run.violation("pow-oracle-not-converging",
                      f"{len(unresolved)} scenarios still miss ** table entries after {rounds} refinement rounds",
                      {"scenario": public(cases[i])}, found_input=False)
    # ---- the regenerated model no longer equals the proved one: look harder for a concrete failing input
    if tie and not run.violations:
        rng2 = random.Random(run.seed * 7919 + 1414)
        focus = [c for c in tie.get("classes", []) if c in CLASSES] or CLASSES
        extra = []
        for i in range(700 if tier == "quick" else 4000):
            extra.append(gen_case(rng2, CLASSES.index(focus[i % len(focus)])))
        tried = 0
        try:
            xres = run_impl(extra)
        except Exception:  # noqa
            xres = []
        for c, r in zip(extra, xres):
            tried += 1
            f, _info = oracle(c, r)
            f += pair_oracles(c, r, None)
            fresh = [(sig, what, k) for sig, what, k in f if not any(kn.get("signature") == sig for kn in run._known)]
            if fresh:
                sig, what, k = fresh[0]
                small = shrink(c, r, k, sig)
                run.violation(sig, what, {"scenario": public(small), "original_scenario": public(c),
                                          "found_by": "search after the translated model stopped agreeing with the proved one",
                                          "how": "run harness/c14_impl.py (mode 'cases') on the scenario"})
                break
        run.cov["extra_cases_searched_after_broken_tie"] = tried
    if "source_translation" in run.cov:
        run.cov["source_translation"]["tie"] = ({"status": "broken", **{k: v for k, v in tie.items() if k != "failures"}}
                                                if tie else {"status": "checked"})
    if tie and not run.violations:
        more = {"model_impl_mismatching_cases": len(mism), "extra_cases_searched": run.cov.get("extra_cases_searched_after_broken_tie")}
        if unexplained:
            i = unexplained[0]
            more.update({"correspondence": "Dist.NumF.case_ok also fails on %d scenarios that violate no clause of the property" % len(unexplained),
                         "scenario": public(cases[i]), "impl_outputs": results[i]["outs"]})
        L.report_broken_tie(run, tree, "the support / domain / isolation oracle", more)
    if not proofs_ok and not run.violations:
        run.violation("proof-broken", "a C14 proof obligation no longer checks: " + getattr(run, "proof_log", "")[-800:],
                      {"theorems": run.cov.get("theorems")}, found_input=False)
    return run.finish()


def replay(path: str) -> int:
    body = json.loads(Path(path).read_text())
    case = body.get("scenario")
    if not case:
        print("replay file has no scenario (proof / correspondence failure): re-run", body.get("rerun"))
        return 1
    res = run_impl([case])[0]
    f, _ = oracle(case, res)
    print(json.dumps({"impl_outputs": res["outs"], "findings": [[s, w] for s, w, _ in f]}, indent=1))
    return 1 if any(s == body.get("signature") for s, _, _ in f) else 0


if __name__ == "__main__":
    sys.exit(main(sys.argv[1] if len(sys.argv) > 1 else "quick"))
