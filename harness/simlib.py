"""Shared pieces of the simulator checks (C02-C07, C11): case generation,
running the implementation driver in parallel, emitting Coq cases and reading
back which cases the model disagrees with."""
from __future__ import annotations

import json
import random
import subprocess
from concurrent.futures import ThreadPoolExecutor
from pathlib import Path

import common as C

DRIVER = Path(__file__).resolve().parent / "sim_driver.py"
CLOCKS = ["float", "int", "dur", "durmin"]
STRATS = ["pause", "log", "warn"]
PRIOS = [5, 5, 5, 5, 1, 10, 3, 7, 10]


# ----------------------------------------------------------------------------- generation
def unit_of(clock: str) -> int:
    return 4 if clock == "int" else 1


def gen_program(rng: random.Random, clock: str, *, n_handlers=None, p_fail=0.0, p_cmd=0.0, p_illegal=0.12,
                p_cancel=0.12, p_obs=0.0, n_stats=0, horizon=64, max_events=120):
    """A program: prog[0] is construct_model, prog[h] the body of handler h.
    Children are mostly 'later' handlers (a DAG) plus at most one self-loop with
    a positive delay, so every run terminates quickly."""
    u = unit_of(clock)
    for _attempt in range(50):
        n = n_handlers or rng.randint(2, 7)
        prog = [[] for _ in range(n + 1)]
        loop_h = rng.randint(1, n) if rng.random() < 0.35 else None
        est_created = 0
        for h in range(0, n + 1):
            nacts = rng.randint(1, 4) if h == 0 else rng.randint(0, 3)
            for _ in range(nacts):
                r = rng.random()
                if r < p_illegal:
                    kind = rng.choice(["relneg", "relnan", "abspast", "absnan"])
                    mode = {"relneg": ["rel", -u * rng.randint(1, 3)], "relnan": ["rel", "nan"],
                            "abspast": ["abs", -u * rng.randint(1, 8)], "absnan": ["abs", "nan"]}[kind]
                    prog[h].append(["sched", mode, rng.choice(PRIOS), rng.randint(1, n)])
                elif r < p_illegal + p_cancel:
                    prog[h].append(["cancel", rng.randint(0, max(1, est_created + 2))])
                elif r < p_illegal + p_cancel + p_obs and n_stats:
                    prog[h].append(["obs", rng.randrange(n_stats), rng.randint(-3, 9)])
                else:
                    if h < n:
                        child = rng.randint(h + 1, n)
                    else:
                        continue
                    m = rng.random()
                    if m < 0.25:
                        mode = ["now"]
                    elif m < 0.75:
                        mode = ["rel", u * rng.choice([0, 0, 1, 1, 2, 3, 4, 8])]
                    else:
                        mode = ["abs", u * rng.randint(0, horizon // u + 2)]
                    prog[h].append(["sched", mode, rng.choice(PRIOS), child])
                    est_created += 1
            if h == loop_h:
                prog[h].append(["sched", ["rel", u * rng.choice([1, 2, 3, 5, 8])], rng.choice(PRIOS), h])
            if h >= 1 and p_cmd and rng.random() < p_cmd:
                c = rng.choice([["start"], ["step"], ["runupto", u * rng.randint(0, horizon // u)],
                                ["runuptoincl", u * rng.randint(0, horizon // u)], ["initbad"],
                                ["init", 0, 0, horizon]])
                prog[h].insert(rng.randint(0, len(prog[h])), ["cmd", c])
            if h >= 1 and p_fail and rng.random() < p_fail:
                prog[h].insert(rng.randint(0, len(prog[h])), ["fail"])
        if estimate_events(prog, loop_h, horizon, u) <= max_events:
            return prog
    return [[["sched", ["now"], 5, 1]], []]


def estimate_events(prog, loop_h, horizon, u):
    memo = {}

    def cnt(h):
        if h in memo:
            return memo[h]
        memo[h] = 1
        c = 1
        for a in prog[h]:
            if a[0] == "sched" and a[3] != h and a[3] < len(prog):
                c += cnt(a[3])
        if h == loop_h:
            ds = [a[1][1] for a in prog[h] if a[0] == "sched" and a[3] == h and a[1][0] == "rel"
                  and isinstance(a[1][1], int) and a[1][1] > 0]
            c *= max(1, horizon // max(min(ds) if ds else 1, 1) + 1)
        memo[h] = c
        return c
    return cnt(0)


FAIL_KINDS = ["runtime", "value", "key", "custom", "base", "keyint", "noargs"]


def maybe_fail_construct(case: dict, rng: random.Random, i: int, every: int = 29) -> dict:
    """a small share of the cases: construct_model raises at some point of its body, so initialize is aborted
    (exception escapes, simulator not initialised, run thread alive, nothing notified)"""
    if i % every == 11 and not case.get("freetime"):
        body = case["prog"][0]
        body.insert(rng.randint(0, len(body)), ["fail", rng.choice(FAIL_KINDS)])
        if rng.random() < 0.5 and len(case["cmds"]) < 8:
            case["cmds"] = case["cmds"] + [case["cmds"][0], ["start"], ["cleanup"]][:rng.randint(1, 3)]
    return case


def gen_repl(rng: random.Random, clock: str, horizon=64):
    u = unit_of(clock)
    start = rng.choice([0, 0, 0, 2 * u, 8 * u]) if clock != "int" else rng.choice([0, 0, 8])
    length = u * rng.randint(2, horizon // u)
    end = start + length
    w = rng.random()
    if w < 0.15:
        warm = start
    elif w < 0.85:
        warm = start + u * rng.randint(0, length // u)
    else:
        warm = end + u * rng.randint(0, 4)
    return ["init", start, warm, end]


# ----------------------------------------------------------------------------- running the implementation
def run_impl(cases: list[dict], nproc: int = 14, timeout: int = 900, batch: int | None = None) -> list[dict]:
    """Run the cases on the implementation, in fresh interpreters, nproc at a
    time; small batches handed out dynamically so a few slow cases (stop() from
    a handler costs 1 s wall) do not pile up in one worker."""
    if not cases:
        return []
    nproc = max(1, min(nproc, len(cases)))
    if batch is None:
        batch = max(8, min(60, len(cases) // (nproc * 4) or 1))
    chunks = [cases[i:i + batch] for i in range(0, len(cases), batch)]

    def one(chunk):
        p = subprocess.run([C.PY, str(DRIVER)], input=json.dumps(chunk), capture_output=True, text=True,
                           timeout=timeout, env=C.child_env())
        if p.returncode != 0:
            raise RuntimeError("sim_driver failed: " + p.stderr[-2000:])
        return json.loads(p.stdout)
    with ThreadPoolExecutor(max_workers=nproc) as ex:
        outs = list(ex.map(one, chunks))
    return [o for chunk_out in outs for o in chunk_out]


# ----------------------------------------------------------------------------- Coq emission
RS = {"NOT_INITIALIZED": "RNotInit", "INITIALIZED": "RInit", "STARTING": "RStarting", "STARTED": "RStarted",
      "STOPPING": "RStopping", "STOPPED": "RStopped", "ENDED": "REnded"}
PS = {"NOT_INITIALIZED": "PNotInit", "INITIALIZED": "PInit", "STARTED": "PStarted", "ENDING": "PEnding",
      "ENDED": "PEnded"}
STRAT = {"pause": "SWarnPause", "log": "SLog", "warn": "SWarnCont"}
NTF = {"startrepl": "NStartRepl", "start": "NStart", "time": "NTime", "warmup": "NWarmup", "stop": "NStop",
       "endrepl": "NEndRepl"}


def c_tmv(t):
    if t == "nan":
        return "TNaN"
    if isinstance(t, str) and t.startswith("tinyneg"):   # any negative delay, however small, is a negative delay
        return "(TNum (-1)%Z)"
    if t == "tinypast":                                    # an absolute time before the clock (clocks are never negative)
        return "(TNum (-4000000)%Z)"
    return f"(TNum {C.cz(t)})"


def c_cmd(c):
    k = c[0]
    if k == "init":
        return f"(CInit (mkRepl {C.cz(c[1])} {C.cz(c[2])} {C.cz(c[3])}))"
    if k == "runupto":
        return f"(CRunUpTo {c_tmv(c[1])})"
    if k == "runuptoincl":
        return f"(CRunUpToIncl {c_tmv(c[1])})"
    return {"initbad": "CInitBad", "start": "CStart", "step": "CStep", "stop": "CStop", "endrepl": "CEndRepl",
            "cleanup": "CCleanup"}[k]


def c_action(a):
    k = a[0]
    if k == "sched":
        m = a[1]
        mode = "MNow" if m[0] == "now" else (f"(MRel {c_tmv(m[1])})" if m[0] == "rel" else f"(MAbs {c_tmv(m[1])})")
        return f"ASched {mode} {C.cz(a[2])} {C.cnat(a[3])}"
    if k == "cancel":
        return f"ACancel {C.cnat(a[1])}"
    if k == "fail":
        return "AFail"
    if k == "extstop":      # stop() by the controlling thread while this handler runs: same effect as a stop() call here
        return "ACmd CStop"
    if k == "cmd":
        return f"ACmd {c_cmd(a[1])}"
    if k == "obs":
        return f"AObs {C.cnat(a[1])} {C.cz(a[2])}"
    raise ValueError(a)


def construct_fails(case: dict) -> bool:
    """construct_model (handler 0) raises: every accepted initialize of this case is aborted"""
    return bool(case) and any(a[0] == "fail" for a in case["prog"][0])


def representable(obs: dict, case: dict | None = None) -> str | None:
    """None if the observation can be written as a Coq expectation, else why not.  An exception out of
    initialize is representable (ResRaised) when the case's construct_model raises."""
    if "error" in obs:
        return "driver error: " + obs["error"]
    for j, sn in enumerate(obs["snaps"]):
        if isinstance(sn[0], str) and sn[0].startswith("exc:") and case is not None and construct_fails(case) \
                and j < len(case["cmds"]) and case["cmds"][j][0] == "init":
            pass
        elif sn[0] not in ("ok", "refused"):
            return f"command outcome {sn[0]}"
        if sn[1] not in RS or sn[2] not in PS or not isinstance(sn[3], int):
            return f"snapshot {sn}"
    for o in obs["outs"]:
        if o not in ("acc", "ref", "cmdok", "cmdref"):
            return f"outcome {o}"
    for k, t in obs["trace"]:
        if not isinstance(t, int):
            return f"trace clock {t}"
    for nm, t in obs["ntfs"]:
        if nm in NTF and not isinstance(t, int):
            return f"notification {nm} timestamp {t}"
        if nm not in NTF and nm not in ("starting", "stopping"):
            return f"notification {nm}"
    if obs.get("notes"):
        return "; ".join(obs["notes"])
    return None


def log_insane(obs: dict) -> str | None:
    """None if every clock in the chronological log is an exact integer number of quarters
    (what the oracles compute with), else a description of the first offending entry."""
    for ent in obs.get("log", []):
        if ent[0] == "exec" and not isinstance(ent[2], int):
            return f"event {ent[1]} executed at clock {ent[2]}"
        if ent[0] == "cmd" and not isinstance(ent[5], int):
            return f"clock {ent[5]} after {ent[1]}"
        if ent[0] == "sched" and not isinstance(ent[2], int):
            return f"scheduling request {ent[1]} issued at clock {ent[2]}"
        if ent[0] == "sched" and ent[6] is not None and not isinstance(ent[6][1], int):
            return f"request {ent[1]} created an event at time {ent[6][1]}"
    for sn in obs.get("snaps", []):
        if not isinstance(sn[3], int):
            return f"clock {sn[3]} after a command"
    return None


def c_expect(obs: dict) -> str:
    res = lambda r: "ResOk" if r == "ok" else ("ResRaised" if r.startswith("exc:") else "ResRefused")
    snaps = C.clist(f"mkSnap {res(s[0])} {RS[s[1]]} {PS[s[2]]} {C.cz(s[3])} {C.cnat(s[4])}"
                    for s in obs["snaps"])
    trace = C.clist(f"({C.cnat(k)}, {C.cz(t)})" for k, t in obs["trace"])
    outs = C.clist({"acc": "OAccepted", "ref": "ORefused", "cmdok": "OCmdOk", "cmdref": "OCmdRefused"}[o]
                   for o in obs["outs"])
    ntfs = C.clist(("NStarting" if nm == "starting" else "NStopping" if nm == "stopping" else f"{NTF[nm]} {C.cz(t)}")
                   for nm, t in obs["ntfs"])
    ob = C.clist(f"ObsV {C.cnat(s)} {C.cz(v)} {C.cz(t)}" for s, v, t in obs["obs"])
    canc = C.clist(C.cnat(k) for k in obs.get("canc", []))
    return f"(mkExpect {snaps} {trace} {outs} {ntfs} {ob} {canc} {C.cbool(obs['alive'])})"


def c_case(case: dict, obs: dict) -> str:
    prog = C.clist(C.clist(c_action(a) for a in body) for body in case["prog"])
    cmds = C.clist(c_cmd(c) for c in case["cmds"])
    return f"(mkCase {STRAT[case['strategy']]} {prog} {cmds} {c_expect(obs)})"


def model_covers(case: dict) -> bool:
    """Sim/Model.v has one error strategy per simulator; a handler that calls set_error_strategy during a
    run is driven on the implementation and judged by the oracle only."""
    if case.get("freetime"):      # non-dyadic float times used verbatim: no exact Z representation
        return False
    return not any(a[0] == "setstrat" for body in case["prog"] for a in body)


def coq_compare(pid: str, cases: list[dict], obs: list[dict], shard: int = 250):
    """Returns (codes, error). codes[i] in {0 agree, 1 disagree, 2 not covered by the model, 3 not representable}."""
    d = C.scratch_dir(pid)
    codes = [0] * len(cases)
    idxs = []
    for i, o in enumerate(obs):
        if representable(o, cases[i]) is None and model_covers(cases[i]):
            idxs.append(i)
        else:
            codes[i] = 3
    files = []
    groups = [idxs[s:s + shard] for s in range(0, len(idxs), shard)]
    for g, grp in enumerate(groups):
        f = d / f"cases_{pid.lower()}_{g}.v"
        lines = ["From Coq Require Import ZArith List.", "From PV Require Import Sim.Model Sim.Case.",
                 "Import ListNotations.", "Definition cases : list scase := ["]
        lines.append(";\n".join(c_case(cases[i], obs[i]) for i in grp))
        lines.append("].")
        lines.append("Eval vm_compute in (codes_from 0 1 cases).")
        lines.append("Eval vm_compute in (codes_from 0 2 cases).")
        f.write_text("\n".join(lines) + "\n")
        files.append(f)
    results = C.coqc_many(files)
    for g, (rc, out) in enumerate(results):
        lists = C.parse_nat_lists(out)
        if rc != 0 or len(lists) != 2:
            return codes, f"coqc failed on {files[g]}: {out[-800:]}"
        for j in lists[0]:
            codes[groups[g][j]] = 1
        for j in lists[1]:
            codes[groups[g][j]] = 2
    return codes, None


def coq_view(pid: str, case: dict, obs: dict) -> str:
    """Model's own view of one case (diagnostics for replay files)."""
    d = C.SCRATCH / (pid + "_view")
    d.mkdir(parents=True, exist_ok=True)
    f = d / "view.v"
    f.write_text("From Coq Require Import ZArith List.\nFrom PV Require Import Sim.Model Sim.Case.\n"
                 "Import ListNotations.\n"
                 f"Definition c : scase := {c_case(case, obs)}.\n"
                 "Eval vm_compute in (case_diff c).\nEval vm_compute in (case_view c).\n")
    rc, out = C.coqc_file(f)
    return out[-6000:]
