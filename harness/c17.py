"""C17 -- unit conversion is faithful for every declared unit of every quantity.

Tie to /repo on every run:
 (T) translator/dump_units.py regenerates Gen_Tables.v and Gen_Compound.v (in the run's own per-tree
     directory, see c16_units.Tree) from the imported
     module; the table theorems (Units/GenFacts17.v) are recompiled against them and Props/C17.v is
     re-checked.  A table that breaks a theorem makes the build fail; the offending entries are then
     computed (Coq offender lists + the same clause evaluated on the live classes) and reported as the
     replay.  The dump itself is compared entry by entry with getattr on the live classes.
 (C) every (class, declared unit) x a value set: construction, si, display value, unit, str(), repr(),
     re-expression in every other unit of the class, == != < <= > >=, + -, neg, abs between different
     units of one class; refused constructions / re-expressions.  Executed on the real classes and on
     Units.Dispatch.eval (vm_compute in coqc), compared bit-exactly.
The oracle evaluates the clauses of C17 on the implementation's outputs with Python floats and the live
tables only (no Coq model involved).
"""
from __future__ import annotations

import json
import math
import random
import subprocess
import sys
from fractions import Fraction
from pathlib import Path

sys.path.insert(0, str(Path(__file__).resolve().parent))
import common as C
import c16_units as UU

PID = "C17"
TABLE_CHECKS = ["classes_plain", "units_wf", "factor_ratio", "base_factor", "described", "display", "alias_display",
                "alias_descr", "compound", "all_names"]
CMPS = ["==", "!=", "<", "<=", ">", ">="]
FIXED_VALUES = [0.0, 1.0, -1.0, 1000.0, 0.001, 0.1, 3.7, 7]          # 7 is an int


# display values the rounding helpers are tried on: integers, neighbours of integers, ties, small and large magnitudes
NEG_ZEROS = [-0.0, -5e-324, -0.0, 0.0]            # -5e-324 * factor underflows to -0.0 for factors < 1
ROUND_VALUES = [-0.0, 6, 7.0, -3, 0.0, 1, 100.0, 5.999999999999999, 6.000000000000001, 2.9999999999999996, -0.9999999999999999,
                0.5, 1.5, 2.5, -2.5, 3.5, -0.5, 0.49999999999999994, 12345.678, -7.25, 1e-9, 4503599627370497.0, 1e17]


def num(v) -> dict:
    d = {"t": "num", "v": UU.fhex(v)}
    if type(v) is int:
        d["int"] = True
    return d


def qspec(cls, unit, v) -> dict:
    d = {"t": "q", "cls": cls, "unit": unit, "v": UU.fhex(v)}
    if type(v) is int:
        d["int"] = True
    return d


def rnd_float(rng: random.Random) -> float:
    mag = rng.choice([1e-6, 1e-3, 0.1, 1.0, 10.0, 1e3, 1e6, 1e9])
    return (rng.random() + 0.01) * mag * rng.choice([1, 1, 1, -1])


# ------------------------------------------------------------------ generation
def gen_cases(ctx, rng: random.Random, tier: str):
    specs = []

    def add(group, spec):
        spec = dict(spec)
        spec["group"] = group
        specs.append(spec)

    n_rand = 1 if tier == "quick" else 30
    for cls in ctx.names:
        units = ctx.units_of(cls)
        for ui, unit in enumerate(units):
            vals = list(FIXED_VALUES) + [rnd_float(rng) for _ in range(n_rand)]
            if tier == "quick":
                # all fixed values on a rotating third of the units, three values on the others
                if (ui + len(cls)) % 3:
                    vals = [FIXED_VALUES[(ui + k) % len(FIXED_VALUES)] for k in (0, 3)] + [0.1, 3.7] + vals[-n_rand:]
            for v in vals:
                add("construct", {"k": "mk", "cls": cls, "v": num(v), "unit": unit})
                x = qspec(cls, unit, v)
                add("displayvalue", {"k": "get", "g": "displayvalue", "x": x})
                add("str", {"k": "get", "g": "str", "x": x})
            x = qspec(cls, unit, rnd_float(rng))
            add("unit", {"k": "get", "g": "unit", "x": x})
            add("si", {"k": "get", "g": "si", "x": x})
            add("reexpress", {"k": "reexpress", "x": qspec(cls, unit, rng.choice([0.1, 3.7, rnd_float(rng)]))})
            if tier != "quick":
                for v in FIXED_VALUES + [rnd_float(rng), rnd_float(rng)]:
                    add("reexpress", {"k": "reexpress", "x": qspec(cls, unit, v)})
            # two quantities of the class in different units: comparisons, + - and the unary operators
            other = rng.choice(units)
            a, b = rnd_float(rng), rnd_float(rng)
            y = qspec(cls, other, b)
            ops = CMPS + ["+", "-"] if tier != "quick" else [rng.choice(CMPS), rng.choice(CMPS), "+", "-"]
            for op in ops:
                add("binary", {"k": "bin", "op": op, "x": qspec(cls, unit, a), "y": y})
            # equal SI value reached through two units
            add("binary-equal", {"k": "bin", "op": rng.choice(CMPS), "x": dict(qspec(cls, unit, a), as_unit=other),
                                 "y": qspec(cls, unit, a)})
            for op in ("neg", "abs", "pos"):
                add("unary", {"k": "un", "op": op, "x": qspec(cls, unit, rng.choice([a, -abs(a), 0.0]))})
                # an SI value of -0.0 (given as such, or as a product that underflows): signs of zero are compared bit for bit
                add("unary-negzero", {"k": "un", "op": op, "x": qspec(cls, unit, NEG_ZEROS[(ui + len(op)) % len(NEG_ZEROS)])})
            add("as_unit", {"k": "as_unit", "x": qspec(cls, unit, a), "unit": other})
        # the rounding helpers on integral, near-integral and half-way display values of every unit
        for ui, unit in enumerate(units):
            pool = ROUND_VALUES if tier != "quick" else [ROUND_VALUES[(ui * 3 + len(cls) + j) % len(ROUND_VALUES)] for j in range(2)]
            for v in pool:
                for op in ("floor", "ceil", "trunc", "round"):
                    add("round", {"k": "round", "op": op, "x": qspec(cls, unit, v)})
            for op in (("floor", "ceil", "trunc", "round") if tier != "quick" else [("floor", "ceil", "trunc", "round")[ui % 4]]):
                add("round", {"k": "round", "op": op, "x": qspec(cls, unit, -0.0)})
        # malformed: undeclared unit, non-number value, bool, missing value
        base = ctx.dump["classes"][ctx.index[cls]]["base"]
        bad_units = ["", "no-such-unit", base + " ", units[-1].upper() + "?"]
        for bu in bad_units:
            if bu in units:
                continue
            add("refused", {"k": "mk", "cls": cls, "v": num(1.5), "unit": bu})
            add("refused", {"k": "as_unit", "x": qspec(cls, base, 2.5), "unit": bu})
        add("refused", {"k": "mk", "cls": cls, "v": {"t": "str"}, "unit": base})
        add("refused", {"k": "mk", "cls": cls, "v": {"t": "str"}, "unit": None})
        add("base-default", {"k": "mk", "cls": cls, "v": num(rnd_float(rng)), "unit": None})
        add("base-default", {"k": "mk", "cls": cls, "v": num(3), "unit": None})
    return specs


# ------------------------------------------------------------------ oracle (no Coq model involved)
def ulps_close(a: float, b: float, n: int = 4) -> bool:
    if a == b or (a != a and b != b):
        return True
    if math.isinf(a) or math.isinf(b):
        return False
    return abs(a - b) <= n * math.ulp(max(abs(a), abs(b)))


def oracle(ctx, spec, out, ops, raw):
    """None, or (signature, description): the clauses of C17 evaluated on the implementation's outputs."""
    k = spec["k"]
    U = ctx.U
    if "setup_failed" in out:
        return ("operand-construction-fails:" + spec.get("x", {}).get("cls", "?"),
                f"could not build the operand of {spec}: {out['setup_failed']}")
    if "bad" in out:
        return ("malformed-result:" + k, f"{spec}: result {out['bad']}")
    if k in ("bin", "un", "round") and ("operand_changed" in out or "second_differs" in out):
        cls = ops[0].get("cls", ops[0]["t"]) if ops else "?"
        if "operand_changed" in out:
            return (f"operation-changes-its-operand:{spec['op']}:{cls}",
                    f"{spec['op']} on {ops} left an operand (or a copy of it made earlier by scaling with a number) different "
                    f"from what it was: {out['operand_changed']}")
        return (f"repeated-operation-differs:{spec['op']}:{cls}",
                f"{spec['op']} on the same objects {ops} gave a different outcome the second time: {out['second_differs']}")
    if k == "mk":
        cls = getattr(U, spec["cls"])
        unit = spec["unit"]
        v = spec["v"]
        declared = unit is None or (type(unit) is str and unit in cls._units)
        if v["t"] != "num" or not declared:
            return None if "raise" in out else (f"construction-accepts-invalid:{spec['cls']}",
                                                f"{spec['cls']}({v}, {unit!r}) returned {out}")
        val = int(UU.unhex(v["v"])) if v.get("int") else UU.unhex(v["v"])
        f = cls._units[unit if unit is not None else cls._baseunit]
        if "val" not in out:
            return (f"construction-raises:{spec['cls']}:{unit}", f"{spec['cls']}({val!r}, {unit!r}) gave {out}")
        r = out["val"]
        exp_unit = unit if unit is not None else cls._baseunit
        if r.get("cls") != spec["cls"] or r["si"] != UU.fhex(val * f) or r.get("unit") != exp_unit:
            return (f"construction-wrong:{spec['cls']}:{unit}",
                    f"{spec['cls']}({val!r}, {unit!r}) = {r}; expected SI value {val * f!r} (factor {f!r}) and unit {exp_unit!r}")
        return None
    if k == "get":
        x = spec["x"]
        cls = getattr(U, x["cls"])
        f = cls._units[x["unit"]]
        val = int(UU.unhex(x["v"])) if x.get("int") else UU.unhex(x["v"])
        si = val * f
        g = spec["g"]
        if g == "displayvalue":
            if "num" not in out:
                return (f"displayvalue-raises:{x['cls']}:{x['unit']}", f"displayvalue of {x} gave {out}")
            dv = UU.unhex(out["num"])
            if out["num"] != UU.fhex(si / f):
                return (f"displayvalue-wrong:{x['cls']}:{x['unit']}", f"displayvalue of {x} = {dv!r}, SI/factor = {si / f!r}")
            if not ulps_close(dv, float(val)):
                return (f"displayvalue-not-original:{x['cls']}:{x['unit']}",
                        f"displayvalue of {x['cls']}({val!r}, {x['unit']!r}) is {dv!r} (more than 4 ulp from the value)")
            return None
        if g == "unit":
            return None if out.get("text") == x["unit"] else (f"unit-wrong:{x['cls']}:{x['unit']}", f"unit of {x} gave {out}")
        if g == "si":
            return None if out.get("num") == UU.fhex(si) else (f"si-wrong:{x['cls']}:{x['unit']}", f"si of {x} gave {out}, expected {si!r}")
        if g == "str":
            if "raise" in out:
                return (f"str-raises:{x['cls']}", f"str({x['cls']}({val!r}, {x['unit']!r})) raised {out['raise']}: {out.get('msg')}")
            d = cls._displayunits.get(x["unit"], x["unit"])
            if out.get("text") != d:
                return (f"str-wrong:{x['cls']}:{x['unit']}", f"str of {x} ends in {out.get('text')!r}, display unit is {d!r}")
            return None
    if k == "reexpress":
        x = ops[0]
        cls = getattr(U, x["cls"])
        if "nums" not in out:
            return (f"reexpression-raises:{x['cls']}", f"as_unit over all units of {x} gave {out}")
        units = list(cls._units)
        nums = out["nums"]
        if len(nums) != 2 * len(units):
            return (f"reexpression-wrong:{x['cls']}", f"{len(nums)} numbers for {len(units)} units")
        for j, u in enumerate(units):
            if nums[2 * j] != x["si"]:
                return (f"reexpression-changes-si:{x['cls']}:{u}",
                        f"{x}.as_unit({u!r}).si = {UU.unhex(nums[2 * j])!r}, before {UU.unhex(x['si'])!r}")
            if nums[2 * j + 1] != UU.fhex(UU.unhex(x["si"]) / cls._units[u]):
                return (f"reexpression-displayvalue-wrong:{x['cls']}:{u}", f"{x}.as_unit({u!r}).displayvalue")
            if raw and (raw[j][1] != u or raw[j][2] != x["cls"]):
                return (f"reexpression-unit-wrong:{x['cls']}:{u}", f"{x}.as_unit({u!r}) is a {raw[j][2]} in {raw[j][1]!r}")
        return None
    if k == "as_unit":
        x = ops[0]
        cls = getattr(U, x["cls"])
        if spec["unit"] not in cls._units:
            return None if "raise" in out else (f"as-unit-accepts-undeclared:{x['cls']}", f"{x}.as_unit({spec['unit']!r}) gave {out}")
        ok = "val" in out and out["val"]["si"] == x["si"] and out["val"].get("unit") == spec["unit"] and out["val"].get("cls") == x["cls"]
        return None if ok else (f"reexpression-changes-si:{x['cls']}:{spec['unit']}", f"{x}.as_unit({spec['unit']!r}) gave {out}")
    if k == "bin":
        x, y = ops
        fx, fy = UU.unhex(x["si"]), UU.unhex(y["si"])
        op = spec["op"]
        if op in ("+", "-"):
            ev = fx + fy if op == "+" else fx - fy
            ok = "val" in out and out["val"].get("cls") == x["cls"] and out["val"]["si"] == UU.fhex(ev) and \
                 out["val"].get("unit") == x["unit"]
            return None if ok else (f"add-sub-wrong:{x['cls']}", f"{x} {op} {y} gave {out}; SI values give {ev!r} in unit {x['unit']!r}")
        ev = {"==": fx == fy, "!=": fx != fy, "<": fx < fy, "<=": fx <= fy, ">": fx > fy, ">=": fx >= fy}[op]
        return None if out.get("bool") is ev else (f"compare-wrong:{x['cls']}", f"{x} {op} {y} gave {out}, SI values give {ev}")
    if k == "round":
        # clause: the rounding helpers work on the REPORTED display value and keep the unit
        x = ops[0]
        op = spec["op"]
        if x["t"] == "si":
            r = {"floor": math.floor, "ceil": math.ceil, "trunc": math.trunc, "round": round}[op](UU.unhex(x["si"]))
            ok = "val" in out and out["val"].get("sig") == x["sig"] and out["val"]["si"] == UU.fhex(float(r))
            return None if ok else (f"rounding-wrong:{op}:SI", f"{op} of {x} gave {out}, expected SI value {float(r)!r}")
        cls = getattr(U, x["cls"])
        f = cls._units[x["unit"]]
        dv = UU.unhex(x["si"]) / f                       # what q.displayvalue reports
        r = {"floor": math.floor, "ceil": math.ceil, "trunc": math.trunc, "round": round}[op](dv)
        if "val" not in out:
            return (f"rounding-raises:{op}:{x['cls']}:{x['unit']}", f"{op}({x}) (display value {dv!r}) gave {out}")
        v = out["val"]
        if v.get("cls") != x["cls"] or v.get("unit") != x["unit"]:
            return (f"rounding-changes-type-or-unit:{op}:{x['cls']}:{x['unit']}", f"{op}({x}) returned {v}")
        if v["si"] != UU.fhex(r * f):
            got = UU.unhex(v["si"]) / f
            return (f"rounding-not-on-display-value:{op}:{x['cls']}:{x['unit']}",
                    f"{op}({x['cls']} with display value {dv!r} {x['unit']}) has display value {got!r}; {op} of the reported "
                    f"display value is {r!r} (SI value {UU.unhex(v['si'])!r}, expected {r * f!r})")
        if not ulps_close((r * f) / f, float(r)):
            return (f"rounded-display-value-not-integral:{op}:{x['cls']}:{x['unit']}",
                    f"{op}({x}) = {r!r} {x['unit']} but the result reports the display value {(r * f) / f!r}")
        return None
    if k == "un":
        x = ops[0]
        fx = UU.unhex(x["si"])
        ev = {"neg": -fx, "abs": abs(fx), "pos": fx}[spec["op"]]
        ok = "val" in out and out["val"]["si"] == UU.fhex(ev) and out["val"].get("unit") == x["unit"] and \
             out["val"].get("cls") == x["cls"]
        return None if ok else (f"unary-{spec['op']}-wrong:{x['cls']}", f"{spec['op']} {x} gave {out}")
    return None


# ------------------------------------------------------------------ table checks -> violations with the entries
def star_import_result():
    """`from pydsol.core.units import *` in a fresh interpreter of the tree under test."""
    p = subprocess.run([C.PY, "-c", "from pydsol.core.units import *\nprint('ok')"], capture_output=True, text=True,
                       env=C.child_env(), timeout=120)
    return "ok" if p.returncode == 0 else (p.stderr.strip().splitlines() or ["failed"])[-1]


def compound_offenders(ctx):
    """Python evaluation of compound_units_agree on the live tables (exact rationals), independent of Coq."""
    res = []
    cls = ctx.classes
    for i, cp in enumerate(ctx.dump["compounds"]):
        c = cls[cp["cls"]]
        f = Fraction(c._units[cp["unit"]])
        okall = bool(cp["readings"])
        worst = None
        for r in cp["readings"]:
            prod = Fraction(1)
            den = False
            for a in r:
                den = den or a["sep"] == "/"
                fa = Fraction(cls[a["cls"]]._units[a["unit"]])
                prod *= fa ** (-a["k"] if den else a["k"])
            rel = abs(f - prod) / abs(prod)
            if rel > Fraction(1, 10 ** 12):
                okall = False
                worst = {"reading": [(a["sep"] + cls[a["cls"]].__name__ + ":" + a["unit"] + ("^%d" % a["k"] if a["k"] != 1 else ""))
                                     for a in r],
                         "declared_factor": float(f), "factor_from_components": float(prod), "relative_difference": float(rel)}
        if not okall:
            res.append({"index": i, "cls": c.__name__, "unit": cp["unit"], **(worst or {})})
    return res


def table_violations(run, ctx, coq_off, py_off):
    dumpc = ctx.dump["classes"]
    U = ctx.U

    def try_call(f):
        try:
            return {"returned": repr(f())[:100]}
        except Exception as exc:  # noqa
            return {"raised": type(exc).__name__, "msg": str(exc)[:160]}

    for check in TABLE_CHECKS:
        co = coq_off.get(check, [])
        po = py_off.get(check, [])
        if not co and not po:
            continue
        if not po:
            run.violation(f"table-{check}-fails-in-coq",
                          f"Coq table check {check} fails over the regenerated tables but the same clause evaluated on the "
                          f"live module holds; offenders (class, entry): {co[:8]}", {"coq_offenders": co}, found_input=False)
            continue
        if check == "display":
            by_cls = {}
            for o in po:
                by_cls.setdefault(o["cls"], []).append(o)
            for cn, lst in by_cls.items():
                c = getattr(U, cn)
                u = next((x for x in c._units if x in c._displayunits and type(c._displayunits[x]) is not str), None)
                wit = {"call": f"str({cn}(1.0, {u!r}))", **try_call(lambda: str(c(1.0, u)))} if u is not None else None
                run.violation(f"display-unit-not-a-string:{cn}",
                              f"{cn}._displayunits has {len(lst)} entries that are not unit-string -> string "
                              f"(e.g. {lst[0]['unit']} -> {lst[0]['display']}); str() of such a quantity raises",
                              {"table_entries": lst, "theorem": "C17_display_units_are_strings_naming_declared_units / C17_str_total",
                               "coq_offenders": [p for p in co if dumpc[p[0]]["name"] == cn], "failing_call": wit})
        elif check == "all_names":
            star = star_import_result()
            for o in po:
                run.violation(f"all-name-missing:{o['name']}",
                              f"__all__[{o['index']}] = {o['name']!r} is not a name of pydsol.core.units",
                              {"table_entry": o, "theorem": "C17_all_public_names_exist", "coq_offenders": co,
                               "failing_call": {"call": f"getattr(pydsol.core.units, {o['name']!r})",
                                                **try_call(lambda: getattr(U, o["name"]))},
                               "star_import": star})
        elif check == "compound":
            for o in po:
                run.violation(f"compound-unit-factor-disagrees:{o['cls']}:{o['unit']}",
                              f"{o['cls']} unit {o['unit']!r} has factor {o.get('declared_factor')!r} but its components "
                              f"{o.get('reading')} give {o.get('factor_from_components')!r}",
                              {"table_entry": o, "theorem": "C17_compound_units_agree", "coq_offenders": co,
                               "failing_call": {"call": f"{o['cls']}(1.0, {o['unit']!r}).si",
                                                **try_call(lambda: getattr(U, o["cls"])(1.0, o["unit"]).si)}})
        elif check in ("alias_display", "alias_descr"):
            seen = set()
            for o in po:
                key = (o["cls"], frozenset((o["unit"], o["other"])))
                if key in seen:
                    continue
                seen.add(key)
                a, b = sorted((o["unit"], o["other"]))
                what = "display text" if check == "alias_display" else "description"
                run.violation(f"alias-factor-differs:{o['cls']}:{a}+{b}",
                              f"{o['cls']} units {a!r} and {b!r} share the {what} {o.get('display', o.get('description'))!r} "
                              f"but have factors {o['factors']}",
                              {"table_entry": o, "theorem": "C17_aliases_share_factor", "coq_offenders": co})
        else:
            for o in po[:6]:
                run.violation(f"table-{check}-violated:{o.get('cls', '')}:{str(o.get('unit', '')).strip(chr(39))}",
                              f"table check {check} fails on the live module: {o}",
                              {"table_entry": o, "coq_offenders": co,
                               "theorem": {"described": "C17_every_unit_described", "base_factor": "C17_base_unit_has_factor_one",
                                           "units_wf": "C17_units_well_formed", "factor_ratio": "C17_units_well_formed"}.get(check, check)})


def dump_readback(ctx):
    """Every entry of the translator's dump compared with getattr on the live classes."""
    diffs = []
    n = 0
    for cj, c in zip(ctx.dump["classes"], ctx.classes):
        live = {
            "base": c._baseunit,
            "units": [[k, float(v).hex() if type(v) in (float, int) else None] for k, v in c._units.items()],
            "display": [[k, v] for k, v in c._displayunits.items()],
            "descr": [[k, v] for k, v in c._descriptions.items()],
            "sidict": [[k, v] for k, v in c._sidict.items()],
            "mul": [[getattr(k, "__name__", None), getattr(v, "__name__", None)] for k, v in c._mul.items()],
            "div": [[getattr(k, "__name__", None), getattr(v, "__name__", None)] for k, v in c._div.items()],
        }
        for key, lv in live.items():
            dv = cj[key]
            if key == "base":
                n += 1
                if dv != lv and not isinstance(dv, dict):
                    diffs.append((cj["name"], key, dv, lv))
                continue
            n += len(lv)
            if len(dv) != len(lv):
                diffs.append((cj["name"], key, len(dv), len(lv)))
                continue
            for a, b in zip(dv, lv):
                if any(isinstance(z, dict) for z in a):      # an entry the dump marked unrepresentable
                    continue
                if list(a) != list(b):
                    diffs.append((cj["name"], key, a, b))
    live_all = list(getattr(ctx.U, "__all__", []))
    n += len(live_all)
    if [x for x in ctx.dump["all"]] != live_all:
        diffs.append(("module", "__all__", len(ctx.dump["all"]), len(live_all)))
    return n, diffs


# ------------------------------------------------------------------ main
def main(tier: str) -> int:
    run = UU.SafeRun(PID, tier)
    try:
        tree = UU.Tree()
        dump = tree.prepare()
        U = UU.load_units()
    except Exception as exc:  # noqa
        run.violation("harness-cannot-load-units", f"translator / import failed: {type(exc).__name__}: {exc}", {}, found_input=False)
        return run.finish()
    ctx = UU.Ctx(U, dump, tree)
    import time as _t
    phase = {"translate": round(_t.time() - run.t0, 1)}
    _t0 = _t.time()
    proofs_ok = UU.check_proofs(run, tree, extra_tb=[
        "the names Print Assumptions lists (float, add, sub, mul, div, opp, abs, eqb, ltb, leb) are the kernel's primitive "
        "binary64 type and operations, which Coq reports there; the development declares no axiom and uses none of FloatAxioms",
        "reflective translator translator/dump_units.py (tables and candidate compound readings regenerated from the imported "
        "module on every run; every dumped entry read back against getattr on the live classes; every compound reading is "
        "re-checked in Coq for spelling, dimension and factor)",
        "binary64 arithmetic is executed (PrimFloat in vm_compute), never reasoned about: the theorems about SI and display "
        "values hold in every number structure with x*1 = x and (x*y)/y = x (exact rationals); the float runs are validated "
        "bit for bit on every (class, unit)",
        "str(float) is not modelled: the check compares str(q) with str(q.displayvalue) + ' ' + display unit on the Python side",
    ])
    run.cov["translator"] = dump["_log"]
    phase["build_and_recheck_props"] = round(_t.time() - _t0, 1)
    _t0 = _t.time()
    run.cov["phase_s"] = phase

    # ---- table checks
    coq_off, counts, err = UU.coq_table_offenders(PID, UU.C17_CHECKS, tree)
    py_off = UU.python_table_offenders(ctx)
    py_off["compound"] = compound_offenders(ctx)
    n_read, diffs = dump_readback(ctx)
    run.cov["dump_entries_read_back"] = n_read
    if diffs:
        run.violation("translator-readback-differs", f"{len(diffs)} dumped entries differ from the live classes, e.g. {diffs[0]}",
                      {"differences": [list(map(str, d)) for d in diffs[:20]]}, found_input=False)
    if err:
        run.violation("table-checks-not-evaluable", "coqc could not evaluate the table checks over the generated tables: " + err,
                      {}, found_input=False)
        coq_off = {}
    else:
        if counts != UU.live_counts(ctx):
            run.violation("translator-readback-differs", "table sizes read back from Gen_Tables.v differ from the live classes",
                          {"coq": counts, "live": UU.live_counts(ctx)}, found_input=False)
        table_violations(run, ctx, coq_off, py_off)
    run.cov["table_checks"] = {k: {"coq_offenders": len(coq_off.get(k, [])), "python_offenders": len(py_off.get(k, []))}
                               for k in TABLE_CHECKS}
    n_units = sum(len(c["units"]) for c in dump["classes"])
    comp = dump["compounds"]
    run.cov["table_entries"] = {"classes": len(ctx.names), "units": n_units,
                                "display_entries": sum(len(c["display"]) for c in dump["classes"]),
                                "public_names": len(dump["all"]),
                                "compound_units_decomposed": len(comp),
                                "compound_readings": sum(len(c["readings"]) for c in comp)}
    table_defect_classes = {o["cls"] for o in py_off.get("display", [])}

    phase["table_checks"] = round(_t.time() - _t0, 1)
    _t0 = _t.time()
    # ---- cases
    rng = random.Random(run.seed * 7927 + 17)
    specs = []
    corpus = C.VERIF / "corpus" / "C17.json"
    if corpus.exists():
        specs += [s for s in json.loads(corpus.read_text()) if s.get("cls", s.get("x", {}).get("cls")) in ctx.index or True]
    specs += gen_cases(ctx, rng, tier)
    cases = []
    hist = {}
    fails = {}
    nontrivial = set()
    covered_units = set()
    max_dv_err = 0.0
    for spec in specs:
        try:
            out, ops, raw = UU.run_call(ctx, spec)
        except Exception as exc:  # noqa  (a corpus entry naming a class that no longer exists, ...)
            out, ops, raw = {"setup_failed": f"{type(exc).__name__}: {exc}"}, [], None
        cs = {"spec": spec, "out": out, "ops": ops}
        cases.append(cs)
        g = spec.get("group", "corpus")
        hist[g] = hist.get(g, 0) + 1
        try:
            bad = oracle(ctx, spec, out, ops, raw)
        except Exception as exc:  # noqa
            bad = ("oracle-cannot-evaluate:" + spec["k"], f"{type(exc).__name__}: {exc} on {spec}")
        if bad:
            if bad[0].startswith("str-raises:") and bad[0].split(":", 1)[1] in table_defect_classes:
                pass          # the same defect, already reported with the table entries and a failing call
            elif bad[0] not in fails:
                fails[bad[0]] = (cs, bad)
        if spec["k"] == "mk" and "val" in out and spec["unit"] is not None:
            covered_units.add((spec["cls"], spec["unit"]))
            f = getattr(U, spec["cls"])._units[spec["unit"]]
            v = UU.unhex(spec["v"]["v"])
            if f != 1.0 and v not in (0.0, 1.0, -1.0) and math.frexp(v)[0] not in (0.5, -0.5):
                nontrivial.add((spec["cls"], spec["unit"]))
        if spec["k"] == "get" and spec["g"] == "displayvalue" and "num" in out:
            v = UU.unhex(spec["x"]["v"])
            if v != 0.0:
                max_dv_err = max(max_dv_err, abs(UU.unhex(out["num"]) - v) / abs(v))

    run.cov["evaluations"] = len(cases)
    run.cov["distinct_nontrivial"] = len(nontrivial)
    run.cov["rule"] = ("math.floor / ceil / trunc / round on every (class, declared unit) x integral, near-integral and half-way "
                       "display values (bit-exact against Units.Dispatch.round_eval and against the clause `rounding of the "
                       "reported display value, unit kept`); "
                       "every (class, declared unit) x values {0, +-1, 1000, 0.001, 0.1, 3.7, int 7, random magnitudes 1e-6..1e9} "
                       "(quick: a rotating subset of the fixed values per unit): construction, display value, str/repr, unit, si, "
                       "re-expression in every unit of the class, comparisons / + - / neg abs pos between two units of the class, "
                       "refused constructions; non-trivial = distinct (class, unit) with factor != 1 that was constructed with a "
                       "value that is not 0, +-1 or a power of two and compared bit-exactly")
    run.cov["units_constructed"] = len(covered_units)
    run.cov["units_declared"] = n_units
    run.cov["max_relative_error_displayvalue_vs_value"] = max_dv_err
    run.cov["case_groups"] = hist
    run.cov["outcome_kinds"] = {}
    for cs in cases:
        kk = "raise:" + cs["out"]["raise"] if "raise" in cs["out"] else next(iter(cs["out"]))
        run.cov["outcome_kinds"][kk] = run.cov["outcome_kinds"].get(kk, 0) + 1
    for cs in cases[:1] + cases[len(cases) // 2: len(cases) // 2 + 2]:
        smp = {"call": cs["spec"], "operands": cs["ops"], "observed": dict(cs["out"])}
        if "nums" in smp["observed"]:
            smp["observed"]["nums"] = smp["observed"]["nums"][:6] + ["..."]
        run.add_sample(smp)

    families = {}
    for sig in fails:
        families.setdefault(sig.split(":", 1)[0], []).append(sig)
    for sig, (cs, bad) in fails.items():
        fam = families[sig.split(":", 1)[0]]
        if fam.index(sig) >= 3:          # a systematic failure: three concrete inputs per kind are enough
            continue
        if len(fam) > 3 and fam.index(sig) == 0:
            bad = (bad[0], bad[1] + f" [{len(fam)} (class, unit) combinations fail this way]")
        run.violation(sig, bad[1], {"call": cs["spec"], "operands": cs["ops"], "observed": cs["out"],
                                    "how": "build the operand(s) with pydsol.core.units cls(value, unit) and apply the call"})

    phase["run_implementation_and_oracle"] = round(_t.time() - _t0, 1)
    _t0 = _t.time()
    # ---- model vs implementation inside coqc
    idx_round = [i for i, cs in enumerate(cases) if cs["spec"]["k"] == "round"]
    idx_main = [i for i, cs in enumerate(cases) if cs["spec"]["k"] != "round"]
    mism_main, err = UU.run_correspondence(run, ctx, [cases[i] for i in idx_main])
    mism = [idx_main[j] for j in mism_main]
    if not err:
        # the rounding helpers: Units.Dispatch.round_eval with the binary64 roundings float_math
        mism_r, err = UU.run_round_correspondence(run, ctx, [cases[i] for i in idx_round])
        mism = sorted(mism + [idx_round[j] for j in mism_r])
    run.cov["rounding_helper_cases"] = len(idx_round)
    if err:
        run.violation("correspondence-not-evaluable", "coqc could not evaluate the C17 correspondence (Units.Dispatch.eval): " + err,
                      {}, found_input=False)
        return run.finish()
    phase["coqc_correspondence"] = round(_t.time() - _t0, 1)
    run.cov["traces_validated_against_impl"] = len(cases) - len(mism)
    run.cov["model_impl_mismatches"] = len(mism)

    def explained(cs):
        try:
            return oracle(ctx, cs["spec"], cs["out"], cs["ops"], None)
        except Exception:  # noqa
            return True
    unexplained = [i for i in mism if not explained(cases[i])]
    if unexplained:
        cs = cases[unexplained[0]]
        run.violation("model-impl-disagree:" + cs["spec"].get("group", cs["spec"]["k"]),
                      "correspondence Units.Dispatch.eval no longer matches the implementation, but no clause of C17 is violated "
                      f"by the observed outcome ({len(unexplained)} cases)",
                      {"call": cs["spec"], "operands": cs["ops"], "observed": cs["out"], "relation": "Units.Dispatch.case_ok",
                       "other_cases": [cases[i]["spec"] for i in unexplained[1:6]]}, found_input=False)
    # ---- the tie to the source text broke and the clause oracle saw nothing yet: search harder for a failing input
    tie = tree.broken(PID)
    searched = 0
    if tie and not fails:
        rng2 = random.Random(run.seed * 7919 + 1717)
        found = None
        for spec in gen_cases(ctx, rng2, tier):
            out, ops, raw = UU.run_call(ctx, spec)
            searched += 1
            try:
                bad = oracle(ctx, spec, out, ops, raw)
            except Exception:  # noqa
                bad = None
            if bad:
                found = ({"spec": spec, "out": out, "ops": ops}, bad)
                break
        if found:
            cs, bad = found
            run.violation(bad[0], bad[1], {"call": cs["spec"], "operands": cs["ops"], "observed": cs["out"],
                                           "how": "build the operand(s) with pydsol.core.units cls(value, unit) and apply the call"})
    run.cov["extra_cases_searched_with_oracle_only"] = searched
    if tie and not run.violations:
        UU.report_broken_tie(run, tree, {"model_impl_mismatching_cases": len(mism), "cases_searched": len(cases) + searched})
    if not proofs_ok and not run.violations:
        run.violation("proof-broken", "a C17 proof obligation no longer checks: " + getattr(run, "proof_log", "")[-800:],
                      {"theorems": run.cov.get("theorems")}, found_input=False)
    return run.finish()


def replay(path: str) -> int:
    body = json.loads(Path(path).read_text())
    tree = UU.Tree()
    dump = tree.prepare()
    ctx = UU.Ctx(UU.load_units(), dump, tree)
    if "call" not in body:
        # a table finding: evaluate the table clauses on the live module again
        class Probe:
            def __init__(self):
                self.sigs = {}

            def violation(self, signature, what, replay, found_input=True):
                self.sigs[UU.slug(signature)] = what
        probe = Probe()
        py_off = UU.python_table_offenders(ctx)
        py_off["compound"] = compound_offenders(ctx)
        table_violations(probe, ctx, {}, py_off)
        hit = body.get("signature") in probe.sigs
        print(json.dumps({"signature": body.get("signature"), "still_violated": hit,
                          "what": probe.sigs.get(body.get("signature"))}, indent=1))
        if hit:
            print(f"VIOLATION property={PID} replay={path}")
            return 1
        return 0
    out, ops, raw = UU.run_call(ctx, body["call"])
    bad = oracle(ctx, body["call"], out, ops, raw)
    print(json.dumps({"call": body["call"], "observed": out, "violated": bad[0] if bad else None}, indent=1))
    if bad:
        print(f"VIOLATION property={PID} replay={path}")
        return 1
    return 0


if __name__ == "__main__":
    sys.exit(main(sys.argv[1] if len(sys.argv) > 1 else "quick"))
