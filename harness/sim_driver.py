"""Implementation-side driver for the simulator properties (C02-C07, C11).

Reads a JSON list of cases on stdin, runs each on the real DEVS simulators of
the pydsol-core tree on sys.path, and prints a JSON list of observations.
Runs in a fresh interpreter (see common.run_impl_json).

case = {"clock": "int"|"float"|"dur"|"durmin", "strategy": "log"|"warn"|"pause",
        "prog": [[action, ...], ...], "cmds": [cmd, ...], "stats": optional}
Times are integers in quarter time units ("nan" for not-a-number).
"""
import io
import json
import logging
import math
import sys
import threading
import time

QUIET = {"NOT_INITIALIZED", "INITIALIZED", "STOPPED", "ENDED"}


class ModelAbort(BaseException):
    """what a model handler may raise that is not an Exception (deliberately not
    SystemExit / KeyboardInterrupt / GeneratorExit, so the harness itself survives)"""


class ModelError(Exception):
    pass


class RaisingRepr:
    """an event argument whose textual forms raise"""
    def __repr__(self):
        raise RuntimeError("this argument object cannot be printed")
    __str__ = __repr__

    def __format__(self, spec):
        raise RuntimeError("this argument object cannot be printed")


class LongRepr:
    """an event argument with a very long, slow textual form"""
    def __repr__(self):
        time.sleep(0.002)
        return "<" + "x" * 200000 + ">"
    __str__ = __repr__


def raise_fault(kind):
    if kind == "base":
        raise ModelAbort("injected fault (BaseException subclass)")
    if kind == "value":
        raise ValueError("injected fault")
    if kind == "key":
        raise KeyError("injected fault")
    if kind == "zerodiv":
        return 1 // 0
    if kind == "custom":
        raise ModelError("injected fault")
    if kind == "stopiter":
        raise StopIteration("injected fault")
    # arguments that are not one string: a number, several, none, nested, bytes
    if kind == "keyint":
        raise KeyError(7)
    if kind == "oserr":
        raise OSError(2, "no such thing")
    if kind == "noargs":
        raise ValueError()
    if kind == "tuplearg":
        raise RuntimeError(("a", 1), None, 2.5)
    if kind == "custom2":
        raise ModelError(3.5, b"x", ["y"])
    raise RuntimeError("injected fault")


def main():
    cases = json.load(sys.stdin)
    real_out = sys.stdout
    sys.stdout = io.StringIO()
    sys.stderr = io.StringIO()
    logging.disable(logging.CRITICAL)
    res = []
    hung = 0
    for idx, case in enumerate(cases):
        sys.stdout.seek(0); sys.stdout.truncate(0)
        sys.stderr.seek(0); sys.stderr.truncate(0)
        if hung >= 3:      # a tree on which runs do not come to rest: a few witnesses are enough
            res.append({"skipped": "earlier cases of this batch did not come to rest", "error": "skipped"})
            continue
        try:
            res.append(run_case(case, f"vsim{idx}"))
            if res[-1].get("notes"):
                hung += 1
        except (KeyboardInterrupt, SystemExit):
            raise
        except BaseException as exc:  # harness-level failure
            import traceback
            res.append({"error": f"{type(exc).__name__}: {exc}", "tb": traceback.format_exc()[-1500:]})
    real_out.write(json.dumps(res))


def run_case(case, name):
    from pydsol.core.experiment import SingleReplication
    from pydsol.core.interfaces import SimulatorInterface, ReplicationInterface
    from pydsol.core.model import DSOLModel
    from pydsol.core.pubsub import EventListener
    from pydsol.core.simulator import (DEVSSimulatorFloat, DEVSSimulatorInt, DEVSSimulatorDuration,
                                       ErrorStrategy)
    from pydsol.core.units import Duration
    from pydsol.core.utils import DSOLError

    ck = case["clock"]
    free = bool(case.get("freetime"))       # times are used verbatim as floats (non-dyadic values): float / Duration-s clocks

    from pydsol.core.simevent import SimEventInterface, SimEvent

    class UserEvent(SimEventInterface):
        """a minimal user-defined implementation of SimEventInterface (not derived from SimEvent): no target /
        method / kwargs attributes; ids are drawn from SimEvent's own counter so creation order stays the id order"""

        def __init__(self, time, priority, fn, kw):
            self._t, self._p, self._fn, self._kw = time, priority, fn, kw
            self._id = SimEvent._SimEvent__new_event_counter()     # EventListHeap reads event._id

        def execute(self):
            try:
                self._fn(**self._kw)
            except Exception:
                raise
            except BaseException as exc:        # like SimEvent.execute: nothing but an Exception leaves an event
                raise DSOLError("user-defined event failed: " + type(exc).__name__)

        @property
        def time(self):
            return self._t

        @property
        def priority(self):
            return self._p

        @property
        def id(self):
            return self._id

        def __eq__(self, other):
            return self is other

        def __hash__(self):
            return id(self)
    # times in the case are integers in units of 2**-scale time units: quarters by default; "scale": 40 gives
    # a fine exact scale (float / Duration-in-seconds clocks; magnitudes < 2**10, so every float addition is exact)
    scale = case.get("scale", 2)
    assert scale == 2 or ck in ("float", "dur"), (scale, ck)
    DEN = 2 ** scale
    UNIT = 2.0 ** -scale

    TINY_NEG = {"tinyneg1": -1e-15, "tinyneg2": -5e-324, "tinyneg3": -2.0 ** -60}

    def to_time(q):
        if free and q != "nan":
            return Duration(float(q), "s") if ck == "dur" else float(q)
        if q == "nan":
            return Duration(float("nan")) if ck in ("dur", "durmin") else float("nan")
        if q in TINY_NEG:       # a negative delay far below half an ulp of any clock > 0 (float / Duration clocks only)
            assert ck != "int", q
            return Duration(TINY_NEG[q], "s") if ck in ("dur", "durmin") else TINY_NEG[q]
        if q == "tinypast":     # an absolute time a few ulps before the current clock
            assert ck != "int", q
            now = float(sim.simulator_time)
            t = now - max(1e-13, 4 * math.ulp(now))
            return Duration(t, "s") if ck in ("dur", "durmin") else t
        if ck == "int":
            # a fractional (dyadic) value can only be a run bound: the int simulator compares it exactly with int times
            return q // 4 if q % 4 == 0 else q / 4.0
        if ck == "fint":        # float simulator driven with Python ints wherever the value is whole (exact beyond 2**53)
            return q // 4 if q % 4 == 0 else q / 4.0
        if ck == "float":
            return q * UNIT
        if ck == "dur":
            return Duration(q * UNIT, "s")
        if ck == "durmin":
            return Duration(float(q // 240), "min") if q % 240 == 0 else Duration(q / 4.0, "s")
        raise ValueError(ck)

    def to_q(t):
        if free:
            x = float(t)
            return x if x == x and not math.isinf(x) else ["nonint", repr(t)]
        if isinstance(t, int) and not isinstance(t, bool):
            return t * DEN
        x = float(t) * DEN
        if x != x or math.isinf(x) or x != int(x):
            return ["nonint", repr(t)]
        return int(x)

    if ck == "int":
        sim = DEVSSimulatorInt(name)
    elif ck in ("float", "fint"):
        sim = DEVSSimulatorFloat(name)
    elif ck == "dur":
        sim = DEVSSimulatorDuration(name)
    else:
        sim = DEVSSimulatorDuration(name, "min")
    STRAT = {"log": ErrorStrategy.LOG_AND_CONTINUE, "warn": ErrorStrategy.WARN_AND_CONTINUE,
             "pause": ErrorStrategy.WARN_AND_PAUSE}
    if case.get("loglevel") is None:
        sim.set_error_strategy(STRAT[case["strategy"]])
    else:       # the two-argument form: strategy plus an explicit log level
        sim.set_error_strategy(STRAT[case["strategy"]], case["loglevel"])

    rec = {"trace": [], "outs": [], "ntfs": [], "obs": [], "snaps": [], "notes": [], "log": [], "canc": []}
    prog = case["prog"]
    stats_spec = case.get("stats")

    NT = [(ReplicationInterface.START_REPLICATION_EVENT, "startrepl"),
          (SimulatorInterface.STARTING_EVENT, "starting"),
          (SimulatorInterface.START_EVENT, "start"),
          (SimulatorInterface.TIME_CHANGED_EVENT, "time"),
          (ReplicationInterface.WARMUP_EVENT, "warmup"),
          (SimulatorInterface.STOPPING_EVENT, "stopping"),
          (SimulatorInterface.STOP_EVENT, "stop"),
          (ReplicationInterface.END_REPLICATION_EVENT, "endrepl")]
    names = {id(et): nm for et, nm in NT}

    # stop() issued by the controlling thread while the run thread is inside a handler ("extstop"):
    # the handler files a numbered request and waits; the controlling thread (in wait_quiet) calls
    # stop(); the handler is released as soon as STOPPING has been fired (or the call was refused), so
    # the run thread is back in its wait before _stop_impl gives up waiting for it.
    main_thread = threading.current_thread()
    ext = {"n": 0, "handling": 0, "answered": 0, "results": {}, "gates": {}}

    def ext_answer(rid, r):
        if ext["answered"] < rid:
            ext["answered"] = rid
            ext["results"][rid] = r
            ext["gates"][rid].set()

    class Collector(EventListener):
        def notify(self, event):
            nm = names.get(id(event.event_type), "other")
            ts = getattr(event, "timestamp", None)
            rec["ntfs"].append([nm, None if ts is None else to_q(ts)])
            rec["log"].append(["ntf", nm, None if ts is None else to_q(ts)])
            if nm == "stopping" and threading.current_thread() is main_thread and ext["handling"] > ext["answered"]:
                ext_answer(ext["handling"], "ok")

    coll = Collector()

    def subscribe():
        for et, _ in NT:
            sim.add_listener(et, coll)

    def bound_of(c):
        """the bound of a run command; ["runupto", t, "int"] passes a Python int also on a float / Duration-free clock"""
        if free and len(c) > 2 and c[1] != "nan":
            if c[2] == "int" and ck == "float" and float(c[1]) == int(c[1]):
                return int(c[1])                                   # an int bound on the float clock
            if c[2] == "min" and ck == "dur" and float(c[1]) % 60 == 0:
                return Duration(float(c[1]) / 60.0, "min")         # a Duration bound in another unit (exact: whole minutes)
            return to_time(c[1])
        if len(c) > 2 and c[2] == "int" and c[1] != "nan" and c[1] % DEN == 0 and ck in ("float", "fint"):
            return c[1] // DEN
        return to_time(c[1])

    def issue(c):
        """issue a command; returns 'ok' | 'refused' | 'exc:<Type>'"""
        try:
            k = c[0]
            if k == "init":
                st, wm, en = c[1], c[2], c[3]
                r = SingleReplication("rep", to_time(st), to_time(wm - st), to_time(en - st))
                sim.initialize(model, r)
            elif k == "initbad":
                sim.initialize("not a model", SingleReplication("rep", to_time(0), to_time(0), to_time(40)))
            elif k == "start":
                sim.start()
            elif k == "step":
                sim.step()
            elif k == "stop":
                sim.stop()
            elif k == "runupto":
                sim.run_up_to(bound_of(c))
            elif k == "runuptoincl":
                sim.run_up_to_including(bound_of(c))
            elif k == "endrepl":
                sim.end_replication()
            elif k == "cleanup":
                sim.cleanup()
            else:
                raise ValueError(k)
            return "ok"
        except DSOLError:
            return "refused"
        except (KeyboardInterrupt, SystemExit, GeneratorExit):
            raise
        except BaseException as exc:  # noqa: also what is not an Exception must not take the harness down
            return "exc:" + type(exc).__name__

    class ProgModel(DSOLModel):
        def __init__(self, simulator):
            super().__init__(simulator)
            self.created = []
            self.stat_objs = {}

        def construct_model(self):
            self.created = []
            if stats_spec:
                build_stats(self)
            self.interp(0)

        def handle(self, h, k, tag=None):
            rec["trace"].append([k, to_q(sim.simulator_time)])
            rec["log"].append(["exec", k, to_q(sim.simulator_time), h])
            self.interp(h)

        def interp(self, h):
            for a in (prog[h] if h < len(prog) else []):
                kind = a[0]
                if kind == "sched":
                    mode, prio, hh = a[1], a[2], a[3]
                    kw = {"h": hh, "k": len(self.created)}
                    br = case.get("badrepr")
                    if br and (len(self.created) + hh) % 2 == 0:     # every other event carries such an argument
                        kw["tag"] = RaisingRepr() if br == "raise" else LongRepr()
                    size0 = sim.eventlist().size()
                    entry = ["sched", mode, to_q(sim.simulator_time), None, size0, None, None]
                    rec["log"].append(entry)
                    ue = case.get("userevents") and (len(self.created) + 2 * hh) % 3 == 0 \
                        and not (len(mode) > 1 and isinstance(mode[1], str) and mode[1].startswith("tinyneg"))
                    try:
                        if ue:      # a user-defined event object handed to schedule_event()
                            t = sim.simulator_time if mode[0] == "now" else \
                                (sim.simulator_time + to_time(mode[1]) if mode[0] == "rel" else to_time(mode[1]))
                            e = sim.schedule_event(UserEvent(t, prio, self.handle, kw))
                        elif mode[0] == "now":
                            e = sim.schedule_event_now(self, "handle", prio, **kw)
                        elif mode[0] == "rel":
                            e = sim.schedule_event_rel(to_time(mode[1]), self, "handle", prio, **kw)
                        else:
                            e = sim.schedule_event_abs(to_time(mode[1]), self, "handle", prio, **kw)
                        self.created.append(e)
                        rec["outs"].append("acc")
                        entry[6] = [kw["k"], to_q(e.time), e.priority]
                    except DSOLError:
                        rec["outs"].append("ref")
                    except Exception as exc:  # noqa
                        rec["outs"].append("exc:" + type(exc).__name__)
                    entry[3] = rec["outs"][-1]
                    entry[5] = sim.eventlist().size()
                elif kind == "cancel":
                    if a[1] < len(self.created):
                        was = sim.eventlist().contains(self.created[a[1]])
                        sim.cancel_event(self.created[a[1]])
                        if was:
                            rec["canc"].append(a[1])
                        rec["log"].append(["cancel", a[1], bool(was), sim.eventlist().contains(self.created[a[1]])])
                elif kind == "fail":
                    raise_fault(a[1] if len(a) > 1 else "runtime")
                elif kind == "setstrat":     # the model changes the error strategy while the run is going on
                    if len(a) > 2 and a[2] is not None:
                        sim.set_error_strategy(STRAT[a[1]], a[2])
                    else:
                        sim.set_error_strategy(STRAT[a[1]])
                    rec["log"].append(["setstrat", a[1], to_q(sim.simulator_time)])
                elif kind == "cmd":
                    r = issue(a[1])
                    rec["outs"].append({"ok": "cmdok", "refused": "cmdref"}.get(r, r))
                elif kind == "extstop":
                    if threading.current_thread() is main_thread:
                        r = issue(["stop"])            # inside step(): the controlling thread is the run thread
                    else:
                        rid = ext["n"] + 1
                        ext["gates"][rid] = threading.Event()
                        ext["n"] = rid
                        r = ext["results"].get(rid) if ext["gates"][rid].wait(5.0) else "exc:RendezvousTimeout"
                        if r == "ok":       # released when STOPPING was fired; stop() writes the run state right after
                            t1 = time.time()
                            while sim.run_state.name in ("STARTING", "STARTED") and time.time() - t1 < 1.0:
                                time.sleep(0.0002)
                    rec["outs"].append({"ok": "cmdok", "refused": "cmdref"}.get(r, r))
                elif kind == "obs":
                    observe(self, a[1], a[2])
                else:
                    raise ValueError(kind)

    # ---- simulation statistics (C11), only when the case asks for them
    def build_stats(m):
        from pydsol.core.pubsub import EventProducer, EventType
        from pydsol.core import statistics as S
        m.producer = EventProducer()
        m.stat_objs = {}
        m.stat_types = {}
        for sid, kind in enumerate(stats_spec):
            et = STAT_ETS[sid]
            key = f"st{sid}"
            if kind == "counter":
                o = S.SimCounter(key, f"stat {sid}", sim, producer=m.producer, event_type=et)
            elif kind == "tally":
                o = S.SimTally(key, f"stat {sid}", sim, producer=m.producer, event_type=et)
            elif kind == "persistent":
                o = S.SimPersistent(key, f"stat {sid}", sim, producer=m.producer, event_type=et)
            else:
                raise ValueError(kind)
            m.stat_objs[sid] = o
            m.stat_types[sid] = et

    def observe(m, sid, v):
        rec["obs"].append([sid, v, to_q(sim.simulator_time)])
        if stats_spec and sid in m.stat_objs:
            kind = stats_spec[sid]
            et = m.stat_types[sid]
            if kind == "counter":
                m.producer.fire(et, int(v))
            elif kind == "tally":
                m.producer.fire(et, float(v))
            else:
                m.producer.fire_timed(sim.simulator_time, et, float(v))

    STAT_ETS = []
    if stats_spec:
        from pydsol.core.pubsub import EventType
        for sid in range(len(stats_spec)):
            STAT_ETS.append(EventType(f"VDATA_{name}_{sid}"))

    model = ProgModel(sim)
    subscribe()

    def worker_idle():
        """the run thread is back in its wait (or gone): only then is the command really over --
        STOPPED is written before the thread clears its wake-up flag, and a start() issued in
        between is lost (thread overlap: C04, not a sequential behaviour)"""
        w = getattr(sim, "_Simulator__worker", None)
        if w is None:
            return True
        try:
            return w.is_waiting() or w.is_finalized() or not w.is_alive()
        except Exception:  # noqa
            return True

    def wait_quiet():
        """Wait until the command is really over.  Give up when the run thread made no progress for
        2.5 s (stuck / dead thread / lost wake-up; stop() on the run thread itself takes 1 s), when it
        runs away (a replication of a generated program has a few hundred log entries), or after 40 s."""
        def busy():
            # ENDING is transient: the woken worker turns it into ENDED
            return sim.run_state.name not in QUIET or sim.replication_state.name == "ENDING" or not worker_idle()
        t0 = last_t = time.time()
        last_n = len(rec["log"])
        why = None
        while busy():
            if ext["n"] > ext["handling"]:
                rid = ext["handling"] = ext["n"]
                r0 = issue(["stop"])
                ext_answer(rid, r0)              # no-op when STOPPING was fired (already answered "ok")
            now = time.time()
            n = len(rec["log"])
            if n != last_n:
                last_n, last_t = n, now
            if n > 12000:
                why = "run does not terminate"
            elif now - last_t > 2.5:
                why = "no progress for 2.5 s"
            elif now - t0 > 40:
                why = "still running after 40 s"
            if why:
                break
            time.sleep(0.0005)
        if why and (sim.run_state.name not in QUIET or sim.replication_state.name == "ENDING"):
            rec["notes"].append(f"not quiescent ({why}): " + sim.run_state.name + "/" + sim.replication_state.name)
            return False
        return True

    hung = False
    for c in case["cmds"]:
        if hung:       # the run thread never came back: do not pile further commands on it
            break
        r = issue(c)
        hung = not wait_quiet()
        if c[0] in ("init", "cleanup", "initbad"):
            subscribe()
        rec["snaps"].append([r, sim.run_state.name, sim.replication_state.name,
                             to_q(sim.simulator_time), sim.eventlist().size()])
        rec["log"].append(["cmd", c, r, sim.run_state.name, sim.replication_state.name,
                           to_q(sim.simulator_time), sim.eventlist().size()])

    # worker thread liveness
    def alive():
        return any(t.name == name and t.is_alive() for t in threading.enumerate())
    if sim.run_state.name in ("ENDED", "NOT_INITIALIZED"):
        t0 = time.time()
        while alive() and time.time() - t0 < 1.0:
            time.sleep(0.001)
    rec["alive"] = alive()

    if stats_spec:
        rec["stats"] = read_stats(model, stats_spec)
        try:
            rec["stat_keys"] = sorted(model.output_statistics().keys())
            rec["stat_lookup_ok"] = all(model.get_output_statistic(f"st{sid}") is model.stat_objs[sid]
                                        for sid in model.stat_objs)
        except Exception as exc:  # noqa
            rec["stat_keys"] = "exc:" + type(exc).__name__
    try:
        sim.cleanup()
    except Exception as exc:  # noqa
        rec["notes"].append("final cleanup raised " + type(exc).__name__)
    return rec


def read_stats(model, spec):
    out = []
    for sid, kind in enumerate(spec):
        o = model.stat_objs.get(sid)
        if o is None:
            out.append(None)
            continue

        def g(f):
            try:
                v = f()
                if isinstance(v, float):
                    return v.hex()
                return v
            except Exception as exc:  # noqa
                return "exc:" + type(exc).__name__
        if kind == "counter":
            out.append({"n": g(o.n), "count": g(o.count)})
        elif kind == "tally":
            out.append({"n": g(o.n), "sum": g(o.sum), "min": g(o.min), "max": g(o.max), "mean": g(o.mean),
                        "variance": g(lambda: o.variance(False))})
        else:
            out.append({"n": g(o.n), "min": g(o.min), "max": g(o.max), "wsum": g(o.weighted_sum),
                        "wmean": g(o.weighted_mean), "wvar": g(lambda: o.weighted_variance(False)),
                        "sumw": g(lambda: o._sum_of_weights)})
    return out


if __name__ == "__main__":
    main()
