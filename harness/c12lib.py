"""Shared by the stream checks (C12, C13): the model regenerated from the source text (second tie).

Every run translates src/pydsol/core/streams.py of the tree under test with
translator/py2gallina_streams.py into .scratch/streams/trees/<key>/Gen_Streams.v, compiles it and the
agreement proofs coq/Streams/GenAgree.v (copied there, generated module imported from the second logical
root PVT) and re-checks Props/<pid>.v against them.  <key> hashes the tree's streams.py, the translator,
GenAgree.v and the model sources, so runs against different trees never share a generated file and a
finished directory is never stale.  coq/Streams/Gen_Streams.v (tools/regen.sh) is only for setup /
`build all` and is not touched here.  (Same scheme as harness/c09lib.py for the statistics checks.)"""
from __future__ import annotations

import fcntl
import hashlib
import json
import os
import re
import shutil
import subprocess
import time
from pathlib import Path

import common as C

TREES = C.SCRATCH / "streams" / "trees"
TREE_LAYOUT = b"2"       # bump when the way a tree directory is filled changes (old directories are then ignored)
MODEL_VO = ["Streams/Stream.vo", "Streams/Seeds.vo", "Streams/StreamProofs.vo", "Streams/SeedsProofs.vo", "Streams/Info.vo",
            "Streams/InfoProofs.vo"]
TRANSLATOR = "translator/py2gallina_streams.py"
GEN = "Gen_Streams"
_IMPORT = re.compile(r"^From PV Require Import ((?:Streams\.(?:Gen_Streams|GenAgree)\s*)+)\.\s*$", re.M)
_COQ_WARN = "-notation-overridden,-deprecated-hint-without-locality,-abstract-large-number,-inexact-float"
_THM = re.compile(r"^[ \t]*(?:Theorem|Lemma)\s+([A-Za-z0-9_']+)", re.M)
CLASSES = {"C12": ("MersenneTwister", "StreamInformation", "StreamSeedInformation"),
           "C13": ("SimpleStreamUpdater", "StreamSeedUpdater", "StreamUpdater")}
AGREE_MODULES = {"C12": ("C12Agree", "InfoAgree"), "C13": ("C13Agree",)}


def tree_source(text: str) -> str:
    return _IMPORT.sub(lambda m: "From PVT Require Import " + " ".join(x.replace("Streams.", "") for x in m.group(1).split()) + ".", text)


def _coqc_tree(tree: Path, path: Path, timeout: int = 600):
    cmd = ["timeout", str(timeout), "coqc", "-R", str(C.COQ), "PV", "-R", str(tree), "PVT", "-w", _COQ_WARN, str(path)]
    p = subprocess.run(cmd, capture_output=True, text=True, cwd=path.parent)
    return p.returncode, p.stdout + p.stderr


class StreamsTree:
    """Gen_Streams.v / GenAgree.v of the tree under test, built in a directory of their own."""

    def __init__(self):
        src = C.REPO / "src" / "pydsol" / "core" / "streams.py"
        h = hashlib.sha1(str(C.REPO.resolve()).encode() + b"\0" + TREE_LAYOUT + b"\0")
        for f in [src, C.VERIF / TRANSLATOR, C.COQ / "Streams" / "GenAgree.v"] + [C.COQ / v[:-1] for v in MODEL_VO]:
            try:
                h.update(f.read_bytes())
            except OSError:
                h.update(b"<missing>")
            h.update(b"\0")
        self.key = h.hexdigest()[:16]
        self.dir = TREES / self.key
        self.info: dict = {}
        self.failed_theorems: list[dict] = []       # agreement theorems that no longer check
        self.gen_error = ""                          # Gen_Streams.v itself does not compile
        self.timing: dict = {}

    # -- translation + compilation (once per key; later runs only re-check freshness)
    def prepare(self):
        self.dir.mkdir(parents=True, exist_ok=True)
        t0 = time.time()
        ok, log = C.build_coq(MODEL_VO)             # GenAgree needs the compiled models and proof files
        if not ok:
            raise RuntimeError("the hand-written stream models do not build: " + log[-800:])
        with open(self.dir / ".lock", "w") as lk:
            fcntl.flock(lk, fcntl.LOCK_EX)
            try:
                self._translate()
                self._build()
            finally:
                fcntl.flock(lk, fcntl.LOCK_UN)
        self._sweep()
        self.timing["prepare_s"] = round(time.time() - t0, 2)
        return self

    def _translate(self):
        j = self.dir / f"{GEN}.json"
        if not j.exists():
            t0 = time.time()
            env = dict(os.environ)
            env["VERIF_REPO"] = str(C.REPO)
            env["PYTHONDONTWRITEBYTECODE"] = "1"
            p = subprocess.run(["timeout", "120", C.PY, str(C.VERIF / TRANSLATOR), "--out", str(self.dir), "--keep-going"],
                               capture_output=True, text=True, env=env)
            (self.dir / "translator.log").write_text(p.stdout + p.stderr)
            if not j.exists():
                j.write_text(json.dumps({"ok": False, "repo": str(C.REPO), "methods": [], "failures": [
                    {"class": None, "line": 0, "construct": "translator crashed",
                     "error": f"translator exit {p.returncode}: " + (p.stderr or p.stdout)[-1500:]}]}))
            self.timing["translate_s"] = round(time.time() - t0, 2)
        self.info = json.loads(j.read_text())
        if Path(self.info.get("repo", "")).resolve() != C.REPO.resolve():
            raise RuntimeError(f"translator read {self.info.get('repo')} but the check runs against {C.REPO}")

    def _fresh(self, vo: Path, v: Path, deps) -> bool:
        return vo.exists() and vo.stat().st_mtime_ns >= v.stat().st_mtime_ns and \
            all(d.exists() and d.stat().st_mtime_ns <= vo.stat().st_mtime_ns for d in deps)

    def _build(self):
        static = [C.COQ / v for v in MODEL_VO]
        gv, gvo = self.dir / f"{GEN}.v", self.dir / f"{GEN}.vo"
        av, avo = self.dir / "GenAgree.v", self.dir / "GenAgree.vo"
        state = self.dir / "agree_state.json"
        self.gen_error, self.failed_theorems = "", []
        if not gv.exists():
            self.gen_error = f"no {GEN}.v (translation failed)"
            return
        if not self._fresh(gvo, gv, static):
            t0 = time.time()
            rc, out = _coqc_tree(self.dir, gv, timeout=300)
            self.timing["coqc_gen_s"] = round(time.time() - t0, 2)
            if rc != 0:
                gvo.unlink(missing_ok=True)
                self.gen_error = out[-2500:]
                return
        if self._fresh(avo, av, [gvo] + static) and state.exists():
            self.failed_theorems = json.loads(state.read_text())
            return
        t0 = time.time()
        text = tree_source((C.COQ / "Streams" / "GenAgree.v").read_text())
        self.failed_theorems = []
        seen = {}

        def note(name, why):
            if name not in seen:
                seen[name] = 0
                self.failed_theorems.append({"theorem": name, "why": why, "module": self._module_of(name)})

        # items about a class the translator had to leave out cannot check: drop them first
        for cname in [f["class"] for f in self.info.get("failures", []) if f.get("class")]:
            for kind, name, _a, _b in self._items(text):
                if f"gen_{cname}_" in self._item_text(text, name):
                    note(name, f"class {cname} could not be translated")
                    seen[name] = 2
                    text = self._drop(text, name)
        for _ in range(150):
            av.write_text(text)
            rc, out = _coqc_tree(self.dir, av, timeout=600)
            if rc == 0:
                break
            m = re.search(r'File "[^"]*GenAgree\.v", line (\d+)', out)
            item = self._item_at(text, int(m.group(1))) if m else None
            err = re.sub(r"\s+", " ", out[out.find("Error"):])[:600]
            if item is None or seen.get(item[1], 0) >= 2:
                avo.unlink(missing_ok=True)
                note("GenAgree.v", out[-1500:])
                break
            kind, name = item[0], item[1]
            note(name, err)
            seen[name] += 1
            # first the proof is given up (the statement stays, nothing is defined); if the statement itself
            # does not check any more (it mentions something given up before), the whole item goes
            if kind in ("Theorem", "Lemma") and seen[name] == 1:
                text = self._abort_dependents(self._abort(text, name), name, note, seen)
            else:
                text = self._drop(text, name)
        state.write_text(json.dumps(self.failed_theorems))
        self.timing["coqc_agree_s"] = round(time.time() - t0, 2)

    _ITEM = re.compile(r"^[ \t]*(Theorem|Lemma|Definition|Fixpoint)\s+([A-Za-z0-9_']+)", re.M)

    @classmethod
    def _items(cls, text: str):
        """(kind, name, start, end) of every theorem (up to its Qed) and definition (up to its full stop)"""
        out = []
        for m in cls._ITEM.finditer(text):
            if out and m.start() < out[-1][3]:
                continue
            if m.group(1) in ("Theorem", "Lemma"):
                q = re.compile(r"\b(?:Qed|Abort)\.").search(text, m.end())
            else:
                q = re.compile(r"\.(?=\s|$)").search(text, m.end())
            out.append((m.group(1), m.group(2), m.start(), q.end() if q else len(text)))
        return out

    def _item_text(self, text: str, name: str) -> str:
        for _k, n, a, b in self._items(text):
            if n == name:
                return text[a:b]
        return ""

    def _item_at(self, text: str, line: int):
        pos = sum(len(l) + 1 for l in text.split("\n")[:line - 1])
        best = None
        for it in self._items(text):
            if it[2] <= pos + 1:
                best = it
        return best

    def _abort(self, text: str, name: str) -> str:
        """the same file with the proof of one theorem given up (statement kept, nothing defined)"""
        for _k, n, a, b in self._items(text):
            if n == name:
                body = text[a:b]
                i = body.find("Proof.")
                if i < 0:
                    return self._drop(text, name)
                return text[:a] + body[:i] + "Proof. Abort. (* no longer checks *)" + text[b:]
        return text

    def _abort_dependents(self, text: str, name: str, note, seen) -> str:
        """theorems whose PROOF uses a theorem that was given up cannot check either: give them up in the same
        round (saves one coqc run each); conservative -- a name in a proof script is taken as a use"""
        queue = [name]
        while queue:
            n = queue.pop(0)
            again = True
            while again:
                again = False
                for kind, nm, a, b in self._items(text):
                    if kind not in ("Theorem", "Lemma") or nm == n or seen.get(nm, 0) != 0:
                        continue
                    body = text[a:b]
                    i = body.find("Proof.")
                    if i >= 0 and re.search(r"(?<![A-Za-z0-9_'])" + re.escape(n) + r"(?![A-Za-z0-9_'])", body[i:]):
                        note(nm, f"its proof uses {n}, which no longer checks")
                        seen[nm] = 1
                        text = self._abort(text, nm)
                        queue.append(nm)
                        again = True
                        break
        return text

    def _drop(self, text: str, name: str) -> str:
        for _k, n, a, b in self._items(text):
            if n == name:
                keep_lines = "\n" * text[a:b].count("\n")
                return text[:a] + f"(* {name}: no longer checks, left out *)" + keep_lines + text[b:]
        return text

    def _module_of(self, name: str):
        """the module of coq/Streams/GenAgree.v an item belongs to (C12Agree / C13Agree)"""
        text = (C.COQ / "Streams" / "GenAgree.v").read_text()
        for mod in [m for ms in AGREE_MODULES.values() for m in ms]:
            a, b = text.find(f"Module {mod}."), text.find(f"End {mod}.")
            if a >= 0 and b > a and re.search(r"^[ \t]*(?:Theorem|Lemma|Definition|Fixpoint)\s+" + re.escape(name) + r"\b", text[a:b], re.M):
                return mod
        return None

    def _sweep(self):
        try:
            for d in TREES.iterdir():
                if d.is_dir() and d != self.dir and time.time() - d.stat().st_mtime > 86400:
                    shutil.rmtree(d, ignore_errors=True)
            os.utime(self.dir)
        except OSError:
            pass

    # -- what a check needs to know
    def agreement_theorems(self, pid: str):
        text = (C.COQ / "Streams" / "GenAgree.v").read_text()
        out = []
        for mod in AGREE_MODULES[pid]:
            a, b = text.find(f"Module {mod}."), text.find(f"End {mod}.")
            out += _THM.findall(text[a:b]) if 0 <= a < b else []
        return out

    def broken_for(self, pid: str):
        """None when the regenerated model of this property's classes is proved equal to the hand-written one;
        otherwise a description of what no longer checks."""
        classes = CLASSES[pid]
        mods = AGREE_MODULES[pid]
        fails = [f for f in self.info.get("failures", []) if f.get("class") in classes or f.get("class") is None]
        thms = [f for f in self.failed_theorems if f.get("module") in mods or f["theorem"] == "GenAgree.v"]
        if self.gen_error and not fails:
            return {"stage": "generated file does not compile", "detail": self.gen_error[-1200:], "theorems": []}
        if fails:
            return {"stage": "translation", "detail": "; ".join(f["error"] for f in fails),
                    "theorems": [t["theorem"] for t in thms], "failures": fails}
        if thms:
            return {"stage": "agreement proof", "detail": thms[0]["why"], "theorems": [t["theorem"] for t in thms]}
        return None

    def coverage(self, pid: str) -> dict:
        classes = CLASSES[pid]
        ms = [m for m in self.info.get("methods", []) if m["class"] in classes]
        h = hashlib.sha1()
        for m in sorted(ms, key=lambda r: (r["lines"][0], r["definition"])):
            h.update((m["definition"] + ":" + m["sha1"] + "\n").encode())
        mods = AGREE_MODULES[pid]
        return {"translator": f"{TRANSLATOR} (Python ast, fail-closed; module under test not imported)",
                "source": self.info.get("source"), "source_sha1": self.info.get("source_sha1"),
                "tree_directory": f".scratch/streams/trees/{self.key}",
                "translated_methods": [{"method": f"{m['class']}.{m['method']}", "lines": m["lines"], "definition": m["definition"],
                                        "result_kind": m.get("result_kind"),
                                        **({"parameter_defaults": m["defaults"]} if m.get("defaults") else {}),
                                        **({"inlined_helpers": m["inlined_helpers"]} if m.get("inlined_helpers") else {})} for m in ms],
                "translated_text_sha1": h.hexdigest() if ms else None,
                "translated_text_sha1_all_classes": self.info.get("translated_text_sha1"),
                "translation_failures": [f for f in self.info.get("failures", []) if f.get("class") in classes or f.get("class") is None],
                "agreement_theorems": self.agreement_theorems(pid),
                "agreement_theorems_not_checking": [f for f in self.failed_theorems if f.get("module") in mods or f["theorem"] == "GenAgree.v"],
                "timing": self.timing}

    def props_report(self, pid: str, keep: bool = False) -> dict:
        """re-check coq/Props/<pid>.v against the generated model of this tree; theorem names and axioms"""
        text = tree_source((C.COQ / "Props" / f"{pid}.v").read_text())
        theorems = re.findall(r"^\s*Theorem\s+([A-Za-z0-9_']+)", text, re.M)
        printed = re.findall(r"^\s*Print Assumptions\s+([A-Za-z0-9_']+)", text, re.M)
        d = self.dir / f"props_{pid}_{os.getpid()}"
        d.mkdir(exist_ok=True)
        f = d / f"{pid}_recheck.v"
        f.write_text(text)
        rc, out = _coqc_tree(self.dir, f, timeout=900)
        if not keep:
            shutil.rmtree(d, ignore_errors=True)
        blocks = [b for b in re.split(r"(?=Closed under the global context|Axioms:)", out)
                  if b.startswith("Closed under the global context") or b.startswith("Axioms:")]
        assumptions = {}
        for name, b in zip(printed, blocks):
            assumptions[name] = [] if b.startswith("Closed") else \
                sorted(set(re.findall(r"^([A-Za-z_][A-Za-z0-9_'.]*)\s*:", b, re.M)))
        return {"ok": rc == 0, "theorems": theorems, "assumptions": assumptions, "log": out[-4000:], "printed": printed,
                "dir": d, "module": f"PVT.{d.name}.{pid}_recheck"}


def check_proofs(run: C.Run, tree: StreamsTree, static_targets, extra_tb=None) -> bool:
    """What common.Run.check_proofs does, with the part that depends on the source text (Gen_Streams, GenAgree,
    the last section of Props/<pid>.v) taken from the run's own tree directory."""
    gate = C.source_gate()
    ok, log = C.build_coq(static_targets)
    thorough = run.tier == "thorough" and not os.environ.get("VERIF_NO_COQCHK")
    rep = tree.props_report(run.pid, keep=thorough)
    n = len(rep["theorems"])
    run.cov["obligations"] = max(n, 1)
    run.cov["discharged"] = n if (ok and rep["ok"] and not gate) else 0
    run.cov["theorems"] = rep["theorems"]
    run.cov["axioms_per_theorem"] = rep["assumptions"]
    run.cov["source_translation"] = tree.coverage(run.pid)
    rel = f".scratch/streams/trees/{tree.key}"
    run.cov["checker_cmd"] = (f"python3 {TRANSLATOR} --out {rel} && python3 tools/build.py {' '.join(static_targets)} && "
                              f"coqc -R coq PV -R {rel} PVT <{GEN}.v, coq/Streams/GenAgree.v, coq/Props/{run.pid}.v> "
                              "(generated module imported from PVT; full .vo; Print Assumptions under every theorem)")
    axioms = sorted({a for v in rep["assumptions"].values() for a in v})
    tb = [C.KERNEL_TB,
          "axioms reported by Print Assumptions: " + (", ".join(axioms) if axioms else "none (all theorems closed under the global context)"),
          "hand-written Gallina model tied to /repo (a) by the per-run correspondence check (harness/%s.py) and (b) by "
          "equality with the model regenerated from the source text on every run (%s + coq/Streams/GenAgree.v)" % (run.pid.lower(), TRANSLATOR),
          "the translator %s: its Python subset and the meaning it gives to it (parameters range over the model's value "
          "universe and are used as int / str / stream only behind an isinstance guard; self.m() resolved statically, the abstract "
          "update_seed a function parameter; a float is n/2^53, int*float rounds like Stream.rne53s; ints are Z with & >> // %% as "
          "Z.land / Z.shiftr / Z.div / Z.modulo; a dict of streams is its list of entries in insertion order), and its tables "
          "saying which record field stands for which attribute" % TRANSLATOR]
    run.cov["trusted_base"] = tb + list(extra_tb or [])
    good = ok and rep["ok"] and not gate
    if good and thorough:
        run.coqchk([rep["module"]], extra_roots=["-R", str(tree.dir), "PVT"])
    if thorough:
        shutil.rmtree(rep["dir"], ignore_errors=True)
    if gate:
        run.violation("forbidden-construct", "forbidden construct in the Coq development: " + "; ".join(gate[:5]),
                      {"lines": gate}, found_input=False)
        return False
    if not good:
        run.proof_log = (log[-2000:] if not ok else "") + rep["log"][-2000:]
        return False
    return True


def report_broken_tie(run: C.Run, tree: StreamsTree, oracle_name: str, extra: dict | None = None):
    """the regenerated model no longer equals the proved one and no explored input violates the property itself"""
    b = tree.broken_for(run.pid)
    if not b:
        return
    names = [t for t in b["theorems"] if t] or ["(none compiled: " + b["stage"] + ")"]
    what = ("the model regenerated from src/pydsol/core/streams.py is no longer proved equal to the model the "
            f"{run.pid} theorems are about ({b['stage']}): " +
            (b["detail"][:300] if b["stage"] == "translation" else
             "agreement theorem(s) " + ", ".join(names[:6]) + f" of coq/Streams/GenAgree.v ({', '.join(AGREE_MODULES[run.pid])}) no longer check") +
            f"; {oracle_name} found no input on which the changed code violates the property")
    body = {"relation": "coq/Streams/GenAgree.v: " + ", ".join(names), "stage": b["stage"], "detail": b["detail"],
            "unchecked_theorems": names, "generated_file": str(tree.dir / f"{GEN}.v"),
            "how": f"VERIF_REPO={C.REPO} python3 {TRANSLATOR} --out <dir>; coqc -R coq PV -R <dir> PVT "
                   f"<dir>/{GEN}.v, then coq/Streams/GenAgree.v with the generated module imported from PVT"}
    if b.get("failures"):
        body["translation_failures"] = b["failures"]
    body.update(extra or {})
    run.violation("translated-model-differs", what, body, found_input=False)
