"""One child interpreter of the C07 check: performs an amount of unrelated prior
activity, then runs one case of harness/c06_impl.py and prints the parts of the
run that must not depend on the interpreter process, on the prior activity or
on the pause points, with their digest.

stdin: {"prior": {...}, "case": {...}}; stdout: {"digest": ..., "parts": {...}, "full": {...}}
PYTHONHASHSEED is set by the parent.
"""
import hashlib
import io
import json
import logging
import os
import sys

sys.path.insert(0, os.path.dirname(os.path.abspath(__file__)))


def prior_activity(p):
    """unrelated work: event ids are consumed, event types and listeners are created, objects of many sizes are
    allocated and partly dropped (moves every later allocation), strings are hashed into sets and dicts, another
    simulation with its own statistics runs to its end"""
    import c06_impl
    from pydsol.core.pubsub import EventType, EventProducer, EventListener
    from pydsol.core.simevent import SimEvent
    keep = []

    class Tgt:
        def m(self, **kw):
            pass
    t = Tgt()
    for i in range(p.get("events", 0)):
        e = SimEvent(float(i % 7), t, "m", 5)
        if i % 3 == 0:
            keep.append(e)
    for i in range(p.get("types", 0)):
        keep.append(EventType(f"PRIOR_{p.get('tag', 'x')}_{i}"))

    class L(EventListener):
        def notify(self, event):
            pass
    prod = EventProducer()
    for i in range(p.get("listeners", 0)):
        prod.add_listener(keep[-1 - (i % max(1, p.get("types", 1)))] if p.get("types", 0) else EventType(f"PL_{i}"), L())
    junk = []
    for i in range(p.get("objects", 0)):
        junk.append([bytearray((i * 37) % 257 + 1), {"k%d" % i: i}, {str(i), str(i * i)}, object()])
        if i % 2:
            junk[i // 2] = None
    keep.append(junk[::3])
    del junk
    for i in range(p.get("sims", 0)):
        case = {"clock": "float", "strategy": "log",
                "models": [{"prog": [[["sched", ["rel", 1], 5, 1], ["sched", ["rel", 2], 5, 1]],
                                     [["sched", ["rel", 3], 5, 1], ["obs", 0, 1], ["fire", 0]]],
                            "lst": [[["obs", 0, 2]], []], "subs": [[0, 1], [0, 0]],
                            "stats": [[0, "tally", 0]], "streams": [["a", 5]]}],
                "cmds": [["init", 0, 0, 40 + 4 * i, 0], ["start"]]}
        c06_impl.run_case(case, f"prior{p.get('tag', 'x')}{i}")
    return keep


def main():
    job = json.load(sys.stdin)
    real_out = sys.stdout
    sys.stdout = io.StringIO()
    sys.stderr = io.StringIO()
    logging.disable(logging.CRITICAL)
    import c06_impl
    try:
        early = c06_impl.build_early(job["case"])          # some events exist before the unrelated activity ...
        keep = prior_activity(job.get("prior") or {})
        case = dict(job["case"])
        pilot = case.pop("pilot", None) or []
        case["cmds"] = [list(c) for c in pilot] + case["cmds"]
        rec = c06_impl.run_case(case, "v7c", early=early)   # ... the others are built after it, before initialize
        # the run proper starts with the initialize after the pilot run (if any)
        mk = next((m for m in rec["marks"] if m["cmd"] == len(pilot)), None)
        if mk is None:
            raise RuntimeError("the initialize of the run proper was not accepted")

        def seg(k):
            return rec[k][mk[k]:]
        # the process-independent part of the run
        parts = {
            "trace": seg("trace"),
            "deliveries": seg("dlv"),
            "simulator_listener_deliveries": seg("slv"),
            "notifications": [n for n in seg("ntfs") if n[0] in ("startrepl", "warmup", "endrepl")],
            "observations": seg("obs"),
            "draws": seg("draws"),
            "scheduling": seg("outs"),
            "cancelled": seg("canc"),
            "statistics": [[x["key"], x["kind"], x["getters"]] for x in (rec["reported"] or [])],
            "final": rec["snaps"][-1][1:] if rec["snaps"] else None,
        }
        digest = hashlib.sha256(json.dumps(parts, sort_keys=True).encode()).hexdigest()
        out = {"digest": digest, "parts": parts, "notes": rec["notes"],
               "hashseed": os.environ.get("PYTHONHASHSEED"), "probe": hash("pydsol") % 1000}
        if job.get("full"):
            out["full"] = rec
        del keep
    except Exception as exc:  # noqa
        import traceback
        out = {"error": f"{type(exc).__name__}: {exc}", "tb": traceback.format_exc()[-1500:]}
    real_out.write(json.dumps(out))
    real_out.flush()
    os._exit(0)


if __name__ == "__main__":
    main()
