"""C03 — run horizon: bounded runs execute exactly the events up to the bound and compose.

Every generated program is run under a random segmentation (run_up_to /
run_up_to_including / step / stop-from-a-handler followed by start) and as one
uninterrupted run; model and implementation must agree on everything, and the
oracle checks the clauses of C03 on the implementation alone.
"""
from __future__ import annotations

import itertools
import json
import random
import sys
from pathlib import Path

sys.path.insert(0, str(Path(__file__).resolve().parent))
import common as C
import simlib as S
import c02

PID = "C03"


def strip_stops(prog):
    return [[a for a in body if not ((a[0] == "cmd" and a[1][0] == "stop") or a[0] == "extstop")] for body in prog]


def gen_fine_case(rng: random.Random, clock: str) -> dict:
    """fine exact scale (2**-40): cut points one step before / at / one step after event times"""
    prog, init = c02.gen_fine(rng)
    times = sorted({a[1][1] for a in prog[0] if a[0] == "sched"})
    cmds = [init]
    t = 0
    for _ in range(rng.randint(1, 5)):
        r = rng.random()
        if r < 0.2:
            cmds.append(["step"])
        else:
            later = [x for x in times if x >= t] or [t]
            t = max(t, rng.choice(later) + rng.choice([-1, -1, 0, 0, 1, 1, 2]))
            cmds.append(["runupto" if rng.random() < 0.6 else "runuptoincl", t])
    return {"clock": clock, "scale": 40, "strategy": "pause", "prog": prog, "cmds": cmds + [["start"]]}


BIG = 2 ** 53


def big_cases():
    """float simulator driven with Python ints beyond 2**53 (exact as ints, not as floats): bounds between
    neighbouring event times, and a replication end that is not a float"""
    out = []
    q = lambda x: 4 * x
    prog = [[["sched", ["abs", q(BIG)], 5, 1], ["sched", ["abs", q(BIG + 1)], 5, 1], ["sched", ["abs", q(BIG + 2)], 7, 2],
             ["sched", ["abs", q(BIG + 3)], 5, 1]], [["sched", ["rel", q(1)], 3, 2]], []]
    for cuts in ([["runupto", q(BIG + 1)]], [["runuptoincl", q(BIG + 1)]], [["runupto", q(BIG + 1)], ["runupto", q(BIG + 2)]],
                 [["runuptoincl", q(BIG + 1)], ["step"], ["runupto", q(BIG + 3)]], [["runupto", q(BIG + 3)], ["runuptoincl", q(BIG + 3)]]):
        out.append({"clock": "fint", "strategy": "pause", "prog": prog,
                    "cmds": [["init", 0, 0, q(BIG + 9)]] + cuts + [["start"]]})
    e = 10 ** 17 + 9
    prog2 = [[["sched", ["abs", q(e - 1)], 5, 1], ["sched", ["abs", q(e)], 5, 1], ["sched", ["abs", q(e + 1)], 5, 1],
              ["sched", ["abs", q(e + 3)], 5, 1], ["sched", ["abs", q(e + 7)], 5, 1]], []]
    for cuts in ([], [["runupto", q(e)]], [["runuptoincl", q(e - 1)], ["step"]], [["runupto", q(e + 5)]]):
        out.append({"clock": "fint", "strategy": "pause", "prog": prog2, "cmds": [["init", 0, 0, q(e)]] + cuts + [["start"]]})
    return out


def gen_free_case(rng: random.Random, clock: str) -> dict:
    """non-dyadic float times used verbatim (oracle only, bit for bit): bounded runs whose bounds are such values,
    issued while the clock is such a value - bound == current clock, bound == end, the same bound twice
    (run_up_to(t) then run_up_to_including(t)), an int bound on the float clock, a Duration bound given in minutes"""
    case = c02.gen_free(rng, clock)
    init = case["cmds"][0]
    end = init[3]
    pool = sorted({a[1][1] for body in case["prog"] for a in body if a[0] == "sched" and a[1][0] == "abs"} | {end})
    cmds = [init]
    t = 0
    for _ in range(rng.randint(1, 5)):
        r = rng.random()
        if r < 0.15:
            cmds.append(["step"])
            continue
        later = [x for x in pool if x >= t] or [end]
        t = rng.choice(later + [end]) if r > 0.3 else t           # sometimes the bound is the clock the last run left
        kind = rng.choice(["runupto", "runuptoincl"])
        cmds.append([kind, t])
        if rng.random() < 0.35:
            cmds.append(["runuptoincl" if kind == "runupto" else "runupto", t])      # the same bound again: must stay legal
    if clock == "float" and rng.random() < 0.4:
        cmds.insert(rng.randint(1, len(cmds)), ["runupto", rng.choice([1, 2, 3]), "int"])
    if clock == "dur" and rng.random() < 0.3:
        cmds.insert(rng.randint(1, len(cmds)), ["runuptoincl", 60, "min"])
    case["cmds"] = cmds + [["start"]]
    return case


def gen_case(rng: random.Random, i: int) -> dict:
    clock = S.CLOCKS[i % len(S.CLOCKS)]
    if i % 16 in (7, 12):
        return gen_free_case(rng, "float" if i % 16 == 7 else "dur")
    if i % 8 in (5, 6):
        return gen_fine_case(rng, "dur" if i % 8 == 5 else "float")
    u = S.unit_of(clock)
    prog = S.gen_program(rng, clock, p_illegal=0.05, p_cancel=0.10)
    init = S.gen_repl(rng, clock)
    start, end = init[1], init[3]
    with_stop = (i % 50 == 7)          # stop() called by a handler costs 1 s wall each: few of them
    ext_stop = (i % 5 == 3)            # stop() by the controlling thread while a handler runs: cheap
    if with_stop or ext_stop:
        hs = [h for h in range(1, len(prog)) if prog[h]]
        if hs:
            h = rng.choice(hs)
            prog[h].insert(rng.randint(0, len(prog[h])), ["cmd", ["stop"]] if with_stop else ["extstop"])
        with_stop = True
    cmds = [init]
    t = start
    nseg = rng.randint(1, 6)
    for _ in range(nseg):
        r = rng.random()
        if r < 0.30:
            cmds.append(["step"])
        elif r < 0.36:
            cmds.append(["start"])          # early start: the rest is then refused
        else:
            jump = rng.choice([0, 0, 1, 1, 2, 3, 5, 8, 13]) * u
            t = t + jump
            if rng.random() < 0.08:
                t = end                       # cut exactly at the end
            if rng.random() < 0.05:
                t = max(start, t - 3 * u)     # sometimes a bound in the past
            if rng.random() < 0.04:
                t = end + 2 * u               # beyond the end
            cmd = ["runupto" if rng.random() < 0.5 else "runuptoincl", t]
            if clock == "int" and rng.random() < 0.3:
                cmd[1] = t = t + rng.choice([1, 2, 3])       # a fractional (dyadic) bound on the int simulator
            elif clock == "float" and t % 4 == 0 and rng.random() < 0.4:
                cmd.append("int")                              # an int bound on the float simulator
            cmds.append(cmd)
    n_final = 4 if with_stop else 1
    cmds += [["start"]] * n_final
    return S.maybe_fail_construct({"clock": clock, "strategy": "pause", "prog": prog, "cmds": cmds}, rng, i)


def small_prog(u):
    """ties at 2u (priorities 5 / 7), zero-delay child, self-rescheduling handler, an event exactly at the end"""
    return [[["sched", ["abs", 2 * u], 5, 1], ["sched", ["abs", 2 * u], 7, 2], ["sched", ["rel", 4 * u], 5, 3],
             ["sched", ["abs", 12 * u], 5, 2]],
            [["sched", ["now"], 5, 2], ["sched", ["rel", u], 3, 2], ["cancel", 3]],
            [],
            [["sched", ["rel", 3 * u], 5, 3]]]


def cut_alphabet(u):
    al = [["step"], ["start"]]
    for t in (0, u, 2 * u, 3 * u, 4 * u, 7 * u, 12 * u, 14 * u):
        al.append(["runupto", t])
        al.append(["runuptoincl", t])
    return al


def extra_cases(tier):
    """bounded-exhaustive segmentations of one small replication: every sequence of cuts up to a length"""
    out = []
    out += big_cases()
    out += at_end_cases()       # pauses exactly at the end time (were not resumable before the repair of the guard)
    rng = random.Random(C.seed() * 7919 + 3)
    for clock in (["float"] if tier == "quick" else ["float", "int", "durmin"]):
        u = 60 if clock == "durmin" else S.unit_of(clock)
        prog = small_prog(u)
        al = cut_alphabet(u)
        init = ["init", 0, u, 12 * u]
        seqs = [list(q) for n in (1, 2) for q in itertools.product(al, repeat=n)]
        triples = [list(q) for q in itertools.product(al, repeat=3)]
        seqs += triples if tier != "quick" else rng.sample(triples, 400)
        for q in seqs:
            out.append({"clock": clock, "strategy": "pause", "prog": prog, "cmds": [init] + [list(c) for c in q] + [["start"]]})
    return out


def prepare(cases, obs):
    """uninterrupted runs of the same programs (stop requests removed); identical base runs are run once"""
    keys, uniq, base = [], {}, []
    for c in cases:
        b = {"clock": c["clock"], "strategy": c["strategy"], "prog": strip_stops(c["prog"]),
             "cmds": [c["cmds"][0], ["start"]]}
        for key in ("scale", "freetime"):
            if key in c:
                b[key] = c[key]
        k = json.dumps(b, sort_keys=True)
        if k not in uniq:
            uniq[k] = len(base)
            base.append(b)
        keys.append(uniq[k])
    res = S.run_impl(base)
    return [res[j] for j in keys]


def end_finding_registered(pid):
    """Transitional: the clause below is evaluated once the coordinator has either listed the finding in
    known_findings.json (it is then reported as KNOWN-FINDING) or applied the repair (set VERIF_END_REPAIRED=1
    / flip END_REPAIRED); until then C03 / C05 stay as registered."""
    import os
    if END_REPAIRED or os.environ.get("VERIF_END_REPAIRED"):
        return True
    return any(k.get("property") == pid and k.get("signature") == "pause-at-replication-end-cannot-be-resumed"
               for k in C.load_known().get("findings", []))


END_REPAIRED = True      # /repo has 'fix: a simulation paused exactly at the replication end can be resumed and ended'


def stuck_at_end(case, obs, base, end, pid="C03"):
    """paused exactly at the replication end time with events still pending: nothing can continue or end it"""
    if not end_finding_registered(pid):
        return None
    if not obs["snaps"] or len(obs["snaps"]) < 2:
        return None
    r, rs, ps, clk, npend = obs["snaps"][-1]
    last_cmd = case["cmds"][len(obs["snaps"]) - 1]
    if (rs, ps) == ("STOPPED", "STARTED") and clk == end and r == "refused" and last_cmd[0] in ("start", "step") \
            and base["snaps"][-1][1] == "ENDED" and len(base["trace"]) > len(obs["trace"]):
        return (f"clock {clk}/4 = replication end, state {rs}/{ps}, {npend} event(s) pending, {last_cmd} refused: the replication can "
                f"neither continue nor end; the uninterrupted run also executes {base['trace'][len(obs['trace']):][:6]} and ends")
    return None


def at_end_cases():
    """programs that pause exactly at the end time: step onto an event at the end / stop() in its handler"""
    out = []
    for clock in ("int", "float", "dur"):
        u = S.unit_of(clock)
        e = 8 * u
        prog = [[["sched", ["abs", e - u], 5, 1], ["sched", ["abs", e], 5, 1], ["sched", ["abs", e], 5, 1]], []]
        out.append({"clock": clock, "strategy": "pause", "prog": prog,
                    "cmds": [["init", 0, 0, e], ["runupto", e - u], ["step"], ["step"], ["start"]]})
        prog2 = [[["sched", ["abs", e - u], 5, 1], ["sched", ["abs", e], 5, 2], ["sched", ["abs", e], 5, 1]], [], [["cmd", ["stop"]]]]
        out.append({"clock": clock, "strategy": "pause", "prog": prog2, "cmds": [["init", 0, 0, e], ["start"], ["start"]]})
    return out


def oracle(case, obs, ctx, idx):
    facts = {"bounded_cut": False, "cut_at_event_time": False, "step": False, "stop_start": False,
             "nondyadic_bounds": False, "executed": 0}
    why = S.representable(obs, case)
    if "error" in obs:
        return ("driver-error", obs["error"]), facts
    free = bool(case.get("freetime"))        # verbatim non-dyadic floats: every comparison below is bit for bit
    if free:
        why = None
        facts["nondyadic_bounds"] = True
    bad_clock = None if free else S.log_insane(obs)
    if bad_clock:
        return ("clock-not-an-exact-number", bad_clock), facts
    if obs.get("notes"):
        return ("simulator-did-not-come-to-rest", "; ".join(obs["notes"]) + f" (snapshots so far: {obs.get('snaps')})"), facts
    base = ctx[idx]
    init = case["cmds"][0]
    start, end = init[1], init[3]
    # walk the chronological log segment by segment
    seg_exec = []
    clock_before = start
    ended = False
    exclusive_cut_at_end = False
    all_times = [e[2] for e in base.get("log", []) if e[0] == "exec"]
    seg_stopped = False
    for ent in obs["log"]:
        if ent[0] == "exec":
            if ent[2] > end:
                return ("event-executed-after-end", f"event {ent[1]} ran at {ent[2]}/4, replication end {end}/4"), facts
            if ent[2] < clock_before:
                return ("event-executed-before-the-clock-left-by-the-previous-command",
                        f"event {ent[1]} ran at {ent[2]} although the clock already stood at {clock_before}: "
                        "the previous bounded run left an event earlier than its bound pending"), facts
            seg_exec.append(ent)
        elif ent[0] == "ntf" and ent[1] == "stopping":
            seg_stopped = True
            facts["stop_start"] = True
        elif ent[0] == "cmd":
            c, r, rs, ps, clk, npend = ent[1], ent[2], ent[3], ent[4], ent[5], ent[6]
            if r not in ("ok", "refused") and not (c[0] == "init" and S.construct_fails(case)):
                return ("command-raises-unrelated-error", f"{c} -> {r}"), facts
            if c[0] in ("runupto", "runuptoincl") and r == "ok":
                t = c[1]
                inc = c[0] == "runuptoincl"
                if t > end:
                    t, inc = end, True
                for e in seg_exec:
                    if e[2] > t or (e[2] == t and not inc):
                        return ("bounded-run-executed-event-beyond-bound", f"{c}: event {e[1]} at {e[2]}/4"), facts
                if not seg_stopped:
                    if clk != t:
                        return ("bounded-run-clock-not-at-bound", f"{c}: clock {clk}/4 after the run"), facts
                    if t < end:
                        facts["bounded_cut"] = True
                        if t in all_times:
                            facts["cut_at_event_time"] = True
                        if (rs, ps) != ("STOPPED", "STARTED"):
                            return ("bounded-run-not-resumable", f"{c}: state after the run {rs}/{ps}, end {end}/4"), facts
                    elif not inc:
                        exclusive_cut_at_end = True
                elif (rs, ps) != ("STOPPED", "STARTED"):
                    return ("stopped-run-not-resumable", f"{c}: state after stop() {rs}/{ps}"), facts
            if c[0] in ("runupto", "runuptoincl") and r == "refused" and rs == "STOPPED" and ps == "STARTED" \
                    and c[1] != "nan" and c[1] >= clk and clk <= end:
                return ("resumable-run-refused", f"{c} refused at clock {clk}/4 in state {rs}/{ps}"), facts
            if c[0] == "step" and r == "ok":
                facts["step"] = True
                if len(seg_exec) > 1:
                    return ("step-executed-several-events", f"{len(seg_exec)} events in one step"), facts
            if c[0] == "start" and r == "ok" and seg_exec and clock_before > start and rs == "STOPPED":
                facts["stop_start"] = True
            if seg_stopped and r == "ok":
                facts["stop_start"] = True
            if clk < clock_before:
                return ("clock-went-backwards", f"{c}: clock {clock_before}/4 -> {clk}/4"), facts
            clock_before = clk
            ended = (rs == "ENDED")
            seg_exec = []
            seg_stopped = False
    tr = obs["trace"]
    bt = base["trace"]
    facts["executed"] = len(tr)
    stuck = stuck_at_end(case, obs, base, end)
    if stuck:
        facts["paused_at_end"] = True
        return ("pause-at-replication-end-cannot-be-resumed", stuck), facts
    if ended and not exclusive_cut_at_end:
        if tr != bt:
            return ("segmented-run-differs-from-uninterrupted-run",
                    f"segmented trace {tr[:12]}... vs uninterrupted {bt[:12]}... ((k, clock/4) pairs)"), facts
        if obs["snaps"][-1][3] != base["snaps"][-1][3]:
            return ("final-clock-differs", f"{obs['snaps'][-1][3]} vs {base['snaps'][-1][3]}"), facts
    else:
        if tr != bt[:len(tr)]:
            return ("segmented-run-not-a-prefix-of-uninterrupted-run", f"{tr[:12]} vs {bt[:12]}"), facts
    if why is not None:
        return ("unexpected-observation", why), facts
    return None, facts


RULE = ("bounded-exhaustive: every sequence of <= 2 cuts (quick: + 400 sampled triples; thorough: all triples, 3 clocks) over "
        "{step, start, run_up_to t, run_up_to_including t : t in 8 points before / at / between event times, at the end, beyond it} "
        "on one small replication with a tie, a zero-delay child and an event exactly at the end; plus "
        "generated programs x random segmentations of the replication into run_up_to / run_up_to_including / step pieces "
        "(cuts before, at and between event times, at the end, beyond the end, in the past) and pauses - stop() called by a handler, "
        "or by the controlling thread while a handler runs (rendezvous) - followed by start; a quarter of the cases on the fine exact scale 2^-40 with cuts one step before / at / after event times; "
        "fractional bounds on the int simulator, int bounds on the float simulator, and a float simulator driven with ints beyond 2^53 "
        "(bounds between neighbouring ints, replication end 10^17+9); an eighth of the cases with non-dyadic float times used verbatim "
        "(0.1, 0.3, 1/3 ...: bounds that are such values, equal to the current clock, to the end, repeated, int on the float clock, "
        "Duration in minutes) - oracle only, bit for bit, outside the Z-scaled model; each also run uninterrupted; non-trivial = distinct case executing >= 3 events with a bounded cut before the "
        "end, a step, or a stop/start pause")


def main(tier: str) -> int:
    return c02.main(tier, pid=PID, gen=gen_case, oracle_fn=oracle, prepare=prepare, rule=RULE,
                    n_quick=2000, n_thorough=40000, extra_cases=extra_cases,
                    targets=["Sim/Case.vo", "Sim/Horizon.vo", "Props/C03.vo"])


def replay(path: str) -> int:
    return c02.replay_generic(path, PID, oracle, prepare)


if __name__ == "__main__":
    sys.exit(main(sys.argv[1] if len(sys.argv) > 1 else "quick"))
