"""Implementation-side driver for C14 / C15 (runs in a fresh interpreter on the
sources under VERIF_REPO, see common.run_impl_json).

stdin : {"mode": "cases", "cases": [...]} | {"mode": "pow", "pairs": [[xhex, yhex], ...]}
        | {"mode": "dens", "cases": [...]}
stdout: JSON results.

Every case runs under a hard timer (rejection loops do not terminate on some
inputs, e.g. DistPoisson with a NaN rate).  math.* calls made by
pydsol.core.distributions and pydsol.core.utils are recorded through a proxy
object installed on the two imported modules (no source hook).
"""
import json
import math
import random
import signal
import sys

import pydsol.core.distributions as D
import pydsol.core.utils as U
import pydsol.core.units as UN
from pydsol.core.streams import StreamInterface, MersenneTwister

TABLE_FUNCS = {"log", "exp", "pow", "erf", "gamma", "lgamma"}
CASE_TIMEOUT = 2.0


class CaseTimeout(BaseException):
    pass


def _alarm(signum, frame):
    raise CaseTimeout()


signal.signal(signal.SIGALRM, _alarm)


# ------------------------------------------------------------------ math proxy
class MathProxy:
    """Stands in for the `math` module inside distributions.py / utils.py and
    records every call of a table function with arguments and result."""

    def __init__(self):
        self.calls = []
        self.other = {}

    def __getattr__(self, name):
        real = getattr(math, name)
        if not callable(real):
            return real
        if name not in TABLE_FUNCS:
            def passthrough(*a, _real=real, _name=name):
                self.other[_name] = self.other.get(_name, 0) + 1
                return _real(*a)
            return passthrough

        def wrapped(*a, _real=real, _name=name):
            try:
                r = _real(*a)
            except CaseTimeout:
                raise
            except Exception as exc:  # noqa
                self.calls.append((_name, a, ("e", type(exc).__name__)))
                raise
            self.calls.append((_name, a, ("v", r)))
            return r
        return wrapped


PROXY = MathProxy()
D.math = PROXY
U.math = PROXY


def hx(x):
    return float(x).hex()


def table_of(calls):
    seen = set()
    out = []
    for name, args, res in calls:
        try:
            fa = [float(a) for a in args]
        except Exception:  # noqa
            continue
        key = (name, tuple(a.hex() for a in fa))
        if key in seen:
            continue
        seen.add(key)
        x = fa[0].hex()
        y = fa[1].hex() if len(fa) > 1 else None
        if res[0] == "v":
            out.append([name, x, y, ["v", hx(res[1])]])
        else:
            out.append([name, x, y, ["e", res[1]]])
    return out


# ------------------------------------------------------------------ scripted streams
class ScriptStream(StreamInterface):
    """A StreamInterface implementation that is NOT a MersenneTwister: delivers a
    finite script, then falls through to a seeded random.Random tail (a periodic
    script would make rejection loops spin for ever).  next_int runs the code of
    MersenneTwister.next_int on this object."""

    def __init__(self, script, seed):
        self._script = list(script)
        self._pos = 0
        self._seed0 = seed
        self._tail = random.Random(seed)
        self._random = self
        self.delivered = []

    def random(self):
        if self._pos < len(self._script):
            v = self._script[self._pos]
            self._pos += 1
        else:
            v = self._tail.random()
        self.delivered.append(v)
        return v

    def next_float(self):
        return self.random()

    def next_bool(self):
        return self.random() < 0.5

    def next_int(self, lo, hi):
        return MersenneTwister.next_int(self, lo, hi)

    def seed(self):
        return self._seed0

    def original_seed(self):
        return self._seed0

    def set_seed(self, seed):
        """re-seeding rewinds: the script is delivered again, then the tail of that seed"""
        self._seed0 = seed
        self._tail = random.Random(seed)
        self._pos = 0

    def reset(self):
        self.set_seed(self._seed0)

    def save_state(self):
        return None

    def restore_state(self, state):
        pass


class _ScriptRandom(random.Random):
    def __init__(self, script, seed, delivered):
        super().__init__(seed)
        self._script = list(script)
        self._pos = 0
        self._delivered = delivered

    def seed(self, *a, **k):
        """MersenneTwister.set_seed / reset re-seed this object: the script is delivered again as well"""
        super().seed(*a, **k)
        self._pos = 0

    def random(self):
        if self._pos < len(self._script):
            v = self._script[self._pos]
            self._pos += 1
        else:
            v = super().random()
        self._delivered.append(v)
        return v


def make_stream(spec):
    script = [float.fromhex(h) for h in spec["script"]]
    if spec.get("kind") == "mt":
        s = MersenneTwister(spec["seed"])
        s.delivered = []
        s._random = _ScriptRandom(script, spec["seed"], s.delivered)
        return s
    return ScriptStream(script, spec["seed"])


# ------------------------------------------------------------------ cases
def decode_param(p):
    if p[0] == "f":
        return float.fromhex(p[1])
    if p[0] == "i":
        return int(p[1])
    if p[1] == "none":
        return None
    if p[1] == "list":
        return [1.0]
    return "1"


def exc_out(exc, consumed, other):
    return ["raise", type(exc).__name__, str(exc)[:160], consumed, other]


def make_wrapper(obj, qname, unit):
    """(wrapper, factor of the unit, the wrapped instance)"""
    if qname == "SI":
        return UN.SIDist(obj, unit), float(UN.SI(1.0, unit)), obj
    return getattr(UN, qname + "Dist")(obj, unit), float(getattr(UN, qname)._units[unit]), obj


NON_STREAMS = (None, 3, "stream")       # objects that are not a StreamInterface, for refused assignments


def run_case(case):
    PROXY.calls = []
    streams = [make_stream(s) for s in case["streams"]]
    inst = {}
    cur = {}
    wrappers = {}
    outs = []
    timed_out = False

    def counts():
        return [len(s.delivered) for s in streams]

    signal.setitimer(signal.ITIMER_REAL, CASE_TIMEOUT)
    try:
        for op in case["ops"]:
            before = counts()
            kind = op[0]

            def used(sid):
                after = counts()
                mine = after[sid] - before[sid] if sid is not None and 0 <= sid < len(streams) else 0
                other = sum(a - b for a, b in zip(after, before)) - mine
                return mine, other
            if kind == "reset":
                # rewind a stream (replication loop): everything it delivers afterwards is appended to `delivered`
                _, sid, how = op
                if how == "set_seed":
                    streams[sid].set_seed(streams[sid].seed())
                else:
                    streams[sid].reset()
                outs.append(["reset"])
            elif kind == "new":
                _, i, cname, sok, sid, params = op
                stream = streams[sid] if sok else (None if sid % 2 == 0 else 5)
                try:
                    obj = getattr(D, cname)(stream, *[decode_param(p) for p in params])
                except Exception as exc:  # noqa
                    inst.pop(i, None)
                    outs.append(exc_out(exc, *used(sid)))
                    continue
                inst[i] = obj
                cur[i] = sid
                m, o = used(sid)
                outs.append(["accept", m, o])
            elif kind in ("draw", "drawq", "set") and op[1] not in inst:
                outs.append(["noinst"])
            elif kind == "draw":
                i = op[1]
                try:
                    v = inst[i].draw()
                except Exception as exc:  # noqa
                    outs.append(exc_out(exc, *used(cur[i])))
                    continue
                m, o = used(cur[i])
                if type(v) is float:
                    outs.append(["val", "f", v.hex(), m, o])
                elif type(v) is int:
                    outs.append(["val", "i", str(v), m, o])
                else:
                    outs.append(["val", "other", repr(type(v)), m, o])
            elif kind == "wrap" and op[1] in inst:
                # build the quantity wrapper now and keep it: later drawq operations of this instance with the same
                # quantity / unit draw through THIS object (a wrapper built before a re-pointing must follow it)
                _, i, qname, unit = op
                try:
                    wrappers[(i, qname, unit)] = make_wrapper(inst[i], qname, unit)
                    outs.append(["wrap"])
                except Exception as exc:  # noqa
                    outs.append(exc_out(exc, *used(cur[i])))
            elif kind == "wrap":
                outs.append(["noinst"])
            elif kind == "drawq":
                _, i, qname, unit = op
                try:
                    key = (i, qname, unit)
                    if key not in wrappers or wrappers[key][2] is not inst[i]:
                        wrappers[key] = make_wrapper(inst[i], qname, unit)
                    w, factor, _of = wrappers[key]
                    q = w.draw()
                except Exception as exc:  # noqa
                    outs.append(exc_out(exc, *used(cur[i])))
                    continue
                m, o = used(cur[i])
                outs.append(["valq", float(q).hex(), str(getattr(q, "unit", None)), hx(factor),
                             m, o, type(q).__name__])
            elif kind == "set":
                _, i, sok, sid = op
                stream = streams[sid] if sok else NON_STREAMS[sid % len(NON_STREAMS)]
                try:
                    inst[i].stream = stream
                except Exception as exc:  # noqa
                    outs.append(exc_out(exc, *used(cur[i])))
                    continue
                same = inst[i].stream is stream
                m, o = used(sid)
                cur[i] = sid
                outs.append(["none", m, o, same])
            else:
                outs.append(["bad-op"])
    except CaseTimeout:
        timed_out = True
    finally:
        signal.setitimer(signal.ITIMER_REAL, 0)
    delivered = [[v.hex() for v in s.delivered] for s in streams]
    # a few more values of each stream, so that a model that wants more output
    # than the code consumed computes something different instead of running dry
    extra = [[s.random().hex() if isinstance(s, ScriptStream) else s._random.random().hex()
              for _ in range(4)] for s in streams]
    return {"outs": outs, "delivered": delivered, "extra": extra, "table": table_of(PROXY.calls),
            "timeout": timed_out}


# ------------------------------------------------------------------ density / probability / cdf (C15)
def run_dens(case):
    """case = {"cls":..., "params":[...], "calls":[[method, arg], ...]}; arg = ["f",hex] | ["i",int]"""
    PROXY.calls = []
    out = {"ctor": None, "outs": [], "timeout": False}
    signal.setitimer(signal.ITIMER_REAL, CASE_TIMEOUT)
    try:
        try:
            obj = getattr(D, case["cls"])(MersenneTwister(1), *[decode_param(p) for p in case["params"]])
            out["ctor"] = ["accept"]
        except Exception as exc:  # noqa
            out["ctor"] = ["raise", type(exc).__name__, str(exc)[:160]]
            obj = None
        if obj is not None:
            for meth, arg in case["calls"]:
                a = decode_param(arg)
                try:
                    v = getattr(obj, meth)(a)
                except Exception as exc:  # noqa
                    out["outs"].append(["raise", type(exc).__name__, str(exc)[:160]])
                    continue
                if type(v) is float:
                    out["outs"].append(["val", "f", v.hex()])
                elif type(v) is int:
                    out["outs"].append(["val", "i", str(v)])
                else:
                    out["outs"].append(["val", "other", repr(type(v))])
    except CaseTimeout:
        out["timeout"] = True
    finally:
        signal.setitimer(signal.ITIMER_REAL, 0)
    out["table"] = table_of(PROXY.calls)
    return out


def eval_pow(pairs):
    res = []
    for xh, yh in pairs:
        x = float.fromhex(xh)
        y = float.fromhex(yh)
        try:
            r = x ** y
        except Exception as exc:  # noqa
            res.append(["e", type(exc).__name__])
            continue
        if type(r) is float:
            res.append(["v", r.hex()])
        else:
            res.append(["u"])
    return res


def main():
    req = json.load(sys.stdin)
    if req["mode"] == "cases":
        json.dump([run_case(c) for c in req["cases"]], sys.stdout)
    elif req["mode"] == "dens":
        json.dump([run_dens(c) for c in req["cases"]], sys.stdout)
    elif req["mode"] == "pow":
        json.dump(eval_pow(req["pairs"]), sys.stdout)
    else:
        raise SystemExit("unknown mode")


if __name__ == "__main__":
    main()
