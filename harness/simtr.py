"""C02-C05, second tie: the sequential logic of simulator.py regenerated from the source text
(translator/py2gallina_sim.py) must be proved equal to the hand-written model (coq/Sim/GenAgree.v) on every run.

Every run translates src/pydsol/core/simulator.py of the tree under test into
.scratch/sim/trees/<key>/Gen_Sim.v, compiles it and the agreement proofs (copied there, the generated module
imported from the second logical root PVT) and re-checks Props/<pid>.v against them.  <key> hashes the tree's
simulator.py and simevent.py, the translator, GenAgree.v and the model sources, so runs against different trees
never share a generated file and a finished directory is never stale.  coq/Sim/Gen_Sim.v (tools/regen.sh) is only
for setup / `build all` and is not touched here.  (Same machinery as harness/c08lib.py.)
"""
from __future__ import annotations

import fcntl
import hashlib
import json
import os
import re
import shutil
import subprocess
import time
from pathlib import Path

import common as C

TREES = C.SCRATCH / "sim" / "trees"
LAYOUT = b"3"        # bump when the way a tree directory is filled changes
MODEL_VO = ["EventList/Key.vo", "Sim/Model.vo", "Sim/Order.vo"]
_IMPORT = re.compile(r"^From PV Require Import ((?:Sim\.(?:Gen_Sim|GenAgree)\s*)+)\.\s*$", re.M)
_COQ_WARN = "-notation-overridden,-deprecated-hint-without-locality,-abstract-large-number"
_THM = re.compile(r"^[ \t]*(?:Theorem|Lemma)\s+([A-Za-z0-9_']+)", re.M)
TRANSLATOR = "translator/py2gallina_sim.py"
GEN = "Gen_Sim"


def tree_source(text: str) -> str:
    return _IMPORT.sub(lambda m: "From PVT Require Import " + " ".join(x.replace("Sim.", "") for x in m.group(1).split()) + ".", text)


def _coqc_tree(tree: Path, path: Path, timeout: int = 600):
    cmd = ["timeout", str(timeout), "coqc", "-R", str(C.COQ), "PV", "-R", str(tree), "PVT", "-w", _COQ_WARN, str(path)]
    p = subprocess.run(cmd, capture_output=True, text=True, cwd=path.parent)
    return p.returncode, p.stdout + p.stderr


class SimTree:
    """Gen_Sim.v / GenAgree.v of the tree under test, built in a directory of their own."""

    def __init__(self):
        core = C.REPO / "src" / "pydsol" / "core"
        self.src = core / "simulator.py"
        h = hashlib.sha1(str(C.REPO.resolve()).encode() + b"\0" + LAYOUT + b"\0")
        for f in [self.src, core / "simevent.py", C.VERIF / TRANSLATOR, C.COQ / "Sim" / "GenAgree.v"] + [C.COQ / v[:-1] for v in MODEL_VO]:
            try:
                h.update(f.read_bytes())
            except OSError:
                h.update(b"<missing>")
            h.update(b"\0")
        self.key = h.hexdigest()[:16]
        self.dir = TREES / self.key
        self.info: dict = {}
        self.failed_theorems: list[dict] = []
        self.gen_error = ""
        self.timing: dict = {}

    def prepare(self):
        self.dir.mkdir(parents=True, exist_ok=True)
        t0 = time.time()
        ok, log = C.build_coq(MODEL_VO)
        if not ok:
            raise RuntimeError("the model the agreement proofs are about does not build: " + log[-800:])
        with open(self.dir / ".lock", "w") as lk:
            fcntl.flock(lk, fcntl.LOCK_EX)
            try:
                self._translate()
                self._build()
            finally:
                fcntl.flock(lk, fcntl.LOCK_UN)
        self._sweep()
        self.timing["prepare_s"] = round(time.time() - t0, 2)
        return self

    def _translate(self):
        j = self.dir / f"{GEN}.json"
        if not j.exists():
            t0 = time.time()
            env = dict(os.environ)
            env["VERIF_REPO"] = str(C.REPO)
            env["PYTHONDONTWRITEBYTECODE"] = "1"
            p = subprocess.run(["timeout", "120", C.PY, str(C.VERIF / TRANSLATOR), "--out", str(self.dir), "--keep-going"],
                               capture_output=True, text=True, env=env)
            (self.dir / "translator.log").write_text(p.stdout + p.stderr)
            if not j.exists():
                j.write_text(json.dumps({"ok": False, "repo": str(C.REPO), "methods": [], "failures": [
                    {"class": None, "method": None, "definition": None, "line": 0, "construct": "translator crashed",
                     "error": f"translator exit {p.returncode}: " + (p.stderr or p.stdout)[-1500:]}]}))
            self.timing["translate_s"] = round(time.time() - t0, 2)
        self.info = json.loads(j.read_text())
        if Path(self.info.get("repo", "")).resolve() != C.REPO.resolve():
            raise RuntimeError(f"translator read {self.info.get('repo')} but the check runs against {C.REPO}")

    @staticmethod
    def _fresh(vo: Path, v: Path, deps) -> bool:
        return vo.exists() and vo.stat().st_mtime_ns >= v.stat().st_mtime_ns and \
            all(d.exists() and d.stat().st_mtime_ns <= vo.stat().st_mtime_ns for d in deps)

    def _build(self):
        static = [C.COQ / v for v in MODEL_VO]
        gv, gvo = self.dir / f"{GEN}.v", self.dir / f"{GEN}.vo"
        av, avo = self.dir / "GenAgree.v", self.dir / "GenAgree.vo"
        state = self.dir / "agree_state.json"
        self.gen_error, self.failed_theorems = "", []
        if not gv.exists():
            self.gen_error = f"no {GEN}.v (translation failed)"
            return
        if not self._fresh(gvo, gv, static):
            t0 = time.time()
            rc, out = _coqc_tree(self.dir, gv, timeout=300)
            self.timing["coqc_gen_s"] = round(time.time() - t0, 2)
            if rc != 0:
                gvo.unlink(missing_ok=True)
                avo.unlink(missing_ok=True)
                self.gen_error = out[-2500:]
                return
        if self._fresh(avo, av, [gvo] + static) and state.exists():
            self.failed_theorems = json.loads(state.read_text())
            return
        t0 = time.time()
        text = tree_source((C.COQ / "Sim" / "GenAgree.v").read_text())
        seen = {}

        def note(name, why):
            if name not in seen:
                seen[name] = 0
                self.failed_theorems.append({"theorem": name, "why": why})

        def give_up_dependents(text, root):
            """everything whose text mentions something that is gone cannot check either: give it up in the same pass
            (named as depending on the root failure, not as a failure of its own)"""
            gone = {t["theorem"] for t in self.failed_theorems}
            changed = True
            while changed:
                changed = False
                for kind, name, _a, _b in self._items(text):
                    if name in gone:
                        continue
                    body = self._item_text(text, name)
                    hit = next((g for g in gone if re.search(r"\b" + re.escape(g) + r"\b", body)), None)
                    if hit:
                        note(name, f"depends on {hit} (root: {root})")
                        self.failed_theorems[-1]["root"] = False
                        seen[name] = 1
                        text = self._abort(text, name) if kind in self._PROVED else self._drop(text, name)
                        gone.add(name)
                        changed = True
                        break
            return text

        # items about a method the translator had to leave out cannot check: drop them first
        for d in [f["definition"] for f in self.info.get("failures", []) if f.get("definition")]:
            pat = re.compile(r"\b" + re.escape(d) + r"\b")
            for _kind, name, _a, _b in self._items(text):
                if pat.search(self._item_text(text, name)):
                    note(name, f"{d} could not be translated")
                    seen[name] = 2
                    text = self._drop(text, name)
        if self.failed_theorems:
            text = give_up_dependents(text, "a method that could not be translated")

        for _ in range(60):
            av.write_text(text)
            rc, out = _coqc_tree(self.dir, av, timeout=600)
            if rc == 0:
                break
            m = re.search(r'File "[^"]*GenAgree\.v", line (\d+)', out)
            item = self._item_at(text, int(m.group(1))) if m else None
            err = re.sub(r"\s+", " ", out[out.find("Error"):])[:600]
            if item is None or seen.get(item[1], 0) >= 2:
                avo.unlink(missing_ok=True)
                note("GenAgree.v", out[-1500:])
                break
            kind, name = item[0], item[1]
            note(name, err)
            seen[name] += 1
            # first the proof is given up (the statement stays, nothing is defined); if the statement itself does
            # not check any more (it mentions something given up before), the whole item goes
            text = self._abort(text, name) if (kind in self._PROVED and seen[name] == 1) else self._drop(text, name)
            text = give_up_dependents(text, name)
        state.write_text(json.dumps(self.failed_theorems))
        self.timing["coqc_agree_s"] = round(time.time() - t0, 2)

    _PROVED = ("Theorem", "Lemma", "Example")
    _ITEM = re.compile(r"^[ \t]*(Theorem|Lemma|Example|Definition|Fixpoint|Inductive)\s+([A-Za-z0-9_']+)", re.M)

    @classmethod
    def _items(cls, text: str):
        out = []
        for m in cls._ITEM.finditer(text):
            if out and m.start() < out[-1][3]:
                continue
            if m.group(1) in cls._PROVED:
                q = re.compile(r"\b(?:Qed|Abort)\.").search(text, m.end())
            else:
                q = re.compile(r"\.(?=\s|$)").search(text, m.end())
            out.append((m.group(1), m.group(2), m.start(), q.end() if q else len(text)))
        return out

    def _item_text(self, text: str, name: str) -> str:
        for _k, n, a, b in self._items(text):
            if n == name:
                return text[a:b]
        return ""

    def _item_at(self, text: str, line: int):
        pos = sum(len(l) + 1 for l in text.split("\n")[:line - 1])
        best = None
        for it in self._items(text):
            if it[2] <= pos + 1:
                best = it
        return best

    def _abort(self, text: str, name: str) -> str:
        for _k, n, a, b in self._items(text):
            if n == name:
                body = text[a:b]
                i = body.find("Proof.")
                if i < 0:
                    return self._drop(text, name)
                keep_lines = "\n" * body[i:].count("\n")
                return text[:a] + body[:i] + "Proof. Abort. (* no longer checks *)" + keep_lines + text[b:]
        return text

    def _drop(self, text: str, name: str) -> str:
        for _k, n, a, b in self._items(text):
            if n == name:
                keep_lines = "\n" * text[a:b].count("\n")
                return text[:a] + f"(* {name}: no longer checks, left out *)" + keep_lines + text[b:]
        return text

    def _sweep(self):
        try:
            for d in TREES.iterdir():
                if d.is_dir() and d != self.dir and time.time() - d.stat().st_mtime > 86400:
                    shutil.rmtree(d, ignore_errors=True)
            os.utime(self.dir)
        except OSError:
            pass

    # -- what the check needs to know
    def agreement_theorems(self):
        return _THM.findall((C.COQ / "Sim" / "GenAgree.v").read_text())

    def broken(self):
        """None when the regenerated model is proved equal to the hand-written one; otherwise what no longer checks."""
        fails = self.info.get("failures", [])
        thms = [t for t in self.failed_theorems if t.get("theorem")]
        thms = [t for t in thms if t.get("root", True)] + [t for t in thms if not t.get("root", True)]
        if self.gen_error and not fails:
            return {"stage": "generated file does not compile", "detail": self.gen_error[-1200:], "theorems": []}
        if fails:
            return {"stage": "translation", "detail": "; ".join(f["error"] for f in fails),
                    "theorems": [t["theorem"] for t in thms], "failures": fails}
        if thms:
            return {"stage": "agreement proof", "detail": thms[0]["why"], "theorems": [t["theorem"] for t in thms],
                    "roots": [t["theorem"] for t in thms if t.get("root", True)]}
        return None

    def coverage(self) -> dict:
        ms = self.info.get("methods", [])
        ignored = [dict(i, method=f"{m['class']}.{m['method']}") for m in ms for i in m.get("ignored_statements", [])]
        return {"translator": TRANSLATOR + " (Python ast, fail-closed; module under test not imported)",
                "source": self.info.get("source"), "source_sha1": self.info.get("source_sha1"),
                "tree_directory": f".scratch/sim/trees/{self.key}",
                "translated_methods": [{"method": f"{m['class']}.{m['method']}", "lines": m["lines"], "definition": m["definition"],
                                        "helpers_translated_at_the_call_site": [dict(helper=i["helper"], lines=i["lines"])
                                                                                for i in m.get("inlined_helpers", [])]}
                                       for m in ms],
                "translated_text_sha1": self.info.get("translated_text_sha1"),
                "translation_failures": self.info.get("failures", []),
                "statements_without_effect_on_the_model_state": ignored,
                "agreement_theorems": self.agreement_theorems(),
                "agreement_theorems_not_checking": self.failed_theorems,
                "hand_transcribed_only": self.info.get("hand_transcribed_only", []),
                "timing": self.timing}

    def props_report(self, pid: str, keep: bool = False) -> dict:
        """re-check coq/Props/<pid>.v against the generated model of this tree; theorem names and axioms"""
        text = tree_source((C.COQ / "Props" / f"{pid}.v").read_text())
        theorems = re.findall(r"^\s*Theorem\s+([A-Za-z0-9_']+)", text, re.M)
        printed = re.findall(r"^\s*Print Assumptions\s+([A-Za-z0-9_']+)", text, re.M)
        d = self.dir / f"props_{pid}_{os.getpid()}"
        d.mkdir(exist_ok=True)
        f = d / f"{pid}_recheck.v"
        f.write_text(text)
        rc, out = _coqc_tree(self.dir, f, timeout=900)
        if not keep:
            shutil.rmtree(d, ignore_errors=True)
        blocks = [b for b in re.split(r"(?=Closed under the global context|Axioms:)", out)
                  if b.startswith("Closed under the global context") or b.startswith("Axioms:")]
        assumptions = {}
        for name, b in zip(printed, blocks):
            assumptions[name] = [] if b.startswith("Closed") else \
                sorted(set(re.findall(r"^([A-Za-z_][A-Za-z0-9_'.]*)\s*:", b, re.M)))
        return {"ok": rc == 0, "theorems": theorems, "assumptions": assumptions, "log": out[-4000:], "printed": printed,
                "dir": d, "module": f"PVT.{d.name}.{pid}_recheck"}


def prepare(run: C.Run):
    """the tree of this run, or None (reported) when the model could not even be regenerated"""
    try:
        return SimTree().prepare()
    except Exception as exc:  # noqa
        run.violation("translated-model-not-buildable", f"the model could not be regenerated from the source: {type(exc).__name__}: {exc}"[:600],
                      {"unchecked": "coq/Sim/GenAgree.v"}, found_input=False)
        return None


def static_targets(targets):
    """the part of a check's targets that does not depend on the source text (Props files import GenAgree)"""
    return [t for t in targets if not t.startswith("Props/") and t not in ("Sim/GenAgree.vo", "Sim/Gen_Sim.vo")]


def check_proofs(run: C.Run, tree: SimTree, targets, extra_tb=None) -> bool:
    """What common.Run.check_proofs does, with the part that depends on the source text (Gen_Sim, GenAgree, the
    last section of Props/<pid>.v) taken from the run's own tree directory."""
    gate = C.source_gate()
    st = static_targets(targets)
    ok, log = C.build_coq(st)
    thorough = run.tier == "thorough" and not os.environ.get("VERIF_NO_COQCHK")
    rep = tree.props_report(run.pid, keep=thorough)
    n = len(rep["theorems"])
    run.cov["obligations"] = max(n, 1)
    run.cov["discharged"] = n if (ok and rep["ok"] and not gate) else 0
    run.cov["theorems"] = rep["theorems"]
    run.cov["axioms_per_theorem"] = rep["assumptions"]
    run.cov["source_translation"] = tree.coverage()
    rel = f".scratch/sim/trees/{tree.key}"
    run.cov["checker_cmd"] = (f"python3 {TRANSLATOR} --out {rel} && python3 tools/build.py {' '.join(st)} && "
                              f"coqc -R coq PV -R {rel} PVT <Gen_Sim.v, coq/Sim/GenAgree.v, coq/Props/{run.pid}.v> "
                              "(generated module imported from PVT; full .vo; Print Assumptions under every theorem)")
    axioms = sorted({a for v in rep["assumptions"].values() for a in v})
    tb = [C.KERNEL_TB,
          "axioms reported by Print Assumptions: " + (", ".join(axioms) if axioms else "none (all theorems closed under the global context)"),
          f"hand-written Gallina model tied to /repo (a) by the per-run correspondence check (harness/{run.pid.lower()}.py) and (b), for the "
          "sequential logic of the simulator's methods, by equality with the model regenerated from the source text on every run "
          "(translator/py2gallina_sim.py + coq/Sim/GenAgree.v)",
          "the translator translator/py2gallina_sim.py: its Python subset and the meaning it gives to it (state record = Model.sim; "
          "event list = Model's sorted pending list; SimEvent(..) = next id; fire / fire_timed of the lifecycle event types = Model's "
          "notification stream; raise DSOLError = refusal with the state at the raise; attribute of None = another exception; "
          "self.m() / super().m() resolved statically along DEVSSimulator -> Simulator; the run loop = recursion on fuel; a woken "
          "worker runs when the command has returned; threading machinery, wait loops, logging and the listed statements about "
          "things outside the state record have no effect), its tables (value universe and default of every argument) and its "
          "fixed Gallina blocks (prelude; model-program interpreter; command dispatch)"]
    run.cov["trusted_base"] = tb + list(extra_tb or [])
    good = ok and rep["ok"] and not gate
    if good and thorough:
        run.coqchk([rep["module"]], extra_roots=["-R", str(tree.dir), "PVT"])
    if thorough:
        shutil.rmtree(rep["dir"], ignore_errors=True)
    if gate:
        run.violation("forbidden-construct", "forbidden construct in the Coq development: " + "; ".join(gate[:5]),
                      {"lines": gate}, found_input=False)
        return False
    if not good:
        run.proof_log = (log[-2000:] if not ok else "") + rep["log"][-2000:]
        return False
    return True


def report_broken_tie(run: C.Run, tree: SimTree, extra: dict | None = None):
    """the regenerated model no longer equals the proved one and no explored input violates the property itself"""
    b = tree.broken()
    if not b:
        return
    names = [t for t in b["theorems"] if t] or ["(none compiled: " + b["stage"] + ")"]
    what = (f"the model regenerated from src/pydsol/core/simulator.py is no longer proved equal to the model the {run.pid} theorems "
            f"are about ({b['stage']}): " +
            (b["detail"][:400] if b["stage"] == "translation" else
             "agreement theorem(s) " + ", ".join((b.get("roots") or names)[:6]) + " of coq/Sim/GenAgree.v no longer check"
             + (f" (and {len(names) - len(b['roots'])} that rest on them)" if b.get("roots") and len(names) > len(b["roots"]) else "")) +
            "; the oracle (the clauses of the property evaluated on the implementation's own log) found no input on which the "
            "changed code violates the property")
    body = {"relation": "coq/Sim/GenAgree.v: " + ", ".join(b.get("roots") or names), "stage": b["stage"], "detail": b["detail"],
            "unchecked_theorems": names, "generated_file": str(tree.dir / f"{GEN}.v"),
            "how": f"VERIF_REPO={C.REPO} python3 {TRANSLATOR} --out <dir>; coqc -R coq PV -R <dir> PVT <dir>/{GEN}.v, "
                   "then coq/Sim/GenAgree.v with the generated module imported from PVT"}
    if b.get("failures"):
        body["translation_failures"] = b["failures"]
    body.update(extra or {})
    run.violation("translated-model-differs", what, body, found_input=False)
